"""C15 - generated code is a pure function of the request; caching is invisible (DESIGN.md section 3, C15)."""
import sys
from ..common import run_check
from ..srules import determinism, tensorapi
from ..srules.core import SourceIndex


def main(ctx):
    ctx.explanation = (
        "Engine S: (1) every construct that observes the iteration order of a builtin set/frozenset (or of a dict built from "
        "one) in code reachable from the generation/evaluation entry points is enumerated (typed dataflow over the AST) and must "
        "be in the confirmed-benign table with a machine-checked side condition; (2) StableSet/StableFrozenSet iterate their "
        "insertion-ordered store; (3) purity of the generation path (no clock, environment, randomness, id()/hash(), files, "
        "module-level mutable state; counters created per request); (4) cache-key completeness: lru_cache keyed by (Problem, "
        "backend), Problem.__eq__/__hash__ over assignment and the ordered formats, every class reachable through the key has "
        "generated equality over all fields or is an Enum, TensorMethod.__init__ reads only its parameters; (5) CLI dataflow: "
        "the text printed/written is the Success payload of generate_code(problem, kernel_types, language) unmodified; (6) "
        "make_problem evaluated abstractly: the format table of the Problem is ordered by the assignment's tensors whatever order "
        "the caller listed the formats in (parameter order and cache key are canonical)."
    )
    ctx.assumptions = [
        "iteration order of builtin set is hash-dependent, of dict insertion-ordered; functools.lru_cache is thread-safe and keyed by __eq__/__hash__",
        "byte-equality across processes of llvmlite's own printing is outside the repository",
    ]
    determinism.run(ctx)
    # the request -> Problem step is canonical: make_problem orders the format table by the assignment, whatever order
    # the caller listed the formats in (abstract evaluation; the rule is shared with C10)
    tensorapi.rule_problem_validation(ctx, SourceIndex(ctx.src))


if __name__ == "__main__":
    sys.exit(run_check("C15", main))
