"""C13 - kernel-allocated storage is freed exactly once, after its last user (DESIGN.md section 3, C13)."""
import sys
from ..common import run_check
from ..family import sweep
from ..srules import ownership, ownsem
from ..srules.core import SourceIndex
from ._kcheck import FAMILY_ASSUMPTIONS


def main(ctx):
    ctx.explanation = (
        "The ownership structure that makes any del/gc/pickle history safe, decided statically. [S, abstract evaluation in a model "
        "of cffi - vf/srules/ownsem.py] allocate_taco_structure, take_ownership_of_arrays and taco_structure_to_cffi are "
        "interpreted from source for every combination of level modes up to order 3, over every path (the hand-over may branch "
        "on what the kernel wrote): exactly the pointers a kernel mallocs (pos and crd of every compressed level, vals) get one "
        "ffi.gc(ptr, free) wrapper each, every wrapper and every cdata the structure points to is reachable from the holder "
        "registered under that structure, nothing cffi owns gets a free() destructor; TensorMethod.__call__ is evaluated with an "
        "event log: on every path that runs the kernel the output was allocated by this call and is handed over exactly once "
        "between the kernel's return and the end of the path (return or raise), nothing else is ever handed over, the result "
        "wraps that structure. [K] on every evaluate/assemble kernel of the family the arrays the kernel mallocs are handed back "
        "through exactly those slots, each assigned after the last realloc; inputs are never store roots. [S] no eager release, "
        "weakref.finalize, __del__ or exit hook in the tensor layer; free/ffi.gc only in _cffi_ownership.py; borrowed pointers "
        "never outlive a reference to their tensor; the holder table is a WeakKeyDictionary."
    )
    ctx.assumptions = FAMILY_ASSUMPTIONS + ["CPython/cffi finaliser ordering and all del/gc/pickle interleavings are NOT decided (history quantifier)"]
    ix = SourceIndex(ctx.src)
    ownsem.rule_handover_semantics(ctx, ix)
    ownsem.rule_ownership_semantics(ctx, ix)
    ownership.rule_weak_table(ctx, ix)
    ownership.rule_who_may_free(ctx, ix)
    ownership.rule_lifetime(ctx, ix)
    ownership.rule_borrowed_pointers(ctx, ix)
    sweep(ctx, ["own.handback", "own.store_roots", "slices.compute_preserves_structure"])
    ctx.rule("C13.slots", "allocated slots = owned slots on every kernel", min_instances=1000)


if __name__ == "__main__":
    sys.exit(run_check("C13", main))
