"""C13 - kernel-allocated storage is freed exactly once, after its last user (DESIGN.md section 3, C13)."""
import sys
from ..common import run_check
from ..family import sweep
from ..srules import ownership
from ..srules.core import SourceIndex
from ._kcheck import FAMILY_ASSUMPTIONS


def main(ctx):
    ctx.explanation = (
        "The ownership structure that makes any del/gc/pickle history safe, decided statically: [S] typestate of the output "
        "struct in TensorMethod.__call__ (fresh from allocate_taco_structure, kernel call, take_ownership_of_arrays exactly once "
        "and post-dominating the kernel call before any raise/return, never on an input); [S] the slots wrapped with "
        "ffi.gc(ptr, free) are pos and crd of every sparse level and vals; [K] on every evaluate/assemble kernel of the family the "
        "arrays the kernel mallocs are handed back through exactly those slots, each assigned after the last realloc, nothing "
        "else is allocated, inputs are never store roots; [S] finalisers are stored in the holder registered for the struct in a "
        "WeakKeyDictionary and the Tensor keeps the struct; [S] free/ffi.gc occur only in _cffi_ownership.py."
    )
    ctx.assumptions = FAMILY_ASSUMPTIONS + ["CPython/cffi finaliser ordering and all del/gc/pickle interleavings are NOT decided (history quantifier)"]
    ix = SourceIndex(ctx.src)
    ownership.rule_handover(ctx, ix)
    ownership.rule_owned_slots(ctx, ix)
    ownership.rule_anchoring(ctx, ix)
    ownership.rule_who_may_free(ctx, ix)
    ownership.rule_lifetime(ctx, ix)
    ownership.rule_borrowed_pointers(ctx, ix)
    sweep(ctx, ["own.handback", "own.store_roots", "slices.compute_preserves_structure"])
    ctx.rule("C13.slots", "allocated slots = owned slots on every kernel", min_instances=1000)


if __name__ == "__main__":
    sys.exit(run_check("C13", main))
