"""C07 - peephole optimisation never changes what a kernel computes (DESIGN.md section 3, C07)."""
import sys
from ..common import run_check
from ..srules import peephole


def main(ctx):
    ctx.explanation = (
        "Engine S: proof by structural induction over IR trees whose local lemmas are extracted from the optimiser's "
        "source. Every implementation registered on peephole_expression/statement/assignable is abstractly evaluated "
        "into rule instances (registered class, path condition, returned term); each instance must be a homomorphic "
        "rebuild (same class, every field from its own optimised value, positional order = dataclass field order) or a "
        "valid identity of the IR semantics decided by normal forms (polynomials over Q, truth tables with C "
        "short-circuit discipline, order axioms for reflexive comparisons, a small-step table for statements). "
        "Dispatch exhaustiveness and the wiring Module -> FunctionDefinition -> body -> Success(peephole(module)) are checked. "
        "Uninterpretable constructs are undischarged obligations."
    )
    ctx.assumptions = [
        "IR expressions are pure (only allocation has an effect) and total on states where the original runs safely",
        "rules that change the static type of a sub-term (1.0 * i -> i, 0 * f -> 0) are accepted as numerically equal; their effect on later integer overflow is outside the property's premise",
        "float zero sign may differ (stated in the property)",
    ]
    peephole.run(ctx)


if __name__ == "__main__":
    sys.exit(run_check("C07", main))
