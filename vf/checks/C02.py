"""C02 - every returned tensor is a canonical, self-consistent stored tensor (DESIGN.md section 3, C02)."""
import sys
from ..common import run_check
from ..family import sweep
from ._kcheck import FAMILY_ASSUMPTIONS


def main(ctx):
    ctx.explanation = (
        "Engine K on every evaluate/assemble kernel of the family, for all well-formed inputs: pos[0]=0 after "
        "allocation; K-cover path-count analysis (exactly one pos entry per parent position on every path, full "
        "counting loops over dense output levels ending in an unconditional arm, exactly one value per dense "
        "position); output cursors only advance by one and pos stores that cursor; crd stores the level's own loop "
        "variable under the flag, at most one append per iteration, loops ordered by the co-iteration lattice (strict "
        "increase, lemma L2); final realloc sizes crd->p, pos->parents+1, vals->(p+1)*trailing dims; every struct "
        "slot assigned after the last realloc of its array; every store into an output array lands inside its current "
        "allocation (C05's capacity analysis: a value or position written past the end of a too-small array is lost, so "
        "'a value for every stored position' needs it)."
    )
    ctx.assumptions = FAMILY_ASSUMPTIONS + ["lemma L2 (DESIGN.md section 6) for strict increase of coordinates in sparse loops"]
    sweep(
        ctx,
        [
            "cover.pos_init",
            "cover.k_cover",
            "cover.final_sizes",
            "cover.single_append",
            "flags.flag_typestate",
            "flags.flag_iff_supported",
            "addr.lattice_order",
            "own.handback",
            "bounds.memory_safety",
            "bounds.capacity_init",
        ],
    )
    ctx.rule("C02.K-cover", min_instances=1500)
    ctx.rule("C02.pos-init", min_instances=1000)
    ctx.rule("C02.final-sizes", min_instances=1000)


if __name__ == "__main__":
    sys.exit(run_check("C02", main))
