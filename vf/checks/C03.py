"""C03 - sparse outputs store no phantom coordinates (DESIGN.md section 3, C03)."""
import sys
from ..common import run_check
from ..family import sweep
from ._kcheck import FAMILY_ASSUMPTIONS


def main(ctx):
    ctx.explanation = (
        "Engine K (static analysis of emitted kernel IR, never executed): typestate of the `written` flags on "
        "every evaluate/assemble/compute kernel of the family: (1) every crd store and cursor advance of a "
        "compressed output level lies in the true arm of `if (flag)`; (2) the flag is reset to false in the same "
        "statement list before the sub-tree and only set to true in between; (3) a terminal raises all flags iff "
        "its right-hand side is structurally supported (contains an operand read, every read Matched by K-addr, or "
        "a non-zero literal); assemble inherits the verdict through structural-slice equality with evaluate."
    )
    ctx.assumptions = FAMILY_ASSUMPTIONS + [
        "shapes containing a literal zero are excluded from the iff of rule 3 (peephole erases b*0); only all-or-none is decided there",
    ]
    sweep(ctx, ["flags.flag_typestate", "flags.flag_iff_supported", "addr.k_addr", "slices.slice_equality"])
    ctx.rule("C03.flag-gating", "crd stores / cursor advances only under `if (written flag)`", min_instances=1500)
    ctx.rule("C03.flag-reset", "flag reset once per output coordinate, only raised in between", min_instances=1500)
    ctx.rule("C03.flag-iff-supported", "terminal raises flags iff structurally supported", min_instances=1000)


if __name__ == "__main__":
    sys.exit(run_check("C03", main))
