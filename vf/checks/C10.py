"""C10 - inconsistent arguments are refused before any kernel runs (DESIGN.md section 3, C10)."""
import sys
from ..common import run_check
from ..srules import axis, tensorapi
from ..srules.core import SourceIndex


def main(ctx):
    ctx.explanation = (
        "Engine S on TensorMethod.__call__/__init__, _porcelain.py, problem.py: who-may-enter-kernel (the compiled function "
        "pointer is called at exactly one site), must-pass-through by statement-level dominance (signature.bind, per-argument "
        "loop with isinstance/order/modes/ordering checks against the same argument's format, per-index loop), iteration-coverage "
        "domain of the dimension cross-check (All participants collected, AllButReference compared, no break/partial slice), "
        "output dimensions per target index, Problem/make_problem rejections."
    )
    ctx.assumptions = ["cffi itself rejecting non-cdata arguments is not decided"]
    ix = SourceIndex(ctx.src)
    tensorapi.rule_who_may_enter_kernel(ctx, ix)
    tensorapi.rule_call_validation(ctx, ix)
    tensorapi.rule_call_semantics(ctx, ix)
    tensorapi.rule_problem_validation(ctx, ix)
    # supplementary: the deciding rule for "which size is compared with which" is C10.call-semantics (every
    # scenario has distinct sizes per axis); typed subscripts exist only while the idiom is recognised, so no floor
    ctx.rule("C10.axis-typing", "sizes are read in dimension order, formats compared level-wise", min_instances=0)
    axis.run_axis(ctx, ix, "C10.axis-typing", modules=["tensora.compile._tensor_method", "tensora.problem"])


if __name__ == "__main__":
    sys.exit(run_check("C10", main))
