"""C09 - tensor construction and read-back are lossless for every format (DESIGN.md section 3, C09)."""
import sys
from ..common import run_check
from ..srules import axis, structsem, tensorapi
from ..srules.core import SourceIndex


def main(ctx):
    ctx.explanation = (
        "Engine S: (1) axis-space typing (D = dimension order, L = level order, Perm = mode ordering) of tensor.py, "
        "_cffi_ownership.py and every module that converts between user order and storage order: every subscript and every "
        "declared sink is checked for the right space, so coordinates permuted into level order are mapped back with the inverse "
        "permutation; (2) canonical structure (sorted, duplicate-free, duplicates accumulate); (3) mapping consumption (no arm "
        "of the mode dispatch silently drops keys); (4) validation dominates construction, pickling writer/reader agreement; "
        "(5) ordering must be a permutation before anything is built."
    )
    ctx.assumptions = [
        "arithmetic of duplicate summation and float identity through pickling are not decided",
        "attribute-space table and seeds in vf/srules/axis.py (receiver types from annotations)",
    ]
    ix = SourceIndex(ctx.src)
    ctx.rule("C09.axis-typing", "level order vs dimension order: every subscript/sink is indexed in the right space", min_instances=60)
    axis.run_axis(ctx, ix, "C09.axis-typing", exceptions=tensorapi.axis_exceptions())
    structsem.rule_construction_semantics(ctx, ix)
    structsem.rule_structure_semantics(ctx, ix)
    tensorapi.rule_validation_dominates(ctx, ix)


if __name__ == "__main__":
    sys.exit(run_check("C09", main))
