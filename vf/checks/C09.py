"""C09 - tensor construction and read-back are lossless for every format (DESIGN.md section 3, C09)."""
import sys
from ..common import run_check
from ..srules import axis, ownership, structsem, tensorapi
from ..srules.core import SourceIndex


def main(ctx):
    ctx.explanation = (
        "Engine S. (1) Abstract evaluation over a SYMBOLIC stored structure (vf/srules/structsem.py, symeval + symint): for every "
        "format up to order 3 the readers (taco_indices, taco_vals, items) and the validator taco_structure_to_cffi are interpreted "
        "with symbolic dimension sizes and arrays of unknown content/length; position counts, slice bounds, visited ranges, the "
        "value position and the reported coordinate are compared as polynomials in normal form with the format's recurrences; on "
        "the validator's accepting path the assumptions must contain every clause of the canonical form, every other path raises "
        "ValueError, nothing is built before validation. (2) Tensor.from_aos is interpreted over SYMBOLIC coordinates and values "
        "(up to 3 entries, formats up to order 2): each path is an order type of the coordinates relative to each other and to the "
        "dimension bounds; for every integer witness of the path the structure handed to the validator must be the canonical one "
        "(sorted, duplicate-free, duplicates summed, zeros for absent dense cells) and an out-of-range coordinate must not get "
        "through. (3) Constructors, to_format, to_dok and pickling pass their data on unchanged; orderings must be permutations. "
        "(4) Axis-space typing (D = dimension order, L = level order, Perm) of every conversion between user and storage order. "
        "(5) Every Tensor(...) is built from a validated or kernel-allocated structure."
    )
    ctx.assumptions = [
        "floating-point rounding of duplicate summation and float identity through pickling are not decided; entry counts > 3 and orders > 3 (readers) / > 2 (construction) are not enumerated",
        "attribute-space table and seeds in vf/srules/axis.py (receiver types from annotations)",
    ]
    ix = SourceIndex(ctx.src)
    ctx.rule("C09.axis-typing", "level order vs dimension order: every subscript/sink is indexed in the right space", min_instances=60)
    axis.run_axis(ctx, ix, "C09.axis-typing", exceptions=tensorapi.axis_exceptions())
    structsem.rule_construction_semantics(ctx, ix)
    structsem.rule_structure_semantics(ctx, ix)
    tensorapi.rule_validation_dominates(ctx, ix)
    structsem.rule_api_semantics(ctx, ix)
    # read-back is only meaningful while the storage lives: iterators over a tensor's arrays must keep the tensor alive
    ownership.rule_borrowed_pointers(ctx, ix)


if __name__ == "__main__":
    sys.exit(run_check("C09", main))
