"""Developer driver: ./check KDEV --rules a,b [--shapes 'x;y'] (not registered in MANIFEST)."""
import sys, os
from ..common import run_check
from ..family import sweep

def main(ctx):
    rules = os.environ.get("KRULES", "").split(",")
    shapes = os.environ.get("KSHAPES")
    shapes = shapes.split(";") if shapes else None
    sweep(ctx, rules, shapes=shapes)

if __name__ == "__main__":
    sys.exit(run_check("KDEV", main))
