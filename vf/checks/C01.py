"""C01 - evaluate computes the mathematical meaning of the assignment (DESIGN.md section 3, C01)."""
import sys
from ..common import run_check
from ..family import sweep
from ..srules import axis, names, tensorapi
from ._kcheck import FAMILY_ASSUMPTIONS


def main(ctx):
    ctx.explanation = (
        "Structural necessary conditions of the numerical property, each such that breaking it makes some kernel return a "
        "wrong tensor. Engine K on every evaluate/compute kernel of the family (all inputs): K-addr (every operand read and every "
        "store address is at the coordinate of the current loop variables, through the format's own level ordering, by "
        "provenance typing); K-sum (every enclosing non-target loop is mentioned by every additive term and vice versa); K-dense "
        "(terms in sparse-driven loops have a factor guarded by the loop); K-poly (every term is a monomial of the assignment "
        "with the same rational coefficient, every monomial computed); K-complete (a terminal adds every monomial whose stored "
        "entries are all matched on its path: no present operand is dropped); branch/sub-loop lattice order and cursor stepping. "
        "no-shadowing (the block-scoped reading of the IR that the K rules use coincides with the LLVM printer's one-slot-per-name hoisting). Engine S: axis-space typing of every user-order/storage-order conversion; identifier-template unification."
    )
    ctx.assumptions = FAMILY_ASSUMPTIONS + [
        "numerical equality itself (rounding, accumulation order) is NOT decided; only addressing, term/loop agreement, monomials, lattice order and wiring",
    ]
    ix = names.run(ctx)
    ctx.rule("C01.axis-typing", "every conversion between user order and storage order goes in the right direction", min_instances=60)
    axis.run_axis(ctx, ix, "C01.axis-typing", exceptions=tensorapi.axis_exceptions())
    sweep(ctx, ["addr.k_addr", "addr.k_sum", "addr.k_dense", "addr.k_poly", "addr.k_complete", "addr.lattice_order", "cover.k_cover", "typing.no_shadowing"])
    ctx.rule("C01.K-addr", min_instances=1500)
    ctx.rule("C01.K-sum", min_instances=1500)
    ctx.rule("C01.K-poly", min_instances=1500)
    ctx.rule("C06.no-shadowing", min_instances=1500)


if __name__ == "__main__":
    sys.exit(run_check("C01", main))
