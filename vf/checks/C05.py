"""C05 - generated kernels are memory-safe, leave inputs untouched and terminate (DESIGN.md section 3, C05)."""
import sys
from ..common import run_check
from ..family import sweep
from ._kcheck import FAMILY_ASSUMPTIONS


def main(ctx):
    ctx.explanation = (
        "Engine K: fact-based forward abstract interpretation of every kernel of the family (all three kinds), for all "
        "inputs satisfying the well-formedness axioms and symbolic initial capacities >= 1. Obligations: every read of "
        "an input pos/crd/vals array is at a strict position (cursor facts from loop guards, Horner positions over "
        "in-range loop variables, lemma L1 in dense counting loops driven by sparse leaves); every store goes into an "
        "array the kernel malloc'ed, under a capacity check still in force (doubling / max form) or inside a fixed "
        "allocation (lemma L3), compute stores inside what assemble sized; output cells are never read back except bucket "
        "accumulation after zero-initialisation; every loop has a ranking argument; single `return 0`; handed-back arrays "
        "are assigned to their slot after the last realloc."
    )
    ctx.assumptions = FAMILY_ASSUMPTIONS + [
        "signed 32-bit overflow of position arithmetic is NOT analysed (value-dependent); element counts are assumed to fit int32",
        "lemmas L1, L3 of DESIGN.md section 6",
    ]
    sweep(
        ctx,
        [
            "bounds.memory_safety",
            "bounds.capacity_init",
            "own.store_roots",
            "own.bucket_init",
            "own.handback",
            "typing.return_shape",
            "typing.kernel_typing",
            "cover.final_sizes",
            "slices.slice_equality",
            "flags.flag_typestate",
        ],
    )
    ctx.rule("C05.reads", min_instances=1500)
    ctx.rule("C05.writes", min_instances=1500)
    ctx.rule("C05.termination", min_instances=1500)


if __name__ == "__main__":
    sys.exit(run_check("C05", main))
