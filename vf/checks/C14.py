"""C14 - concurrent evaluations behave like sequential ones (DESIGN.md section 3, C14)."""
import sys
from ..common import run_check
from ..srules import ownership
from ..srules.core import SourceIndex


def main(ctx):
    ctx.explanation = (
        "Necessary-condition check of the lock/ownership discipline the property's anchors name (no static argument covers all "
        "interleavings through cffi, llvmlite and CPython): every FFI.compile call lies inside `with <module-level "
        "threading.Lock>`; shared-state inventory (module-level containers mutated from functions are exactly global_weakkeydict "
        "with single item operations, and the lru_cache; no global statements); execution engine, target machine and backing "
        "module are created in the same activation of compile_module; TensorMethod.__call__ assigns no attribute of self and "
        "allocates its output per call."
    )
    ctx.assumptions = [
        "GIL atomicity of single dict item operations; functools.lru_cache documented thread-safe",
        "thread-safety of cffi / llvmlite / CPython internals and all schedules are NOT decided",
    ]
    ix = SourceIndex(ctx.src)
    ownership.rule_compile_lock(ctx, ix)
    ownership.rule_shared_state(ctx, ix)
    ownership.rule_fresh_engine(ctx, ix)
    ownership.rule_reentrancy(ctx, ix)


if __name__ == "__main__":
    sys.exit(run_check("C14", main))
