"""C08 - kernel generation is total: code, or one of the documented refusals (DESIGN.md section 3, C08)."""
import sys
from ..common import run_check, Finding
from ..family import sweep, enumerate_problems, SHAPES_BASE
from ..srules import escape
from ..srules.core import SourceIndex
from ._kcheck import FAMILY_ASSUMPTIONS

def order_forced(ns, text, formats):
    """F8 characterisation: does an operand's storage order force two levels of one reorderable dense
    group of the output (a run of adjacent dense levels that is followed by a compressed level) to be
    iterated against the output's storage order? (Then no loop order serves both without a workspace.)"""
    a = ns.parse_assignment(text).unwrap()
    fm = {n: ns.parse_format(f).unwrap() for n, f in formats}
    out = fm[a.target.name]
    dense = ns.Mode.dense
    out_levels = [a.target.indexes[d] for d in out.ordering]
    groups = []
    run = []
    for l, m in enumerate(out.modes):
        if m == dense:
            run.append(l)
        else:
            if len(run) >= 2:
                groups.append(list(run))
            run = []
    # a trailing dense run is never followed by a compressed level: irrelevant

    def occurrences(e):
        if hasattr(e, "left"):
            return occurrences(e.left) + occurrences(e.right)
        return [e] if hasattr(e, "indexes") else []

    for g in groups:
        for x in range(len(g)):
            for y in range(x + 1, len(g)):
                ia, ib = out_levels[g[x]], out_levels[g[y]]
                for t in occurrences(a.expression):
                    f = fm[t.name]
                    lv = {t.indexes[d]: l for l, d in enumerate(f.ordering)}
                    if ia in lv and ib in lv and lv[ib] < lv[ia]:
                        lo, hi = lv[ib], lv[ia]
                        same_dense_run = all(f.modes[l] == dense for l in range(lo, hi + 1))
                        if not same_dense_run:
                            return True
    return False


RESERVED_SHAPES = ["y(int) = x(int)", "while(i) = x(i)", "a(i) = double(i)", "a(i) = malloc(i) + b(i)"]


def main(ctx):
    ctx.explanation = (
        "Engine S: exception-escape analysis over the resolved call graph from generate_code / generate_module_tensora / "
        "TensorMethod.__init__ / cli.tensora: every raise that can escape (after subtracting enclosing handlers) must be "
        "discharged by (a) singledispatch registry exhaustiveness, (b) exhaustive match / if-elif chain over Result "
        "constructors or enum members, (c) abstract methods overridden by every leaf subclass, (d) a frozen invariant table, "
        "(e) kernel typing on the family; CLI result discipline (every Failure arm echoes to stderr and raises typer.Exit(1)). "
        "Engine K: while enumerating the family any exception that is not a documented Failure is a crash datum that must "
        "match a listed known finding; emitted identifiers are not reserved in C; kernels are well-typed/scoped for both printers."
    )
    ctx.assumptions = FAMILY_ASSUMPTIONS + [
        "implicit exceptions (KeyError, IndexError, ...) are only covered through the family-level crash datum",
        "termination of generation and acceptance by the real gcc / LLVM verifier are NOT decided",
    ]
    from ..kir import load_tensora

    ns = load_tensora(ctx.src)
    ix = SourceIndex(ctx.src)
    esc = escape.rule_escape(ctx, ix)
    escape.rule_tensor_method_escape(ctx, ix, esc)
    escape.rule_cli(ctx, ix)
    # the emitted C compiles only if generated identifiers cannot coincide with each other or with a user's names
    # (the rule is shared with C01: name templates are unified pairwise, the user-name language is read from the grammar)
    from ..srules import names

    names.run(ctx)
    # K part: crash datum + typing + reserved identifiers
    import os
    if os.environ.get("VERIF_SKIP_K"):
        return
    problems = list(enumerate_problems(ctx.src, ctx.tier, ctx.seed))
    problems += list(enumerate_problems(ctx.src, ctx.tier, ctx.seed, shapes=RESERVED_SHAPES))
    totals = sweep(ctx, ["typing.kernel_typing", "typing.reserved_identifiers", "typing.return_shape"], problems=problems)
    ctx.rule("C08.family-totality", "generation over the family returns code or a documented Failure", min_instances=1000)
    ctx.rule("C08.family-totality").instances += totals["problems"]
    ok = totals["generated"] + sum(totals["refused"].values())
    ctx.ok("C08.family-totality", n=ok)
    documented = {"DiagonalAccessError", "NoKernelFoundError"}
    for name in totals["refused"]:
        if name not in documented:
            ctx.fail("C08.family-totality", f"Failure({name})", "generation refused with an undocumented error type")
    by_site = {}
    for text, formats, exc, site in totals["crashed"]:
        out_name = text.split("(")[0].strip()
        out_fmt = dict(formats).get(out_name, "")
        out_modes = "".join(ch for ch in out_fmt if ch in "ds")
        try:
            forced = order_forced(ns, text, formats)
        except Exception:  # noqa: BLE001
            forced = False
        out_modes += " (an operand's storage order forces the output's dense group out of order)" if forced else " (no operand forces the order)"
        by_site.setdefault((exc, site, out_modes), []).append((text, formats))
    for (exc, site, out_modes), lst in sorted(by_site.items()):
        text, formats = lst[0]
        ctx.findings.append(
            Finding(
                "C08.family-totality",
                f"{exc}@{site} | output modes {out_modes or '(scalar)'}",
                f"{len(lst)} problems of the family crash instead of returning code or a documented Failure, e.g. "
                f"{text} | {','.join(f'{n}:{f}' for n, f in formats)}",
            )
        )
        ctx.rule("C08.family-totality").obligations += len(lst)
    ctx.extra["crash_sites"] = {f"{e}@{s} | {m}": len(v) for (e, s, m), v in by_site.items()}


if __name__ == "__main__":
    sys.exit(run_check("C08", main))
