"""Shared scaffolding for checks backed by the kernel sweep."""

FAMILY_ASSUMPTIONS = [
    "the problem family is bounded: assignment shapes listed in vf/family.py x every dense/compressed x "
    "mode-ordering combination of the tier; verdicts hold for all inputs of each enumerated kernel, "
    "not for kernels outside the family",
    "provenance typing relies on the IR's interface names: function parameters are tensor names, loop "
    "variables are index names",
    "input well-formedness axioms of DESIGN.md 2.2 (what taco_structure_to_cffi validates)",
]
