"""C11 - tensor operators agree with element-wise and matrix arithmetic (DESIGN.md section 3, C11)."""
import sys
from ..common import run_check
from ..family import operator_problems, sweep
from ..srules import axis, tensorapi
from ..srules.core import SourceIndex


def main(ctx):
    ctx.explanation = (
        "Engine S on the operator layer of tensor.py (values are delegated to evaluate, C01): dunder table (reflected methods "
        "swap operands, op matches the method); the operator functions are evaluated abstractly "
        "(vf/srules/symeval.py) over every combination of operand orders <= 3, level modes and mode orderings with symbolic "
        "dimension sizes (branches on symbolic comparisons fork): the synthesised assignment must be the element-wise form "
        "dimension by dimension / the einsum of the order case up to index renaming, ValueError must be the outcome on exactly the "
        "paths where compared dimensions may differ and every contracted/paired dimension must have been compared, the output "
        "format must follow the documented rule; axis typing of the @ format rule with the "
        "order <= 2 side condition."
    )
    ctx.explanation += (
        " Engine K on the kernels the operators request (element-wise + - * of order 1..3 over every pair of operand formats "
        "and all mode orderings incl. the 3-cycles, tensor-with-number forms, the four @ cases; output format by the documented "
        "rule): K-addr/K-sum/K-dense/K-poly/K-complete/lattice-order/K-cover as in C01/C02, so a generator defect that only "
        "shows on operator-shaped problems is reported here."
    )
    ctx.assumptions = ["rounding and accumulation order are not decided; addressing, monomials and coverage of the operator kernels are"]
    ix = SourceIndex(ctx.src)
    tensorapi.rule_dunders(ctx, ix)
    tensorapi.rule_operator_semantics(ctx, ix)
    ctx.rule("C11.axis-typing", "format rule of @ indexes modes in level space (order <= 2 exception checked)", min_instances=4)
    axis.run_axis(ctx, ix, "C11.axis-typing", modules=["tensora.tensor"], exceptions=tensorapi.axis_exceptions())
    problems = operator_problems(ctx.tier, ctx.seed)
    totals = sweep(ctx, ["addr.k_addr", "addr.k_sum", "addr.k_dense", "addr.k_poly", "addr.k_complete", "addr.lattice_order", "cover.k_cover", "bounds.memory_safety", "bounds.capacity_init"], problems=problems)
    ctx.extra["operator_family"] = {k: (v if not isinstance(v, list) else len(v)) for k, v in totals.items()}
    ctx.rule("C01.K-addr", min_instances=600)
    ctx.rule("C01.K-poly", min_instances=600)


if __name__ == "__main__":
    sys.exit(run_check("C11", main))
