"""C11 - tensor operators agree with element-wise and matrix arithmetic (DESIGN.md section 3, C11)."""
import sys
from ..common import run_check
from ..srules import axis, tensorapi
from ..srules.core import SourceIndex


def main(ctx):
    ctx.explanation = (
        "Engine S on the operator layer of tensor.py (values are delegated to evaluate, C01): dunder table (reflected methods "
        "swap operands, op matches the method); the operator functions are evaluated abstractly "
        "(vf/srules/symeval.py) over every combination of operand orders <= 3, level modes and mode orderings with symbolic "
        "dimension sizes (branches on symbolic comparisons fork): the synthesised assignment must be the element-wise form "
        "dimension by dimension / the einsum of the order case up to index renaming, ValueError must be the outcome on exactly the "
        "paths where compared dimensions may differ and every contracted/paired dimension must have been compared, the output "
        "format must follow the documented rule; axis typing of the @ format rule with the "
        "order <= 2 side condition."
    )
    ctx.assumptions = ["numerical values are C01's concern"]
    ix = SourceIndex(ctx.src)
    tensorapi.rule_dunders(ctx, ix)
    tensorapi.rule_operator_semantics(ctx, ix)
    ctx.rule("C11.axis-typing", "format rule of @ indexes modes in level space (order <= 2 exception checked)", min_instances=4)
    axis.run_axis(ctx, ix, "C11.axis-typing", modules=["tensora.tensor"], exceptions=tensorapi.axis_exceptions())


if __name__ == "__main__":
    sys.exit(run_check("C11", main))
