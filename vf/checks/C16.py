"""C16 - work follows sparsity, not dimension size (DESIGN.md section 3, C16)."""
import sys
from ..common import run_check
from ..family import sweep
from ._kcheck import FAMILY_ASSUMPTIONS


def main(ctx):
    ctx.explanation = (
        "Engine K information flow: for every problem of the family and every index (class) that all tensors "
        "store only in compressed levels and every additive term mentions, the variable holding T->dimensions[c] "
        "of that class is not in the backward slice of any loop/branch condition, array index or allocation size "
        "of any kernel kind; hence the sequence of executed statements is a function of the stored entries only. "
        "The converse (needed dense loops exist) is C01.K-dense / C02.K-cover."
    )
    ctx.assumptions = FAMILY_ASSUMPTIONS + ["actual step counts are not measured; noninterference of the dimension with control is decided instead"]
    sweep(ctx, ["c16.dimension_not_control"])
    r = ctx.rule("C16.dim-not-control", "dimension of a qualifying index does not reach control", min_instances=500)
    if r.obligations < 200:
        from ..common import AnalysisError
        raise AnalysisError(f"only {r.obligations} qualifying (problem, index) pairs in the family")


if __name__ == "__main__":
    sys.exit(run_check("C16", main))
