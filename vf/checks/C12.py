"""C12 - assignment and format text round-trips and means what arithmetic says (DESIGN.md section 3, C12)."""
import sys
from ..common import run_check
from ..srules import parsing


def main(ctx):
    ctx.explanation = (
        "Engine S on the parser/printer pair. The two parsita grammar classes are INTERPRETED from their source "
        "(vf/srules/grammar.py: combinator tree, longest alternative, greedy repetition, whitespace option; semantic actions "
        "evaluated abstractly with model constructors) and must agree, string by string, with the reference reading of the "
        "property (precedence of * over + and -, left association, parentheses, literal kinds, name(index,...) tensors) on a corpus "
        "that contains every text the printers produce plus probes and strings outside the language; deparse of every tree up to "
        "depth 2 (+ depth-3 combs) and of every format up to order 3 is evaluated abstractly and re-read by the reference reading; "
        "literal token converters are resolved and must be total on the token language; literal closure of str(int)/str(float) "
        "w.r.t. the literal regexes (regex ASTs); exception escape of parser callbacks vs the except clauses of parse_*; "
        "Assignment.__post_init__ evaluated abstractly over 1160 assignment structures (accept/reject and error class)."
    )
    ctx.assumptions = [
        "Python data-model facts: int(str) raises ValueError beyond the int-string digit limit; float(str) saturates to inf; str(inf) == 'inf'",
        "parsita combinator semantics: rep1sep/rep/&/|/>>/<< and `>` as map; reduce is a left fold",
    ]
    parsing.run(ctx)


if __name__ == "__main__":
    sys.exit(run_check("C12", main))
