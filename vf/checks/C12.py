"""C12 - assignment and format text round-trips and means what arithmetic says (DESIGN.md section 3, C12)."""
import sys
from ..common import run_check
from ..srules import parsing


def main(ctx):
    ctx.explanation = (
        "Engine S on the parser/printer pair: the parsita definitions are read as a grammar (nonterminal dependency "
        "expression -> term -> factor -> {tensor, number, parentheses -> expression} gives the precedence levels; reduce and the "
        "accumulator position in make_expression give left association; operator characters map to constructors); the "
        "parenthesisation required for parse(deparse(t)) == t is computed from the levels and must be a subset of the isinstance "
        "tuples in deparse; Format.deparse vs the two format alternatives; literal closure of str(int)/str(float) w.r.t. the "
        "literal regexes (regex ASTs); exception escape of parser callbacks vs the except clauses of parse_*; rejection "
        "coverage of Assignment.__post_init__ and sibling identity of variables()/index_participants()."
    )
    ctx.assumptions = [
        "Python data-model facts: int(str) raises ValueError beyond the int-string digit limit; float(str) saturates to inf; str(inf) == 'inf'",
        "parsita combinator semantics: rep1sep/rep/&/|/>>/<< and `>` as map; reduce is a left fold",
    ]
    parsing.run(ctx)


if __name__ == "__main__":
    sys.exit(run_check("C12", main))
