"""C06 - the C and LLVM back ends implement the same kernel (DESIGN.md section 3, C06)."""
import sys
from ..common import run_check
from ..family import sweep
from ..srules import backends
from ._kcheck import FAMILY_ASSUMPTIONS


def main(ctx):
    ctx.explanation = (
        "Engine S (sibling agreement of the two printers, clause by clause): dispatch exhaustiveness of both printers over "
        "every concrete IR class/type; resolved call arity; per-class operator table (C token vs LLVM opcode, operand order, "
        "predicates, select/phi operands, sitofp side, zext, TACO_MIN/MAX macro bodies); C precedence/associativity vs the "
        "wrap sets passed to parens(); compound-assignment sugar; taco_tensor_t layout vs LLVM struct + GEP indexes (LP64); "
        "allocation size width; identifiers provided by the header; hoisting totality. Engine K: every emitted kernel of the "
        "family is well-typed inside the operand-type cases the LLVM printer implements (read from its source), has one "
        "declared type per name, valid C scoping, no bare expression statements, no int operand inside double arithmetic; no live "
        "variable is shadowed (C block scope == LLVM one-slot-per-name); the text the LLVM printer emits for the three-kernel "
        "module is accepted by LLVM's parser and verifier (static check of the emitted artifact; nothing is compiled or run)."
    )
    ctx.assumptions = FAMILY_ASSUMPTIONS + [
        "bit-identical results of gcc vs LLVM JIT and acceptance by the real tool chains are NOT decided (would require running them)",
        "LP64 ABI sizes/alignments; C operator precedence table; LLVM opcode semantics table in vf/srules/backends.py",
    ]
    backends.run(ctx)
    sweep(ctx, ["typing.kernel_typing", "typing.no_shadowing", "typing.llvm_verifies"])
    ctx.rule("C06.kernel-typing", min_instances=1500)
    ctx.rule("C06.no-shadowing", min_instances=1500)
    ctx.rule("C06.llvm-verifies", min_instances=1500)


if __name__ == "__main__":
    sys.exit(run_check("C06", main))
