"""Helpers over tensora's own kernel IR (tensora.ir.ast), used by engine K.

Nothing here executes a kernel. The IR classes are imported from the analysed source tree.
"""

from __future__ import annotations

import sys
from dataclasses import fields, is_dataclass

_loaded = {}


def load_tensora(src: str):
    """Import tensora from <src> (not from an installed copy) and return the namespace we need."""
    if src in _loaded:
        return _loaded[src]
    if _loaded:
        raise RuntimeError("tensora already loaded from a different source tree in this process")
    sys.path.insert(0, src)
    import tensora  # noqa: F401

    if not tensora.__file__.startswith(src.rstrip("/") + "/"):
        raise RuntimeError(f"tensora imported from {tensora.__file__}, expected under {src}")
    import types as _types

    ns = _types.SimpleNamespace()
    from tensora.ir import ast as ir
    from tensora.ir import types as irtypes

    ns.ir = ir
    ns.irtypes = irtypes
    from tensora.expression import ast as sugar
    from tensora.expression import parse_assignment
    from tensora.format import Format, Mode, parse_format
    from tensora.kernel_type import KernelType
    from tensora.problem import Problem

    ns.sugar = sugar
    ns.parse_assignment = parse_assignment
    ns.Format = Format
    ns.Mode = Mode
    ns.parse_format = parse_format
    ns.KernelType = KernelType
    ns.Problem = Problem
    _loaded[src] = ns
    global IR
    IR = ir
    return ns


IR = None  # set by load_tensora


# ------------------------------------------------------------------------------------------------
# printing (own printer: fully parenthesised, independent of the repo's C printer)
# ------------------------------------------------------------------------------------------------
_BIN = {
    "Add": "+",
    "Subtract": "-",
    "Multiply": "*",
    "Equal": "==",
    "NotEqual": "!=",
    "GreaterThan": ">",
    "LessThan": "<",
    "GreaterThanOrEqual": ">=",
    "LessThanOrEqual": "<=",
    "And": "&&",
    "Or": "||",
}


def pp(e) -> str:
    n = type(e).__name__
    if n == "Variable":
        return e.name
    if n == "AttributeAccess":
        return f"{pp(e.target)}->{e.attribute}"
    if n == "ArrayIndex":
        return f"{pp(e.target)}[{pp(e.index)}]"
    if n in ("IntegerLiteral", "FloatLiteral"):
        return repr(e.value)
    if n == "BooleanLiteral":
        return "true" if e.value else "false"
    if n in _BIN:
        return f"({pp(e.left)} {_BIN[n]} {pp(e.right)})"
    if n in ("Max", "Min"):
        return f"{n.lower()}({pp(e.left)}, {pp(e.right)})"
    if n == "BooleanToInteger":
        return f"int({pp(e.expression)})"
    if n == "ArrayAllocate":
        return f"malloc<{type(e.element_type).__name__}>({pp(e.n_elements)})"
    if n == "ArrayReallocate":
        return f"realloc<{type(e.element_type).__name__}>({pp(e.old)}, {pp(e.n_elements)})"
    return f"<{n}>"


def pps(s) -> str:
    n = type(s).__name__
    if n == "Declaration":
        return f"decl {s.name.name}"
    if n == "Assignment":
        return f"{pp(s.target)} = {pp(s.value)}"
    if n == "DeclarationAssignment":
        return f"decl {s.target.name.name} = {pp(s.value)}"
    if n == "Return":
        return f"return {pp(s.value)}"
    if n == "Branch":
        return f"if {pp(s.condition)}"
    if n == "Loop":
        return f"while {pp(s.condition)}"
    if n == "Block":
        return f"block[{s.comment}]"
    return pp(s)


# ------------------------------------------------------------------------------------------------
# traversal
# ------------------------------------------------------------------------------------------------
def subexprs(e):
    """Yield e and every sub-expression (pre-order)."""
    yield e
    if is_dataclass(e):
        for f in fields(e):
            v = getattr(e, f.name)
            if isinstance(v, IR.Expression):
                yield from subexprs(v)


def expr_vars(e) -> set[str]:
    return {x.name for x in subexprs(e) if isinstance(x, IR.Variable)}


def conj(c) -> list:
    if isinstance(c, IR.And):
        return conj(c.left) + conj(c.right)
    return [c]


def root_var(a):
    while not isinstance(a, IR.Variable):
        a = a.target
    return a.name


def is_simple(s) -> bool:
    return not isinstance(s, (IR.Block, IR.Branch, IR.Loop))


def simple_statements(n, path=()):
    """Yield (stmt, path); path = tuple of ('if', cond, arm) / ('while', cond) entries."""
    if isinstance(n, IR.Block):
        for s in n.statements:
            yield from simple_statements(s, path)
    elif isinstance(n, IR.Branch):
        yield from simple_statements(n.if_true, path + (("if", n.condition, True),))
        yield from simple_statements(n.if_false, path + (("if", n.condition, False),))
    elif isinstance(n, IR.Loop):
        yield from simple_statements(n.body, path + (("while", n.condition),))
    else:
        yield n, path


def all_nodes(n):
    """Yield every statement node (compound and simple)."""
    yield n
    if isinstance(n, IR.Block):
        for s in n.statements:
            yield from all_nodes(s)
    elif isinstance(n, IR.Branch):
        yield from all_nodes(n.if_true)
        yield from all_nodes(n.if_false)
    elif isinstance(n, IR.Loop):
        yield from all_nodes(n.body)


def stmt_exprs(s):
    """Expressions evaluated by a simple statement: (reads, store_target or None)."""
    if isinstance(s, IR.Assignment):
        return [s.value], s.target
    if isinstance(s, IR.DeclarationAssignment):
        return [s.value], None
    if isinstance(s, IR.Return):
        return [s.value], None
    if isinstance(s, IR.Declaration):
        return [], None
    if isinstance(s, IR.Expression):
        return [s], None
    return [], None


def defined_var(s) -> str | None:
    """Name of the scalar/array *variable* a simple statement (re)defines, if any."""
    if isinstance(s, IR.Assignment) and isinstance(s.target, IR.Variable):
        return s.target.name
    if isinstance(s, IR.DeclarationAssignment):
        return s.target.name.name
    if isinstance(s, IR.Declaration):
        return s.name.name
    return None


def assigned_vars(n) -> set[str]:
    out = set()
    for s, _ in simple_statements(n):
        v = defined_var(s)
        if v is not None:
            out.add(v)
    return out


def flatten(n):
    """Flatten nested blocks, drop comments and empty blocks; structure-preserving otherwise."""
    if isinstance(n, IR.Block):
        out = []
        for s in n.statements:
            f = flatten(s)
            if isinstance(f, IR.Block):
                out.extend(f.statements)
            else:
                out.append(f)
        return IR.Block(out)
    if isinstance(n, IR.Branch):
        return IR.Branch(n.condition, flatten(n.if_true), flatten(n.if_false))
    if isinstance(n, IR.Loop):
        return IR.Loop(n.condition, flatten(n.body))
    return n


def body_list(n) -> list:
    f = flatten(n)
    return f.statements if isinstance(f, IR.Block) else [f]


def is_int(e, v=None) -> bool:
    return isinstance(e, IR.IntegerLiteral) and (v is None or e.value == v)


def mul_factors(e) -> list:
    if isinstance(e, IR.Multiply):
        return mul_factors(e.left) + mul_factors(e.right)
    return [e]


def add_terms(e) -> list:
    if isinstance(e, IR.Add):
        return add_terms(e.left) + add_terms(e.right)
    return [e]


# ------------------------------------------------------------------------------------------------
# polynomial normal form over integer variables (for address arithmetic)
# ------------------------------------------------------------------------------------------------
def poly(e):
    """Normal form of an integer expression built from + - * literals and variables:
    dict {sorted tuple of variable names: coefficient}. Returns None if not polynomial."""
    if isinstance(e, IR.IntegerLiteral):
        return {(): e.value} if e.value else {}
    if isinstance(e, IR.Variable):
        return {(e.name,): 1}
    if isinstance(e, (IR.Add, IR.Subtract)):
        a, b = poly(e.left), poly(e.right)
        if a is None or b is None:
            return None
        out = dict(a)
        sgn = 1 if isinstance(e, IR.Add) else -1
        for k, v in b.items():
            out[k] = out.get(k, 0) + sgn * v
        return {k: v for k, v in out.items() if v}
    if isinstance(e, IR.Multiply):
        a, b = poly(e.left), poly(e.right)
        if a is None or b is None:
            return None
        out = {}
        for k1, v1 in a.items():
            for k2, v2 in b.items():
                k = tuple(sorted(k1 + k2))
                out[k] = out.get(k, 0) + v1 * v2
        return {k: v for k, v in out.items() if v}
    return None


def norm_text(s: str) -> str:
    import re

    return re.sub(r"\s+", " ", s).strip()
