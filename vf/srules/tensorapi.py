"""S rules over tensor.py / _tensor_method.py / _porcelain.py / problem.py for C09, C10, C11."""

from __future__ import annotations

import ast
import itertools
import re

from ..common import AnalysisError
from .core import SourceIndex, arm_tests, dominators_of, enclosing_chain

T_MOD = "tensora.tensor"
TM = "tensora.compile._tensor_method.TensorMethod"


def u(e):
    return ast.unparse(e)


def norm(e):
    return " ".join(u(e).split())


# ------------------------------------------------------------------------------------------------
# frozen exception of axis typing
# ------------------------------------------------------------------------------------------------
def matmul_exception(f, node):
    """modes[ordering[k]] in evaluate_matrix_multiplication_operator is accepted only while dominated by
    an order == 1|2 test on the same operand (every permutation of <= 2 elements is its own inverse).
    Returns NotImplemented when the construct is not of that shape (ordinary typing applies)."""
    sl = node.slice if isinstance(node, ast.Subscript) else node
    if not (isinstance(sl, ast.Subscript) and isinstance(sl.value, ast.Attribute) and sl.value.attr == "ordering"):
        return NotImplemented
    base = sl.value.value  # <operand>.format, or a local bound once to it
    txt = u(base)
    if isinstance(base, ast.Name):
        org = _origin_any(f.node, base.id)
        txt = org if org is not None else txt
    m = re.fullmatch(r"(left|right)\.format", txt)
    if not m:
        return NotImplemented
    who = m.group(1)
    tests = [u(t) for t in arm_tests(f.node, node)]
    ok = any(re.search(rf"{who}\.order == [12]\b", t) for t in tests)
    if not ok:
        return f"not dominated by `{who}.order == 1|2` (enclosing tests: {tests})"
    return None


def _origin_any(fn, name):
    vals = [n.value for n in ast.walk(fn) if isinstance(n, ast.Assign) and len(n.targets) == 1 and isinstance(n.targets[0], ast.Name) and n.targets[0].id == name]
    texts = {u(v) for v in vals}
    return texts.pop() if len(texts) == 1 else None


def axis_exceptions():
    return {f"{T_MOD}.evaluate_matrix_multiplication_operator": matmul_exception}


# ------------------------------------------------------------------------------------------------
# C09
# ------------------------------------------------------------------------------------------------
def rule_canonical_structure(ctx, ix):
    ctx.rule("C09.canonical", "stored structure is sorted, duplicate-free, duplicates accumulate", min_instances=4)
    f = ix.func(f"{T_MOD}.tree_to_indices_and_values.<locals>.recurse").node
    src = u(f)
    ctx.instance("C09.canonical")
    key = "tensor.py:tree_to_indices_and_values.recurse:compressed arm"
    comp_arm = None
    for n in ast.walk(f):
        if isinstance(n, ast.If):
            cur = n
            while True:
                if "Mode.compressed" in u(cur.test):
                    comp_arm = cur
                if len(cur.orelse) == 1 and isinstance(cur.orelse[0], ast.If):
                    cur = cur.orelse[0]
                else:
                    break
            if comp_arm:
                break
    problems = []
    if comp_arm is None:
        problems.append("no compressed arm")
    else:
        body = " ; ".join(u(s) for s in comp_arm.body)
        m = re.search(r"(\w+) = sorted\(node\.keys\(\)\)", body)
        if not m:
            problems.append("coordinates of a compressed level are not emitted as sorted(node.keys()) (sorted => strictly increasing, keys => duplicate-free)")
        else:
            idx = m.group(1)
            if f"indexes[i_level][0].append(indexes[i_level][0][-1] + len({idx}))" not in body:
                problems.append("pos is not extended by previous end + number of coordinates")
            if f"indexes[i_level][1].extend({idx})" not in body:
                problems.append("crd is not extended by the sorted coordinates")
            if f"iter_next_level = {idx}" not in body:
                problems.append("children are not visited in the order the coordinates were stored")
    if problems:
        ctx.fail("C09.canonical", key, "; ".join(problems))
    else:
        ctx.ok("C09.canonical", key)
    # values / recursion follow iter_next_level
    ctx.instance("C09.canonical")
    key = "tensor.py:tree_to_indices_and_values.recurse:values follow stored order"
    if "for key in iter_next_level:\n            values.append(node.get(key, 0.0))" in src.replace("    ", "    ") or re.search(r"for key in iter_next_level:\s+values\.append\(node\.get\(key, 0\.0\)\)", src):
        if re.search(r"for key in iter_next_level:\s+next_tree = node\.get\(key, \{\}\)\s+recurse\(next_tree, i_level \+ 1\)", src):
            ctx.ok("C09.canonical", key)
        else:
            ctx.fail("C09.canonical", key, "sub-trees are not visited for every stored key in stored order")
    else:
        ctx.fail("C09.canonical", key, "values are not appended for every stored key in stored order")
    # pos starts at 0
    g = ix.func(f"{T_MOD}.tree_to_indices_and_values").node
    ctx.instance("C09.canonical")
    if "indexes.append([[0], []])" in u(g):
        ctx.ok("C09.canonical", "tensor.py:tree_to_indices_and_values:pos starts at [0]")
    else:
        ctx.fail("C09.canonical", "tensor.py:tree_to_indices_and_values:pos starts at [0]", "pos of a compressed level is not initialised to [0]")
    # duplicates accumulate
    h = ix.func(f"{T_MOD}.coordinates_to_tree.<locals>.recurse").node
    ctx.instance("C09.canonical")
    key = "tensor.py:coordinates_to_tree.recurse:duplicates accumulate"
    leaf = [n for n in ast.walk(h) if isinstance(n, ast.Assign) and u(n.targets[0]) == "node[key]"]
    good = any(u(n.value) in ("node.get(key, 0.0) + payload", "node.get(key, 0) + payload", "payload + node.get(key, 0.0)") for n in leaf)
    if good:
        ctx.ok("C09.canonical", key)
    else:
        ctx.fail("C09.canonical", key, f"leaf update is {[u(n) for n in leaf]}: duplicate coordinates overwrite instead of summing")
    # level-order permutation in from_aos
    a = ix.func(f"{T_MOD}.Tensor.from_aos").node
    ctx.instance("C09.canonical")
    key = "tensor.py:Tensor.from_aos:coordinates and dimensions permuted into level order"
    s = u(a)
    if "tuple((dimensions[i] for i in format.ordering))" in s and "tuple((coordinate[i] for i in format.ordering))" in s and "zip(coordinates, values, strict=True)" in u(ix.func(f"{T_MOD}.coordinates_to_tree").node):
        ctx.ok("C09.canonical", key)
    else:
        ctx.fail("C09.canonical", key, "coordinates/dimensions are not permuted with format.ordering before the tree is built, or coordinates and values are not zipped strictly")


def rule_mapping_consumption(ctx, ix):
    """Every arm of the mode dispatch must consume all keys of `node`, or be dominated by a range
    validation that raises."""
    ctx.rule("C09.mapping-consumption", "no coordinate is silently dropped when the tree is flattened", min_instances=2)
    f = ix.func(f"{T_MOD}.tree_to_indices_and_values.<locals>.recurse").node
    arms = {}
    for n in ast.walk(f):
        if isinstance(n, ast.If) and "modes[i_level] == Mode.dense" in u(n.test):
            arms["dense"] = n.body
            if len(n.orelse) == 1 and isinstance(n.orelse[0], ast.If) and "Mode.compressed" in u(n.orelse[0].test):
                arms["compressed"] = n.orelse[0].body
            break
    if set(arms) != {"dense", "compressed"}:
        raise AnalysisError("anchor vanished: mode dispatch in tree_to_indices_and_values.recurse")
    validated = range_validation_present(ix)
    for name, body in arms.items():
        ctx.instance("C09.mapping-consumption")
        key = f"tensor.py:tree_to_indices_and_values.recurse:{name} arm"
        txt = " ; ".join(u(s) for s in body)
        consumes_all = "node.keys()" in txt or "node.items()" in txt or "in node" in txt
        if consumes_all:
            ctx.ok("C09.mapping-consumption", key)
        elif validated:
            ctx.ok("C09.mapping-consumption", key + " [range validated before]")
        else:
            ctx.fail(
                "C09.mapping-consumption",
                key,
                "the dense arm iterates range(dimension) and looks keys up with .get: a coordinate outside [0, dimension) is never "
                "visited and never rejected (no range validation dominates the tree construction)",
            )


def range_validation_present(ix):
    """Is there, in from_aos before coordinates_to_tree, a check raising on coordinates outside the dimensions?"""
    a = ix.func(f"{T_MOD}.Tensor.from_aos").node
    for n in ast.walk(a):
        if isinstance(n, ast.If) and any(isinstance(x, ast.Raise) for x in ast.walk(n)):
            t = u(n.test)
            if re.search(r"<\s*0|>=|not\s*\(?\s*0\s*<=", t) and ("dimension" in t):
                return True
    for n in ast.walk(a):
        if isinstance(n, ast.Call) and u(n.func).endswith("validate_coordinates"):
            return True
    return False


def _origin(fn, name):
    """Where a local comes from: a parameter keeps its name; a local assigned exactly once is its value's text."""
    params = {a.arg for a in fn.args.args + fn.args.kwonlyargs + fn.args.posonlyargs}
    if name in params:
        return name
    vals = [n.value for n in ast.walk(fn) if isinstance(n, ast.Assign) and len(n.targets) == 1 and isinstance(n.targets[0], ast.Name) and n.targets[0].id == name]
    if len(vals) == 1:
        return u(vals[0])
    return None


def _if_raises(scope, template, b):
    """An `if <template>: ... raise` under `scope` (binding extended consistently); returns the binding or None."""
    from .core import _pat, tmatch

    pat = _pat(template)
    for r in scope if isinstance(scope, list) else [scope]:
        for n in ast.walk(r):
            if isinstance(n, ast.If) and any(isinstance(x, ast.Raise) for x in n.body):
                bb = dict(b)
                if tmatch(pat, n.test, bb):
                    return bb
    return None


def _level_walk(fn):
    """(loop, level variable, dense arm, compressed arm) of the loop over all levels with the dense/compressed
    dispatch on the level's mode; local names are free."""
    for n in ast.walk(fn):
        if isinstance(n, ast.For) and isinstance(n.target, ast.Name) and isinstance(n.iter, ast.Call) and u(n.iter.func) == "range" and len(n.iter.args) == 1:
            arg = n.iter.args[0]
            org = _origin(fn, arg.id) if isinstance(arg, ast.Name) else u(arg)
            if org is None or not str(org).endswith("order"):
                continue
            lv = n.target.id
            for m in ast.walk(n):
                if isinstance(m, ast.If) and re.fullmatch(rf"\w+\[{lv}\] == (Mode\.dense|0)", u(m.test)):
                    if len(m.orelse) == 1 and isinstance(m.orelse[0], ast.If) and re.fullmatch(rf"\w+\[{lv}\] == (Mode\.compressed|1)", u(m.orelse[0].test)):
                        return n, lv, m.body, m.orelse[0].body
            return n, lv, None, None
    return None, None, None, None


def rule_structure_walkers(ctx, ix):
    """Sibling agreement of the four functions that walk the stored structure level by level
    (taco_structure_to_cffi, Tensor.taco_indices, Tensor.taco_vals, Tensor.items): the number of
    positions is multiplied by the level's own dimension at a dense level and replaced by the length of
    crd (= last pos entry) at a compressed level; pos has positions + 1 entries, crd pos[-1] entries,
    vals one per position of the last level; items visits [pos[p], pos[p+1]) and position*dim + index.
    Clauses are templates with metavariables for local names (renaming a local changes nothing)."""
    from .core import tfind, tsolve

    ctx.rule("C09.structure-walkers", "writer, validator and readers agree on the size and addressing of every level", min_instances=10)

    def check(key, cond, msg):
        ctx.instance("C09.structure-walkers")
        if cond:
            ctx.ok("C09.structure-walkers", key)
        else:
            ctx.fail("C09.structure-walkers", key, msg)

    DIMS = ("dimensions", "self.dimensions")
    ORD = ("mode_ordering", "self.mode_ordering")
    CI = ("tensor_cdefs.cast('int32_t***', self.cffi_tensor.indices)",)
    CV = ("tensor_cdefs.cast('double*', self.cffi_tensor.vals)",)

    def origins_ok(fn, bind, want):
        return all(_origin(fn, bind[mv]) in allowed for mv, allowed in want.items() if mv in bind)

    table = [
        ("compile/_cffi_ownership.py:taco_structure_to_cffi", ix.func("tensora.compile._cffi_ownership.taco_structure_to_cffi").node),
        ("tensor.py:Tensor.taco_indices", ix.func(f"{T_MOD}.Tensor.taco_indices").node),
        ("tensor.py:Tensor.taco_vals", ix.func(f"{T_MOD}.Tensor.taco_vals").node),
    ]
    for key, fn in table:
        loop, lv, dense, comp = _level_walk(fn)
        if loop is None:
            check(key + ":level loop", False, "no loop over all levels")
            continue
        if dense is None or comp is None:
            check(key + ":mode dispatch", False, "no dense/compressed dispatch on the level's mode")
            continue
        b0 = {"_V_lv": lv}
        r = tsolve([fn], ["_V_nnz = 1"], b0)
        rd = None
        if r is not None:
            for _n, bb in tfind(fn.body, "_V_nnz = 1", b0):
                rd = tsolve(dense, ["_V_nnz *= _V_dims[_V_ord[_V_lv]]"], bb)
                if rd is not None:
                    break
        ok = rd is not None and origins_ok(fn, rd[0], {"_V_dims": DIMS, "_V_ord": ORD})
        check(
            key + ":dense level multiplies positions by the level's own dimension",
            ok,
            f"dense arm is {[u(x) for x in dense]}: the running position count (initialised to 1) must be multiplied by dimensions[mode_ordering[level]]",
        )
        if not ok:
            continue
        bind = rd[0]
        if "taco_structure_to_cffi" in key:
            rc = tsolve(comp, ["_V_pos = indices[_V_lv][0]", "_V_crd = indices[_V_lv][1]", "_V_nnz = len(_V_crd)"], bind)
            good = rc is not None and _if_raises(comp, "len(_V_pos) != _V_nnz + 1", rc[0]) is not None and _if_raises(comp, "len(_V_crd) != _V_pos[-1]", rc[0]) is not None
            check(key + ":compressed level", good,
                  "compressed arm does not validate len(pos) == positions + 1, len(crd) == pos[-1] and continue with len(crd) positions")
            after = fn.body[fn.body.index(loop) + 1 :] if loop in fn.body else fn.body
            check("compile/_cffi_ownership.py:taco_structure_to_cffi:one value per position", _if_raises(after, "len(vals) != _V_nnz", bind) is not None,
                  "length of vals is not validated against the positions of the last level")
        elif "taco_indices" in key:
            rc = tsolve(comp, ["_V_pos = list(_V_ci[_V_lv][0][0:_V_nnz + 1])", "_V_crd = list(_V_ci[_V_lv][1][0:_V_pos[-1]])", "_V_nnz = len(_V_crd)", "_V_out.append([_V_pos, _V_crd])"], bind)
            check(key + ":compressed level", rc is not None and origins_ok(fn, rc[0], {"_V_ci": CI}),
                  "compressed arm does not read positions + 1 pos entries and pos[-1] crd entries, or does not continue with len(crd) positions")
        else:
            rc = tsolve(comp, ["_V_nnz = _V_ci[_V_lv][0][_V_nnz]"], bind)
            check(key + ":compressed level", rc is not None and origins_ok(fn, rc[0], {"_V_ci": CI}),
                  "compressed arm does not continue with pos[positions] (the last pos entry) positions")
            rv = tsolve([fn], ["return list(_V_cv[0:_V_nnz])"], bind)
            check("tensor.py:Tensor.taco_vals:one value per position", rv is not None and origins_ok(fn, rv[0], {"_V_cv": CV}),
                  "vals are not read for exactly the positions of the last level")
    # items
    itf = ix.func(f"{T_MOD}.Tensor.items").node
    rec = ix.func(f"{T_MOD}.Tensor.items.<locals>.recurse").node
    pr = [a.arg for a in rec.args.args]
    r0 = tsolve([itf], ["_V_ld = [_V_dims[_V_i] for _V_i in _V_ord]", f"yield from {rec.name}(0, (), 0)"], {})
    ok0 = r0 is not None and origins_ok(itf, r0[0], {"_V_dims": DIMS, "_V_ord": ORD}) and len(pr) == 3
    check("tensor.py:Tensor.items:level dimensions", ok0,
          "level dimensions are not the dimensions permuted by mode_ordering, or the walk does not start at level 0, position 0")
    if ok0:
        bind = {"_V_ld": r0[0]["_V_ld"], "_V_l": pr[0], "_V_prefix": pr[1], "_V_position": pr[2]}
        dense_ok = False
        comp_ok = False
        for n in ast.walk(rec):
            if isinstance(n, ast.For) and isinstance(n.target, ast.Name):
                bb = dict(bind)
                bb["_V_index"] = n.target.id
                if tsolve([n.iter], ["range(_V_ld[_V_l])"], bb) is not None:
                    for alt in ("_V_np = _V_ld[_V_l] * _V_position + _V_index", "_V_np = _V_position * _V_ld[_V_l] + _V_index"):
                        rr = tsolve(n.body, [alt, f"yield from {rec.name}(_V_l + 1, (*_V_prefix, _V_index), _V_np)"], bb)
                        if rr is not None:
                            dense_ok = True
                bb = dict(bind)
                bb["_V_np"] = n.target.id
                r1 = tsolve([n.iter], ["range(_V_start, _V_end)"], bb)
                if r1 is not None:
                    r2 = tsolve([rec], ["_V_start = _V_ci[_V_l][0][_V_position]", "_V_end = _V_ci[_V_l][0][_V_position + 1]"], r1[0])
                    r3 = tsolve(n.body, ["_V_index = _V_ci[_V_l][1][_V_np]", f"yield from {rec.name}(_V_l + 1, (*_V_prefix, _V_index), _V_np)"], r2[0]) if r2 else None
                    if r3 is not None and origins_ok(itf, r3[0], {"_V_ci": CI}):
                        comp_ok = True
        check("tensor.py:Tensor.items.recurse:dense addressing", dense_ok,
              "dense level is not walked as position * dimension + index for every index of the level's dimension")
        check("tensor.py:Tensor.items.recurse:compressed addressing", comp_ok,
              "compressed level is not walked over [pos[p], pos[p + 1]) reading crd at each position")
        rv = tsolve([rec], ["yield (_E_c, _V_cv[_V_position])"], bind)
        guard = any(isinstance(n, ast.If) and re.fullmatch(rf"{pr[0]} < \w+", u(n.test)) and _origin(itf, u(n.test).split(' < ')[1]) in ("self.order", "order") for n in ast.walk(rec))
        check("tensor.py:Tensor.items.recurse:value at the last position", rv is not None and origins_ok(itf, rv[0], {"_V_cv": CV}) and guard,
              "the value is not read at the position reached after the last level")


def rule_validation_dominates(ctx, ix):
    """Every Tensor(...) construction receives a validated struct; __setstate__ goes through
    taco_structure_to_cffi with the keys __getstate__ wrote, each bound to the parameter of the same
    meaning; to_format passes self.dimensions and self.to_dok()."""
    ctx.rule("C09.validation", "every Tensor is built from a validated or kernel-allocated structure", min_instances=2)
    allowed = {
        f"{T_MOD}.Tensor.from_aos": "taco_structure_to_cffi",
        f"{TM}.__call__": "allocate_taco_structure",
    }
    for q, f in ix.funcs.items():
        for call in ix.calls_in(f):
            if isinstance(call.func, ast.Name) and ix.resolve_name(f.module, call.func.id) == f"{T_MOD}.Tensor" and call.func.id == "Tensor":
                ctx.instance("C09.validation")
                key = f"{ix.rel(f.module)}:{q.split(f.module + '.', 1)[-1]}:{norm(call)}"
                src_fn = allowed.get(q)
                ok = False
                if src_fn and len(call.args) == 1 and isinstance(call.args[0], ast.Name):
                    v = call.args[0].id
                    for n in ast.walk(f.node):
                        if isinstance(n, ast.Assign) and u(n.targets[0]) == v and isinstance(n.value, ast.Call) and u(n.value.func) == src_fn:
                            ok = True
                if ok:
                    ctx.ok("C09.validation", key)
                else:
                    ctx.fail("C09.validation", key, "Tensor constructed from a structure that did not come from taco_structure_to_cffi (validated) or allocate_taco_structure (kernel output)")


# ------------------------------------------------------------------------------------------------
# C10
# ------------------------------------------------------------------------------------------------
def rule_who_may_enter_kernel(ctx, ix):
    ctx.rule("C10.kernel-entry", "the compiled function pointer is called only from TensorMethod.__call__", min_instances=1)
    sites = []
    for q, f in ix.funcs.items():
        for call in ix.calls_in(f):
            t = u(call.func)
            if t in ("self._evaluate", "self._lib.evaluate") or t.endswith("._evaluate") or t.endswith(".lib.evaluate") or t.endswith("_lib.evaluate"):
                sites.append((q, call))
            if isinstance(call.func, ast.Attribute) and call.func.attr == "get_function_address":
                if q != f"{TM}.__init__":
                    sites.append((q, call))
    ctx.instance("C10.kernel-entry", max(1, len(sites)))
    good = [s for s in sites if s[0] == f"{TM}.__call__"]
    for q, call in sites:
        key = f"{q.split('tensora.', 1)[1]}:{norm(call)[:60]}"
        if q == f"{TM}.__call__":
            ctx.ok("C10.kernel-entry", key)
        else:
            ctx.fail("C10.kernel-entry", key, "kernel entered (or its address taken) outside TensorMethod.__call__: argument validation is bypassed")
    if len(good) != 1:
        ctx.fail("C10.kernel-entry", "compile/_tensor_method.py:TensorMethod.__call__", f"{len(good)} kernel call sites in __call__ (expected exactly one)")
    rule_porcelain(ctx, ix)


def rule_porcelain(ctx, ix):
    """evaluate / evaluate_tensora / evaluate_cffi / tensor_method are evaluated abstractly (symeval):
    the problem is built from the parsed assignment, the parsed output format and every argument's OWN
    format; parse / problem failures are raised before any TensorMethod is obtained; the cached
    TensorMethod for (problem, backend) is called with exactly the given inputs."""
    from . import symeval as S

    ctx.rule("C10.porcelain", "evaluate*/tensor_method reach kernels only through the cached TensorMethod of the problem built from the arguments' own formats", min_instances=8)
    mod = "tensora.compile._porcelain"
    from .core import cached_factory

    cached_name = cached_factory(ix).name
    fns = {f.name: f.node for q, f in ix.funcs.items() if f.module == mod and q == f"{mod}.{f.name}"}
    for need in ("evaluate", "evaluate_tensora", "evaluate_cffi", "tensor_method"):
        if need not in fns:
            raise AnalysisError(f"anchor vanished: public entry point {need} of compile/_porcelain.py")

    def result(value=None, error=None):
        r = S.Obj("Result")

        def unwrap():
            if error is not None:
                raise S.Raised(error)
            return value

        r.attrs["alt"] = lambda f: r
        r.attrs["unwrap"] = unwrap
        return r

    LLVM, CFFI = S.Obj("Backend", name="llvm"), S.Obj("Backend", name="cffi")

    def scenario(fail=None):
        parsed = S.Obj("ParsedAssignment", target=S.Obj("Target", name="y"), text="y(i) = A(i,j) * x(j)")
        calls = []

        def parse_assignment(text):
            return result(error="ParseError") if fail == "assignment" else result(parsed if text == "ASSIGNMENT" else S.Obj("OtherAssignment"))

        def parse_format(text):
            return result(error="ParseError") if fail == "format" else result(S.Obj("ParsedFormat", text=text))

        def make_problem(a, formats):
            if fail == "problem":
                return result(error="UndefinedReferenceError")
            return result(S.Obj("Problem", assignment=a, formats=dict(formats)))

        def cachable(problem, backend):
            def function(*args, **kwargs):
                calls.append((problem, backend, args, kwargs))
                return S.Obj("Output", problem=problem, backend=backend, args=args, kwargs=kwargs)

            return function

        def enum_call(value):
            # Enum(value): a member is returned as it is, a member's value gives the member, anything else is a ValueError
            for member, text in ((LLVM, "llvm"), (CFFI, "cffi")):
                if value is member or value == text:
                    return member
            raise S.Raised("ValueError")

        G = {
            "parse_assignment": parse_assignment,
            "parse_format": parse_format,
            "make_problem": make_problem,
            "raise_exception": S.Obj("raise_exception"),
            **{n: node for n, node in fns.items() if n != cached_name},
            cached_name: cachable,
            "BackendCompiler": S.CallableObj("BackendCompiler", enum_call, llvm=LLVM, cffi=CFFI),
            "TensorMethod": lambda problem, backend=LLVM: S.Obj("TensorMethod", problem=problem, backend=backend),
        }
        return parsed, G, calls

    A = S.make_tensor("A", (S.DENSE, S.COMPRESSED), (1, 0))
    x = S.make_tensor("x", (S.COMPRESSED,), (0,))
    for name, backend in (("evaluate", LLVM), ("evaluate_tensora", LLVM), ("evaluate_cffi", CFFI)):
        parsed, G, calls = scenario()
        problems = []
        outs = list(S.explore(fns[name], ["ASSIGNMENT", "OUTFMT"], {"A": A, "x": x}, globals_=G))
        for _a, (kind, val) in outs:
            if kind != "return" or not (isinstance(val, S.Obj) and val.tag == "Output"):
                problems.append(f"outcome {kind} {val!r}")
                continue
            pr = val.attrs["problem"]
            if pr.attrs["assignment"] is not parsed:
                problems.append("problem is not built from the parsed assignment")
            fm = pr.attrs["formats"]
            if list(fm) != ["y", "A", "x"]:
                problems.append(f"format table is {list(fm)}, expected target then the inputs")
            else:
                if not (isinstance(fm["y"], S.Obj) and fm["y"].tag == "ParsedFormat" and fm["y"].attrs["text"] == "OUTFMT"):
                    problems.append("output format is not the parsed output_format argument")
                if fm["A"] is not A.attrs["format"] or fm["x"] is not x.attrs["format"]:
                    problems.append("an input's format in the problem is not that argument's own format")
            if val.attrs["backend"] is not backend:
                problems.append(f"backend {val.attrs['backend'].attrs.get('name')} instead of {backend.attrs['name']}")
            if val.attrs["args"] or list(val.attrs["kwargs"]) != ["A", "x"] or val.attrs["kwargs"]["A"] is not A or val.attrs["kwargs"]["x"] is not x:
                problems.append("the TensorMethod is not called with exactly the given inputs")
        ctx.instance("C10.porcelain")
        if problems:
            ctx.fail("C10.porcelain", f"compile/_porcelain.py:{name}", "; ".join(sorted(set(problems))))
        else:
            ctx.ok("C10.porcelain", f"compile/_porcelain.py:{name}")
        for fail, exc_ in (("assignment", "ParseError"), ("format", "ParseError"), ("problem", "UndefinedReferenceError")):
            parsed, G, calls = scenario(fail)
            outs = list(S.explore(fns[name], ["ASSIGNMENT", "OUTFMT"], {"A": A, "x": x}, globals_=G))
            bad = [f"{k} {v!r}" for _a, (k, v) in outs if not (k == "raise" and v == exc_)]
            ctx.instance("C10.porcelain")
            key = f"compile/_porcelain.py:{name}:{fail} failure is raised"
            if bad or calls:
                ctx.fail("C10.porcelain", key, f"outcomes {bad}; TensorMethod calls {len(calls)}")
            else:
                ctx.ok("C10.porcelain", key)
    # tensor_method
    parsed, G, calls = scenario()
    outs = list(S.explore(fns["tensor_method"], ["ASSIGNMENT", {"y": "F1", "A": "F2"}], {}, globals_=G))
    problems = []
    for _a, (kind, val) in outs:
        if kind != "return" or not callable(val):
            problems.append(f"outcome {kind} {val!r}")
            continue
        o = val()
        pr = o.attrs["problem"]
        fm = pr.attrs["formats"]
        if pr.attrs["assignment"] is not parsed or list(fm) != ["y", "A"] or fm["y"].attrs.get("text") != "F1" or fm["A"].attrs.get("text") != "F2":
            problems.append("problem is not built from the parsed assignment and the parsed formats, name by name")
        if o.attrs["backend"] is not LLVM:
            problems.append("default backend is not llvm")
    ctx.instance("C10.porcelain")
    if problems:
        ctx.fail("C10.porcelain", "compile/_porcelain.py:tensor_method", "; ".join(sorted(set(problems))))
    else:
        ctx.ok("C10.porcelain", "compile/_porcelain.py:tensor_method")
    # cachable_tensor_method builds TensorMethod(problem, backend=backend)
    parsed, G, calls = scenario()
    P_ = S.Obj("Problem")
    outs = list(S.explore(fns[cached_name], [P_, CFFI], {}, globals_=G))
    ok = all(k == "return" and isinstance(v, S.Obj) and v.tag == "TensorMethod" and v.attrs["problem"] is P_ and v.attrs["backend"] is CFFI for _a, (k, v) in outs)
    ctx.instance("C10.porcelain")
    if ok and outs:
        ctx.ok("C10.porcelain", f"compile/_porcelain.py:{cached_name}")
    else:
        ctx.fail("C10.porcelain", f"compile/_porcelain.py:{cached_name}", f"does not construct TensorMethod(problem, backend): {outs}")


def rule_call_validation(ctx, ix):
    """Must-pass-through and coverage of the validation in TensorMethod.__call__."""
    ctx.rule("C10.must-pass-through", "signature.bind, per-argument loop and per-index loop dominate the kernel call", min_instances=3)
    f = ix.func(f"{TM}.__call__")
    node = f.node
    kernel = None
    for call in ix.calls_in(f):
        if u(call.func) == "self._evaluate":
            kernel = call
    if kernel is None:
        raise AnalysisError("anchor vanished: self._evaluate(...) call in TensorMethod.__call__")
    doms = dominators_of(node, kernel)
    # (1) signature.bind
    bind = [s for s in doms if isinstance(s, ast.Assign) and "self.signature.bind(*args, **kwargs)" in u(s.value)]
    ctx.instance("C10.must-pass-through")
    if bind and u(bind[0].value) == "self.signature.bind(*args, **kwargs).arguments":
        bound = u(bind[0].targets[0])
        ctx.ok("C10.must-pass-through", "compile/_tensor_method.py:TensorMethod.__call__:signature.bind")
    else:
        ctx.fail("C10.must-pass-through", "compile/_tensor_method.py:TensorMethod.__call__:signature.bind", "arguments are not bound through self.signature.bind(*args, **kwargs) before the kernel call")
        return
    # signature: TensorMethod.__init__ is evaluated abstractly (self_via_init); the Signature it builds must have
    # exactly one keyword-only parameter per input tensor, in the order of problem.formats
    ctx.instance("C10.must-pass-through")
    sig_problems = []
    for text, target_first in (("y(i) = A(i,j) * x(j)", True), ("y(i) = A(i,j) * x(j)", False), ("a(i) = b(i) + c(i) + d(i)", True)):
        hand, _tensors, _parts, formats = call_scenario(text, 0, None, target_first)
        prob = hand.attrs["_problem"]
        prob.attrs["__methods__"] = {f.name: f.node for q, f in ix.funcs.items() if q == f"tensora.problem.Problem.{f.name}"}
        me = self_via_init(ix, prob, lambda *a: None)
        if me is None or "signature" not in me.attrs or "parameters" not in getattr(me.attrs["signature"], "attrs", {}):
            sig_problems.append("TensorMethod.__init__ not interpretable: no Signature(...) of Parameter(...) objects is stored in self.signature")
            continue
        params = me.attrs["signature"].attrs["parameters"]
        tname = hand.attrs["_output_name"]
        want = [n for n in formats if n != tname]
        got = [p_.attrs["name"] for p_ in params]
        if got != want:
            sig_problems.append(f"{text}: signature parameters {got}, the input tensors are {want}")
        if any(p_.attrs["kind"] != "KEYWORD_ONLY" for p_ in params):
            sig_problems.append(f"{text}: a parameter is not keyword-only (positional arguments would be bound by position, not by tensor name)")
    if not sig_problems:
        ctx.ok("C10.must-pass-through", "compile/_tensor_method.py:TensorMethod.__init__:signature")
    else:
        ctx.fail("C10.must-pass-through", "compile/_tensor_method.py:TensorMethod.__init__:signature", "signature is not one keyword-only parameter per input tensor: " + "; ".join(sorted(set(sig_problems)))[:500])
    # BroadcastTargetIndexError in __init__ guarantees that every target index has a participant
    # (so the per-target-index lookup of the validated sizes cannot fail with KeyError)
    ctx.instance("C10.must-pass-through")
    key = "compile/_tensor_method.py:TensorMethod.__init__:target indexes have participants"
    # a target index that no right-hand-side tensor carries has no size: __init__ must refuse the problem
    bad = []
    for text in ("a(i,j) = b(i)", "a(i) = b()", "A(i,j) = B(j,k) * c(k)"):
        hand, _tensors, _parts, _formats = call_scenario(text, 0, None, True)
        prob = hand.attrs["_problem"]
        prob.attrs["__methods__"] = {f.name: f.node for q, f in ix.funcs.items() if q == f"tensora.problem.Problem.{f.name}"}
        outs = []
        self_via_init(ix, prob, lambda *a: None, outcomes=outs)
        if not outs or any(k != "raise" for k, _v in outs):
            kinds = sorted({f"{k} {v!r}"[:80] if k == "uninterpretable" else k for k, v in outs})
            bad.append(f"{text}: {'not interpretable: ' if any(k == 'uninterpretable' for k, _v in outs) else ''}construction {kinds or 'has no outcome'}")
        elif any(v.split(".")[-1] != "BroadcastTargetIndexError" for _k, v in outs):
            bad.append(f"{text}: raises {sorted({v for _k, v in outs})}, documented is BroadcastTargetIndexError")
    if not bad:
        ctx.ok("C10.must-pass-through", key)
    else:
        ctx.fail("C10.must-pass-through", key, "TensorMethod.__init__ does not reject target indexes missing from the right-hand side (KeyError at call time): " + "; ".join(bad)[:400])


def _parse_assignment_text(text):
    lhs, rhs = text.split("=")
    occ = re.findall(r"(\w+)\(([\w,]*)\)", rhs)
    t = re.match(r"\s*(\w+)\(([\w,]*)\)", lhs)
    return (t.group(1), tuple(_split(t.group(2)))), [(n, tuple(_split(ix_))) for n, ix_ in occ]

def self_via_init(ix, problem, evaluate, outcomes=None):
    """The TensorMethod a call works on is the one TensorMethod.__init__ builds: evaluate __init__ abstractly on
    the scenario's Problem (code generation and compilation are opaque and hand back `evaluate`), so that
    anything __init__ precomputes for __call__ is there.  None if __init__ is outside the modelled fragment."""
    from . import symeval as S

    init = ix.funcs.get(f"{TM}.__init__")
    if init is None:
        return None
    tm_mod = TM.rsplit(".", 1)[0]
    KW, POS = "KEYWORD_ONLY", "POSITIONAL_OR_KEYWORD"

    def parameter(name, kind=POS, **_kw):
        return S.Obj("Parameter", name=name, kind=kind)

    def signature(parameters=()):
        parameters = list(parameters)

        def bind(*args, **kwargs):
            positional = [p_ for p_ in parameters if p_.attrs["kind"] != KW]
            if len(args) > len(positional):
                raise S.Raised("TypeError")
            bound = {p_.attrs["name"]: a for p_, a in zip(positional, args)}
            for k, v in kwargs.items():
                if k in bound or k not in {p_.attrs["name"] for p_ in parameters}:
                    raise S.Raised("TypeError")
                bound[k] = v
            if set(bound) != {p_.attrs["name"] for p_ in parameters}:
                raise S.Raised("TypeError")
            return S.Obj("BoundArguments", arguments={p_.attrs["name"]: bound[p_.attrs["name"]] for p_ in parameters})

        return S.Obj("Signature", bind=bind, parameters=parameters)

    pointer = S.Obj("function pointer")
    G = {f.name: f.node for q, f in ix.funcs.items() if f.module == tm_mod and q == f"{tm_mod}.{f.name}"}
    G.update(
        Signature=signature,
        Parameter=S.CallableObj("ParameterClass", parameter, KEYWORD_ONLY=KW, POSITIONAL_OR_KEYWORD=POS, POSITIONAL_ONLY="POSITIONAL_ONLY"),
        BackendCompiler=S.Obj("BackendCompiler", llvm="llvm", cffi="cffi"),
        KernelType=S.Obj("KernelType", evaluate="evaluate", assemble="assemble", compute="compute"),
        Language=S.Obj("Language", c="c", llvm="llvm"),
        generate_module_tensora=lambda *a, **k: S.Obj("Success", __match_args__=("_inner_value",), _inner_value=S.Obj("module")),
        generate_code=lambda *a, **k: S.Obj("Success", __match_args__=("_inner_value",), _inner_value="code"),
        compile_module=lambda m: S.Obj("lib", get_function_address=lambda name: pointer if name == "evaluate" else S.Obj("other pointer")),
        compile_evaluate=lambda code: S.Obj("lib", evaluate=evaluate),
        tensor_cdefs=S.Obj("ffi", cast=lambda t, x: evaluate if x is pointer else x),
    )
    me = S.Obj("TensorMethod")
    outs = list(S.explore(init.node, [me, problem], {"backend": "llvm"}, globals_=G))
    if outcomes is not None:
        outcomes.extend(o[1] for o in outs)
    if len(outs) != 1 or outs[0][1][0] != "return" or "_evaluate" not in me.attrs:
        return None
    return me


def call_scenario(text, participant_order=0, evaluate=None, target_first=True, ix=None):
    from . import symeval as S

    (tname, tix), occ = _parse_assignment_text(text)
    orders = {}
    for n, ixs in occ:
        orders.setdefault(n, len(ixs))
    parts = {}
    for n, ixs in occ:
        for d, i in enumerate(ixs):
            parts.setdefault(i, [])
            if (n, d) not in parts[i]:
                parts[i].append((n, d))
    if participant_order == 1:
        parts = {i: list(reversed(v)) for i, v in parts.items()}
    if participant_order == 2:
        parts = {i: v[1:] + v[:1] for i, v in parts.items()}
    in_formats = {n: S.make_format((S.DENSE,) * o, tuple(range(o))) for n, o in orders.items()}
    out_format = S.make_format((S.COMPRESSED,) * len(tix), tuple(range(len(tix))))
    formats = {tname: out_format, **in_formats} if target_first else {**in_formats, tname: out_format}

    def bind(*args, **kwargs):
        if args or set(kwargs) != set(in_formats):
            raise S.Raised("TypeError")
        return S.Obj("BoundArguments", arguments={n: kwargs[n] for n in in_formats})

    if evaluate is None:

        def evaluate(*args):
            raise S.KernelEntered(args)

    expression = S.Obj("Expression", index_participants=lambda: {i: tuple(v) for i, v in parts.items()})
    assignment = S.Obj("Assignment", expression=expression, target=S.Obj("TargetTensor", name=tname, indexes=tix))
    self_ = S.Obj(
        "TensorMethod",
        signature=S.Obj("Signature", bind=bind),
        _input_formats=in_formats,
        _output_format=out_format,
        _output_name=tname,
        _problem=S.Obj("Problem", assignment=assignment, formats=formats),
        _evaluate=evaluate,
    )
    if ix is not None:
        self_.attrs["_problem"].attrs["__methods__"] = {f.name: f.node for q, f in ix.funcs.items() if q == f"tensora.problem.Problem.{f.name}"}
        built = self_via_init(ix, self_.attrs["_problem"], evaluate)
        if built is not None:
            self_ = built
    tensors = {}
    for n, o in orders.items():
        t = S.make_tensor(n, (S.DENSE,) * o, tuple(range(o)))
        t.attrs["cffi_tensor"] = S.Obj("cffi", of=n)
        tensors[n] = t
    return self_, tensors, parts, formats



def rule_call_semantics(ctx, ix):
    """TensorMethod.__call__ is evaluated abstractly (vf/srules/symeval.py) on symbolic arguments for a
    set of assignments: the kernel may be entered only on paths where every pair of dimensions sharing
    an index has been compared equal; any argument of the wrong kind/order/modes/ordering and any
    missing/extra/positional argument must raise TypeError/ValueError before the kernel is entered."""
    from . import symeval as S

    ctx.rule("C10.call-semantics", "abstract evaluation of TensorMethod.__call__: no inconsistent argument reaches the kernel", min_instances=30)
    fn = ix.func(f"{TM}.__call__").node
    tm_mod = TM.rsplit(".", 1)[0]
    # private helpers of the module (extracted validation steps) are interpreted too
    MG = {f.name: f.node for q, f in ix.funcs.items() if f.module == tm_mod and q == f"{tm_mod}.{f.name}"}

    parse = _parse_assignment_text
    scenario = call_scenario

    def report(key, problems):
        ctx.instance("C10.call-semantics")
        if problems:
            ctx.fail("C10.call-semantics", key, "; ".join(sorted(set(problems)))[:700])
        else:
            ctx.ok("C10.call-semantics", key)

    assignments = [
        "y(i) = A(i,j) * x(j)",
        "B(i,k) = A(i,j) * A(j,k)",
        "y(i) = A(i,j) * A(j,i)",
        "a(i) = b(i) + c(i) + d(i)",
        "o() = x(i) * V(i,j) * x(j)",
        "A(i,j) = B(i,j) + C(j,i)",
        "a(i) = b(i)",
        "A(i,j,k) = B(i,j,k) * c(k) + D(k,j,i)",
    ]
    for text in assignments:
        for po in (0, 1, 2):
            self_, tensors, parts, formats = scenario(text, po, ix=ix)
            key = f"compile/_tensor_method.py:TensorMethod.__call__:{text} [participant order {po}]"
            problems = []
            entered = 0
            for assume, (kind, val) in S.explore(fn, [self_], dict(tensors), globals_=MG):
                if kind == "uninterpretable":
                    problems.append(f"validation code not interpretable: {val}")
                    continue
                differ = [k for k, v in assume.items() if v is False]
                if kind == "kernel":
                    entered += 1
                    if differ:
                        problems.append(f"kernel entered although dimensions {differ[0]} may differ")
                    # every index: all participants' sizes connected by equalities assumed on this path
                    parent = {}

                    def find(x):
                        parent.setdefault(x, x)
                        while parent[x] != x:
                            parent[x] = parent[parent[x]]
                            x = parent[x]
                        return x

                    for (a, b), v in assume.items():
                        if v:
                            parent[find(a)] = find(b)
                    for i, plist in parts.items():
                        roots = {find(f"{n}.dim{d}") for n, d in plist}
                        if len(roots) > 1:
                            problems.append(f"kernel entered without comparing all dimensions that share index {i}: {plist}")
                    want = [S.Obj] + [tensors[n].attrs["cffi_tensor"] for n in list(formats)[1:]]
                    got = list(val)
                    if len(got) != len(formats) or any(g is not w for g, w in zip(got[1:], want[1:])):
                        problems.append("kernel arguments are not (output, inputs in the order of problem.formats)")
                    # the output struct: freshly allocated with the output format's modes and ordering and,
                    # per target dimension, the size of a tensor dimension carrying that target index
                    out = got[0] if got else None
                    (tname, tix), _occ = parse(text)
                    if not (isinstance(out, S.Call) and out.func == "allocate_taco_structure" and len(out.args) == 3):
                        problems.append("the kernel's output is not a structure freshly allocated by allocate_taco_structure(modes, dimensions, ordering)")
                    else:
                        ofmt = formats[tname]
                        modes_, dims_, ord_ = out.args
                        if tuple(modes_) != tuple(m_.attrs["c_int"] for m_ in ofmt.attrs["modes"]):
                            problems.append("output allocated with modes other than the output format's")
                        if tuple(ord_) != tuple(ofmt.attrs["ordering"]):
                            problems.append("output allocated with an ordering other than the output format's")
                        if len(dims_) != len(tix):
                            problems.append("output allocated with the wrong number of dimensions")
                        else:
                            for d_, (ixn, sz) in enumerate(zip(tix, dims_)):
                                cands = {find(f"{n}.dim{dd}") for n, dd in parts.get(ixn, [])}
                                if not (isinstance(sz, S.Sym) and find(repr(sz)) in cands):
                                    problems.append(f"output dimension {d_} (index {ixn}) is allocated with {sz!r}, which is not the size of a dimension carrying {ixn}")
                elif kind == "raise":
                    if not differ:
                        problems.append(f"consistent arguments raise {val}")
                    elif val != "ValueError":
                        problems.append(f"differing dimensions raise {val} instead of ValueError")
                else:
                    problems.append(f"__call__ returned {val!r} without entering the kernel")
            if entered == 0:
                problems.append("the kernel is never entered for consistent arguments")
            report(key, problems)
    # inconsistent arguments
    text = "y(i) = A(i,j) * x(j)"
    bad_cases = []
    self_, tensors, parts, formats = scenario(text, ix=ix)
    self_0 = self_
    bad_cases.append(("non-Tensor argument", {**tensors, "x": S.Obj("Other", __plain__=True)}, (), "TypeError"))
    bad_cases.append(("a number as argument", {**tensors, "x": 3.0}, (), "TypeError"))
    t = S.make_tensor("x", (S.DENSE, S.DENSE), (0, 1)); t.attrs["cffi_tensor"] = S.Obj("cffi")
    bad_cases.append(("argument of the wrong order", {**tensors, "x": t}, (), "ValueError"))
    t = S.make_tensor("x", (S.COMPRESSED,), (0,)); t.attrs["cffi_tensor"] = S.Obj("cffi")
    bad_cases.append(("argument with the wrong modes", {**tensors, "x": t}, (), "ValueError"))
    t = S.make_tensor("A", (S.DENSE, S.DENSE), (1, 0)); t.attrs["cffi_tensor"] = S.Obj("cffi")
    bad_cases.append(("argument with the wrong mode ordering", {**tensors, "A": t}, (), "ValueError"))
    t = S.make_tensor("A", (S.DENSE, S.COMPRESSED), (0, 1)); t.attrs["cffi_tensor"] = S.Obj("cffi")
    bad_cases.append(("first argument with the wrong modes", {**tensors, "A": t}, (), "ValueError"))
    bad_cases.append(("missing argument", {"A": tensors["A"]}, (), "TypeError"))
    bad_cases.append(("extra argument", {**tensors, "z": tensors["x"]}, (), "TypeError"))
    bad_cases.append(("positional argument", {"x": tensors["x"]}, (tensors["A"],), "TypeError"))
    # every parameter of every scenario assignment, scalars included: a tensor of another order, other modes or another
    # ordering must be refused
    for text2 in ("y(i) = a() * x(i)", "s() = u(i) * c() * v(i)", "A(i,j) = B(i,j) + C(j,i)"):
        self2, tensors2, _parts2, _formats2 = scenario(text2, ix=ix)
        for pname, tgood in tensors2.items():
            o = tgood.attrs["order"]
            variants = [("one more dimension", (S.DENSE,) * (o + 1), tuple(range(o + 1)))]
            if o >= 1:
                variants.append(("one dimension fewer", (S.DENSE,) * (o - 1), tuple(range(o - 1))))
                variants.append(("compressed modes", (S.COMPRESSED,) * o, tuple(range(o))))
            if o >= 2:
                variants.append(("reversed ordering", (S.DENSE,) * o, tuple(reversed(range(o)))))
            for what, modes_, ord_ in variants:
                tb = S.make_tensor(pname, modes_, ord_)
                tb.attrs["cffi_tensor"] = S.Obj("cffi")
                bad_cases.append((f"{text2}: parameter {pname} given a tensor with {what}", {**tensors2, pname: tb}, (), "ValueError", self2))
    for case in bad_cases:
        label, kwargs, args, want = case[:4]
        self_ = case[4] if len(case) > 4 else self_0
        problems = []
        for assume, (kind, val) in S.explore(fn, [self_, *args], kwargs, globals_=MG):
            if kind == "kernel":
                problems.append("the kernel is entered")
            elif kind == "raise" and val != want:
                problems.append(f"raises {val}, documented is {want}")
            elif kind in ("return", "uninterpretable"):
                problems.append(f"outcome {kind} {val!r}")
        report(f"compile/_tensor_method.py:TensorMethod.__call__:{label} -> {want}", problems)


def rule_problem_validation(ctx, ix):
    """Problem.__post_init__ and make_problem are evaluated abstractly (symeval) on symbolic assignments
    and format tables: undefined references and wrong orders raise / become Failures, unused formats are
    refused, absent tensors get dense modes x order with the identity ordering, and the resulting
    format table is ordered by variable_orders()."""
    from . import symeval as S

    ctx.rule("C10.problem", "Problem/make_problem reject undefined, unused and wrong-order formats (abstract evaluation)", min_instances=8)
    post = ix.func("tensora.problem.Problem.__post_init__").node
    mk = ix.func("tensora.problem.make_problem").node

    def exc(name):
        return lambda *a, **k: S.Obj("Exception", name=name)

    def problem_ctor(assignment, formats):
        self_ = S.Obj("Problem", assignment=assignment, formats=formats)
        for _assume, (kind, val) in S.explore(post, [self_], globals_=G):
            if kind == "raise":
                raise S.Raised(val)
            if kind == "uninterpretable":
                raise S.Uninterpretable(val)
        return self_

    def fmt_ctor(modes, ordering):
        return S.make_format(tuple(modes), tuple(ordering))

    G = {
        "UndefinedReferenceError": exc("UndefinedReferenceError"),
        "IncorrectDimensionsError": exc("IncorrectDimensionsError"),
        "UnusedFormatError": exc("UnusedFormatError"),
        "Failure": lambda e: S.Obj("Failure", error=e),
        "Success": lambda v: S.Obj("Success", value=v),
        "Problem": problem_ctor,
        "Format": fmt_ctor,
    }

    def assignment(orders):
        return S.Obj("Assignment", variable_orders=lambda: dict(orders))

    def f(order, ordering=None):
        return S.make_format((S.COMPRESSED,) * order, tuple(ordering or range(order)))

    orders = {"y": 1, "A": 2, "x": 1}
    cases = []
    # (label, function, args, expectation)
    cases.append(("Problem: all formats present", post, [S.Obj("Problem", assignment=assignment(orders), formats={"y": f(1), "A": f(2), "x": f(1)})], ("return", None)))
    cases.append(("Problem: extra format is allowed", post, [S.Obj("Problem", assignment=assignment(orders), formats={"y": f(1), "A": f(2), "x": f(1), "z": f(3)})], ("return", None)))
    cases.append(("Problem: undefined reference", post, [S.Obj("Problem", assignment=assignment(orders), formats={"y": f(1), "A": f(2)})], ("raise", "UndefinedReferenceError")))
    cases.append(("Problem: last tensor has the wrong order", post, [S.Obj("Problem", assignment=assignment(orders), formats={"y": f(1), "A": f(2), "x": f(2)})], ("raise", "IncorrectDimensionsError")))
    cases.append(("Problem: format of lower order", post, [S.Obj("Problem", assignment=assignment(orders), formats={"y": f(1), "A": f(1), "x": f(1)})], ("raise", "IncorrectDimensionsError")))
    cases.append(("Problem: target has the wrong order", post, [S.Obj("Problem", assignment=assignment(orders), formats={"y": f(0), "A": f(2), "x": f(1)})], ("raise", "IncorrectDimensionsError")))
    for label, fn, args, want in cases:
        outs = list(S.explore(fn, args, globals_=G))
        problems = []
        for _a, (kind, val) in outs:
            if kind != want[0] or (kind == "raise" and val != want[1]):
                problems.append(f"outcome {kind} {val!r}, expected {want}")
        ctx.instance("C10.problem")
        key = f"problem.py:{label}"
        if problems:
            ctx.fail("C10.problem", key, "; ".join(problems))
        else:
            ctx.ok("C10.problem", key)
    a_ = assignment(orders)
    mk_cases = [
        ("make_problem: formats given in another order are re-ordered", {"x": f(1), "y": f(1), "A": f(2, (1, 0))}, "ok"),
        ("make_problem: absent tensors become dense with the identity ordering", {"A": f(2)}, "ok"),
        ("make_problem: no formats at all", {}, "ok"),
        ("make_problem: unused format", {"y": f(1), "A": f(2), "x": f(1), "z": f(1)}, "UnusedFormatError"),
        ("make_problem: wrong order", {"A": f(3)}, "IncorrectDimensionsError"),
    ]
    for label, given, want in mk_cases:
        outs = list(S.explore(mk, [a_, dict(given)], globals_=G))
        problems = []
        for _a, (kind, val) in outs:
            if kind != "return" or not isinstance(val, S.Obj):
                problems.append(f"outcome {kind} {val!r}")
                continue
            if want == "ok":
                if val.tag != "Success":
                    problems.append(f"returns {val.tag} for a valid request")
                    continue
                pr = val.attrs["value"]
                fm = pr.attrs["formats"] if isinstance(pr, S.Obj) and "formats" in pr.attrs else None
                if fm is None or list(fm) != list(orders):
                    problems.append(f"format table keys {list(fm) if fm is not None else None} are not in the order of variable_orders() {list(orders)}")
                    continue
                for n, o in orders.items():
                    if n in given:
                        if fm[n] is not given[n]:
                            problems.append(f"format of {n} is not the one given")
                    else:
                        ff = fm[n]
                        if not (isinstance(ff, S.Obj) and ff.tag == "Format" and ff.attrs["modes"] == (S.DENSE,) * o and ff.attrs["ordering"] == tuple(range(o))):
                            problems.append(f"absent tensor {n} is not filled with {o} dense levels in natural order")
            else:
                if not (val.tag == "Failure" and isinstance(val.attrs["error"], S.Obj) and val.attrs["error"].attrs.get("name") == want):
                    problems.append(f"returns {val.tag} {val.attrs}, expected Failure({want})")
        ctx.instance("C10.problem")
        key = f"problem.py:{label}"
        if problems:
            ctx.fail("C10.problem", key, "; ".join(sorted(set(problems))))
        else:
            ctx.ok("C10.problem", key)


# ------------------------------------------------------------------------------------------------
# C11
# ------------------------------------------------------------------------------------------------
def rule_dunders(ctx, ix):
    ctx.rule("C11.dunder-table", "operator methods forward (left, right, op) as the data model prescribes", min_instances=8)
    table = {
        "__add__": "evaluate_binary_operator(self, other, '+')",
        "__radd__": "evaluate_binary_operator(other, self, '+')",
        "__sub__": "evaluate_binary_operator(self, other, '-')",
        "__rsub__": "evaluate_binary_operator(other, self, '-')",
        "__mul__": "evaluate_binary_operator(self, other, '*')",
        "__rmul__": "evaluate_binary_operator(other, self, '*')",
        "__matmul__": "evaluate_matrix_multiplication_operator(self, other)",
        "__rmatmul__": "evaluate_matrix_multiplication_operator(other, self)",
    }
    for name, want in table.items():
        fn = ix.func(f"{T_MOD}.Tensor.{name}").node
        ctx.instance("C11.dunder-table")
        rets = [n for n in ast.walk(fn) if isinstance(n, ast.Return)]
        key = f"tensor.py:Tensor.{name}"
        if len(rets) == 1 and norm(rets[0].value) == want:
            ctx.ok("C11.dunder-table", key)
        else:
            ctx.fail("C11.dunder-table", key, f"returns `{norm(rets[0].value) if rets else None}`, the data model requires `{want}`")


ASSIGN_RE = re.compile(r"^(\w+)\(([\w,]*)\) = (\w+)\(([\w,]*)\) ([+\-*]) (\w+)\(([\w,]*)\)$")


def _split(ix):
    return ix.split(",") if ix else []


def _fmt_modes(text, n):
    """Parse a format string produced for the output: returns (mode chars, ordering) or None."""
    m = re.fullmatch(r"([ds])*", text)
    if m is not None:
        return tuple(text), tuple(range(len(text)))
    m = re.fullmatch(r"(?:[ds]\d+)*", text)
    if m is not None:
        pairs = re.findall(r"([ds])(\d+)", text)
        return tuple(p[0] for p in pairs), tuple(int(p[1]) for p in pairs)
    return None


def rule_operator_semantics(ctx, ix):
    """The operator layer is evaluated abstractly (vf/srules/symeval.py) over every combination of
    operand orders <= 3, modes and mode orderings, with symbolic dimension sizes: the synthesised
    assignment must be the element-wise / einsum form of the operator, dimension-wise; the shape guard
    must raise ValueError on exactly the paths where the compared dimensions may differ; the output
    format must follow the documented rule for natural orderings."""
    from . import symeval as S

    ctx.rule("C11.operator-semantics", "synthesised assignment, shape guard and output format of every operator case (abstract evaluation over all format metadata up to order 3)", min_instances=500)
    fb = ix.func(f"{T_MOD}.evaluate_binary_operator").node
    fm = ix.func(f"{T_MOD}.evaluate_matrix_multiplication_operator").node
    # private helpers of tensor.py (an extracted format rule, say) are interpreted too
    TG = {f.name: f.node for q, f in ix.funcs.items() if f.module == T_MOD and q == f"{T_MOD}.{f.name}" and f.name not in ("evaluate_tensora", "evaluate")}
    natural = lambda t: t.attrs["format"].attrs["ordering"] == tuple(range(t.attrs["order"]))  # noqa: E731

    def report(key, problems):
        ctx.instance("C11.operator-semantics")
        if problems:
            ctx.fail("C11.operator-semantics", key, "; ".join(sorted(set(problems)))[:600])
        else:
            ctx.ok("C11.operator-semantics", key)

    def describe(t):
        if t.tag != "Tensor":
            return t.tag
        return t.attrs["format"].attrs["deparse"]() or "scalar"

    def configs(n):
        fmts = list(S.all_formats(n))
        if n <= 2:
            return fmts
        # order 3: every ordering with all-dense and all-compressed modes, every mode combination in natural order
        return [f for f in fmts if len(set(id(m) for m in f[0])) == 1 or f[1] == tuple(range(n))]

    # ---- element-wise operators, tensor (x) tensor
    for n in range(0, 4):
        for (lm, lo), (rm, ro) in itertools.product(configs(n), repeat=2):
            if n == 3 and lo != tuple(range(3)) and ro != tuple(range(3)) and (lm[0] is not rm[0]):
                continue
            for op in "+-*":
                left = S.make_tensor("left", lm, lo)
                right = S.make_tensor("right", rm, ro)
                key = f"tensor.py:evaluate_binary_operator:{describe(left)} {op} {describe(right)}"
                problems = []
                for assume, (kind, val) in S.explore(fb, [left, right, op], globals_=TG):
                    differ = [k for k, v in assume.items() if v is False]
                    if kind == "uninterpretable":
                        problems.append(f"operator code not interpretable: {val}")
                        continue
                    if differ:
                        if not (kind == "raise" and val == "ValueError"):
                            problems.append(f"dimensions {differ[0]} may differ, yet the outcome is {kind} {val if kind == 'raise' else ''} instead of ValueError")
                        continue
                    if kind != "return" or not isinstance(val, S.Call):
                        problems.append(f"equal shapes give {kind} {val!r} instead of an evaluation")
                        continue
                    # every dimension pair must have been compared on this path
                    for d in range(n):
                        if assume.get(tuple(sorted((f"left.dim{d}", f"right.dim{d}")))) is not True:
                            problems.append(f"dimension {d} of the operands is never compared before the kernel runs")
                    text = val.args[0] if val.args else None
                    m = ASSIGN_RE.match(text) if isinstance(text, str) else None
                    if not m:
                        problems.append(f"assignment `{text}` is not `output(..) = left(..) {op} right(..)`")
                        continue
                    out, oi, l, li, o, r, ri = m.groups()
                    oi, li, ri = _split(oi), _split(li), _split(ri)
                    if (out, l, r) != ("output", "left", "right") or o != op:
                        problems.append(f"assignment `{text}` does not apply {op} to left and right in this order")
                    if len(oi) != n or len(set(oi)) != n:
                        problems.append(f"target of `{text}` does not have {n} distinct indexes")
                    if li != oi or ri != oi:
                        problems.append(f"`{text}`: dimension d of an operand is not indexed like dimension d of the result (not element-wise)")
                    bl, br = val.kwargs.get("left"), val.kwargs.get("right")
                    straight = bl is left and br is right
                    swapped = bl is right and br is left
                    if not (straight or (swapped and op in ("+", "*"))):
                        # element-wise + and * commute, so either binding computes the same tensor; - does not
                        problems.append(
                            "operands are bound the other way round: the kernel computes right - left" if swapped else "operands are not passed as left=left, right=right"
                        )
                    fmt = val.args[1] if len(val.args) > 1 else val.kwargs.get("output_format")
                    pf = _fmt_modes(fmt, n) if isinstance(fmt, str) else None
                    if pf is None or len(pf[0]) != n:
                        problems.append(f"output format `{fmt}` does not have order {n}")
                    elif natural(left) and natural(right):
                        want = tuple(
                            ("d" if (a is S.DENSE and b is S.DENSE) else "s") if op == "*" else ("d" if (a is S.DENSE or b is S.DENSE) else "s")
                            for a, b in zip(lm, rm)
                        )
                        if pf[0] != want or pf[1] != tuple(range(n)):
                            problems.append(f"output format `{fmt}` for {op}: the documented rule gives `{''.join(want)}`")
                report(key, problems)
    # ---- tensor (x) scalar and scalar (x) tensor
    for n in range(0, 4):
        for tm, to in configs(n):
            for op in "+-*":
                for side in ("left", "right"):
                    t = S.make_tensor(side, tm, to)
                    sc = S.Obj("Real")
                    args = [t, sc, op] if side == "left" else [sc, t, op]
                    key = f"tensor.py:evaluate_binary_operator:{describe(args[0])} {op} {describe(args[1])}"
                    problems = []
                    for assume, (kind, val) in S.explore(fb, args, globals_=TG):
                        if kind != "return" or not isinstance(val, S.Call):
                            problems.append(f"outcome {kind} {val!r} instead of an evaluation")
                            continue
                        text = val.args[0] if val.args else None
                        m = ASSIGN_RE.match(text) if isinstance(text, str) else None
                        if not m:
                            problems.append(f"assignment `{text}` not understood")
                            continue
                        out, oi, l, li, o, r, ri = m.groups()
                        oi, li, ri = _split(oi), _split(li), _split(ri)
                        ti, si = (li, ri) if side == "left" else (ri, li)
                        if (out, l, r) != ("output", "left", "right") or o != op:
                            problems.append(f"assignment `{text}` does not apply {op} to left and right in this order")
                        if len(oi) != n or len(set(oi)) != n or ti != oi or si != []:
                            problems.append(f"`{text}` is not the scalar broadcast of an order-{n} tensor")
                        tk, sk = val.kwargs.get(side), val.kwargs.get("right" if side == "left" else "left")
                        if tk is not t or not (isinstance(sk, S.Obj) and sk.tag == "Tensor" and sk.attrs["order"] == 0):
                            problems.append("operands are not (tensor, order-0 tensor of the number) on their own sides")
                        fmt = val.args[1] if len(val.args) > 1 else None
                        want = t.attrs["format"].attrs["deparse"]() if op == "*" else "d" * n
                        if fmt != want:
                            problems.append(f"output format `{fmt}`: the documented rule gives `{want}`")
                    report(key, problems)
    # ---- unsupported operands
    for args, label in (([S.Obj("Real"), S.Obj("Real"), "+"], "number + number"), ([S.Obj("Other"), S.make_tensor("right", (), ()), "*"], "other * tensor")):
        outs = list(S.explore(fb, args, globals_=TG))
        problems = [] if all(k == "return" and v is S.NOT_IMPLEMENTED for _, (k, v) in outs) else [f"outcome {outs}"]
        report(f"tensor.py:evaluate_binary_operator:{label} -> NotImplemented", problems)
    # ---- matrix multiplication
    want_einsum = {
        (1, 1): "output() = left(i) * right(i)",
        (2, 1): "output(i) = left(i,j) * right(j)",
        (1, 2): "output(j) = left(i) * right(i,j)",
        (2, 2): "output(i,k) = left(i,j) * right(j,k)",
    }
    for nl, nr in itertools.product(range(0, 4), repeat=2):
        for (lm, lo), (rm, ro) in itertools.product(configs(nl), configs(nr)):
            if nl == 3 or nr == 3:
                if not (lo == tuple(range(nl)) and ro == tuple(range(nr)) and len(set(map(id, lm + rm))) <= 1):
                    continue
            left = S.make_tensor("left", lm, lo)
            right = S.make_tensor("right", rm, ro)
            key = f"tensor.py:evaluate_matrix_multiplication_operator:{describe(left)} @ {describe(right)}"
            problems = []
            for assume, (kind, val) in S.explore(fm, [left, right], globals_=TG):
                if kind == "uninterpretable":
                    problems.append(f"operator code not interpretable: {val}")
                    continue
                if (nl, nr) not in want_einsum:
                    if not (kind == "raise" and val == "ValueError"):
                        problems.append(f"orders {(nl, nr)} give {kind} instead of the documented ValueError")
                    continue
                differ = [k for k, v in assume.items() if v is False]
                if differ:
                    if not (kind == "raise" and val == "ValueError"):
                        problems.append(f"dimensions {differ[0]} may differ, yet the outcome is {kind} instead of ValueError")
                    continue
                if kind != "return" or not isinstance(val, S.Call):
                    problems.append(f"compatible shapes give {kind} {val!r} instead of an evaluation")
                    continue
                text = val.args[0] if val.args else None
                if not isinstance(text, str) or not einsum_equal(text, want_einsum[(nl, nr)]):
                    problems.append(f"assignment `{text}` is not `{want_einsum[(nl, nr)]}` up to index renaming")
                    continue
                m = re.match(r"^(\w+)\(([\w,]*)\) = (\w+)\(([\w,]*)\) \* (\w+)\(([\w,]*)\)$", text)
                oi, li, ri = _split(m.group(2)), _split(m.group(4)), _split(m.group(6))
                for name in set(li) & set(ri):
                    pair = tuple(sorted((f"left.dim{li.index(name)}", f"right.dim{ri.index(name)}")))
                    if assume.get(pair) is not True:
                        problems.append(f"contracted dimensions {pair} are never compared before the kernel runs")
                if val.kwargs.get("left") is not left or val.kwargs.get("right") is not right:
                    problems.append("operands are not passed as left=left, right=right")
                fmt = val.args[1] if len(val.args) > 1 else None
                want = ""
                for name in oi:
                    src, idxs = (left, li) if name in li else (right, ri)
                    d = idxs.index(name)
                    f_ = src.attrs["format"]
                    want += f_.attrs["modes"][f_.attrs["ordering"].index(d)].attrs["character"]
                if fmt != want:
                    problems.append(f"output format `{fmt}`: the modes of the operands' outer dimensions give `{want}`")
            report(key, problems)
    outs = list(S.explore(fm, [S.Obj("Other"), S.make_tensor("right", (S.DENSE,), (0,))], globals_=TG))
    report(
        "tensor.py:evaluate_matrix_multiplication_operator:other @ tensor -> NotImplemented",
        [] if all(k == "return" and v is S.NOT_IMPLEMENTED for _, (k, v) in outs) else [f"outcome {outs}"],
    )


def einsum_equal(a, b):
    """Equality of two assignment strings up to a bijective renaming of indexes."""
    def parse(s):
        m = re.match(r"^(\w+)\(([\w,]*)\) = (\w+)\(([\w,]*)\) \* (\w+)\(([\w,]*)\)$", s)
        if not m:
            return None
        o, oi, l, li, r, ri = m.groups()
        return (o, l, r), [x.split(",") if x else [] for x in (oi, li, ri)]
    pa, pb = parse(a), parse(b)
    if not pa or not pb or pa[0] != pb[0]:
        return False
    ren = {}
    rev = {}
    for xs, ys in zip(pa[1], pb[1]):
        if len(xs) != len(ys):
            return False
        for x, y in zip(xs, ys):
            if ren.setdefault(x, y) != y or rev.setdefault(y, x) != x:
                return False
    return True


