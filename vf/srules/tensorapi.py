"""S rules over tensor.py / _tensor_method.py / _porcelain.py / problem.py for C09, C10, C11."""

from __future__ import annotations

import ast
import itertools
import re

from ..common import AnalysisError
from .core import SourceIndex, arm_tests, dominators_of, enclosing_chain

T_MOD = "tensora.tensor"
TM = "tensora.compile._tensor_method.TensorMethod"


def u(e):
    return ast.unparse(e)


def norm(e):
    return " ".join(u(e).split())


# ------------------------------------------------------------------------------------------------
# frozen exception of axis typing
# ------------------------------------------------------------------------------------------------
def matmul_exception(f, node):
    """modes[ordering[k]] in evaluate_matrix_multiplication_operator is accepted only while dominated by
    an order == 1|2 test on the same operand (every permutation of <= 2 elements is its own inverse)."""
    txt = u(node.slice) if isinstance(node, ast.Subscript) else u(node)
    m = re.match(r"(left|right)\.format\.ordering\[\d\]", txt)
    if not m:
        return "not an ordering[k] subscript"
    who = m.group(1)
    tests = [u(t) for t in arm_tests(f.node, node)]
    ok = any(re.search(rf"{who}\.order == [12]\b", t) for t in tests)
    if not ok:
        return f"not dominated by `{who}.order == 1|2` (enclosing tests: {tests})"
    return None


def axis_exceptions():
    exc = {}
    for who, k in (("left", 0), ("right", 1)):
        exc[(f"{T_MOD}.evaluate_matrix_multiplication_operator", f"{who}.format.ordering[{k}]")] = matmul_exception
    return exc


# ------------------------------------------------------------------------------------------------
# C09
# ------------------------------------------------------------------------------------------------
def rule_canonical_structure(ctx, ix):
    ctx.rule("C09.canonical", "stored structure is sorted, duplicate-free, duplicates accumulate", min_instances=4)
    f = ix.func(f"{T_MOD}.tree_to_indices_and_values.<locals>.recurse").node
    src = u(f)
    ctx.instance("C09.canonical")
    key = "tensor.py:tree_to_indices_and_values.recurse:compressed arm"
    comp_arm = None
    for n in ast.walk(f):
        if isinstance(n, ast.If):
            cur = n
            while True:
                if "Mode.compressed" in u(cur.test):
                    comp_arm = cur
                if len(cur.orelse) == 1 and isinstance(cur.orelse[0], ast.If):
                    cur = cur.orelse[0]
                else:
                    break
            if comp_arm:
                break
    problems = []
    if comp_arm is None:
        problems.append("no compressed arm")
    else:
        body = " ; ".join(u(s) for s in comp_arm.body)
        m = re.search(r"(\w+) = sorted\(node\.keys\(\)\)", body)
        if not m:
            problems.append("coordinates of a compressed level are not emitted as sorted(node.keys()) (sorted => strictly increasing, keys => duplicate-free)")
        else:
            idx = m.group(1)
            if f"indexes[i_level][0].append(indexes[i_level][0][-1] + len({idx}))" not in body:
                problems.append("pos is not extended by previous end + number of coordinates")
            if f"indexes[i_level][1].extend({idx})" not in body:
                problems.append("crd is not extended by the sorted coordinates")
            if f"iter_next_level = {idx}" not in body:
                problems.append("children are not visited in the order the coordinates were stored")
    if problems:
        ctx.fail("C09.canonical", key, "; ".join(problems))
    else:
        ctx.ok("C09.canonical", key)
    # values / recursion follow iter_next_level
    ctx.instance("C09.canonical")
    key = "tensor.py:tree_to_indices_and_values.recurse:values follow stored order"
    if "for key in iter_next_level:\n            values.append(node.get(key, 0.0))" in src.replace("    ", "    ") or re.search(r"for key in iter_next_level:\s+values\.append\(node\.get\(key, 0\.0\)\)", src):
        if re.search(r"for key in iter_next_level:\s+next_tree = node\.get\(key, \{\}\)\s+recurse\(next_tree, i_level \+ 1\)", src):
            ctx.ok("C09.canonical", key)
        else:
            ctx.fail("C09.canonical", key, "sub-trees are not visited for every stored key in stored order")
    else:
        ctx.fail("C09.canonical", key, "values are not appended for every stored key in stored order")
    # pos starts at 0
    g = ix.func(f"{T_MOD}.tree_to_indices_and_values").node
    ctx.instance("C09.canonical")
    if "indexes.append([[0], []])" in u(g):
        ctx.ok("C09.canonical", "tensor.py:tree_to_indices_and_values:pos starts at [0]")
    else:
        ctx.fail("C09.canonical", "tensor.py:tree_to_indices_and_values:pos starts at [0]", "pos of a compressed level is not initialised to [0]")
    # duplicates accumulate
    h = ix.func(f"{T_MOD}.coordinates_to_tree.<locals>.recurse").node
    ctx.instance("C09.canonical")
    key = "tensor.py:coordinates_to_tree.recurse:duplicates accumulate"
    leaf = [n for n in ast.walk(h) if isinstance(n, ast.Assign) and u(n.targets[0]) == "node[key]"]
    good = any(u(n.value) in ("node.get(key, 0.0) + payload", "node.get(key, 0) + payload", "payload + node.get(key, 0.0)") for n in leaf)
    if good:
        ctx.ok("C09.canonical", key)
    else:
        ctx.fail("C09.canonical", key, f"leaf update is {[u(n) for n in leaf]}: duplicate coordinates overwrite instead of summing")
    # level-order permutation in from_aos
    a = ix.func(f"{T_MOD}.Tensor.from_aos").node
    ctx.instance("C09.canonical")
    key = "tensor.py:Tensor.from_aos:coordinates and dimensions permuted into level order"
    s = u(a)
    if "tuple((dimensions[i] for i in format.ordering))" in s and "tuple((coordinate[i] for i in format.ordering))" in s and "zip(coordinates, values, strict=True)" in u(ix.func(f"{T_MOD}.coordinates_to_tree").node):
        ctx.ok("C09.canonical", key)
    else:
        ctx.fail("C09.canonical", key, "coordinates/dimensions are not permuted with format.ordering before the tree is built, or coordinates and values are not zipped strictly")


def rule_mapping_consumption(ctx, ix):
    """Every arm of the mode dispatch must consume all keys of `node`, or be dominated by a range
    validation that raises."""
    ctx.rule("C09.mapping-consumption", "no coordinate is silently dropped when the tree is flattened", min_instances=2)
    f = ix.func(f"{T_MOD}.tree_to_indices_and_values.<locals>.recurse").node
    arms = {}
    for n in ast.walk(f):
        if isinstance(n, ast.If) and "modes[i_level] == Mode.dense" in u(n.test):
            arms["dense"] = n.body
            if len(n.orelse) == 1 and isinstance(n.orelse[0], ast.If) and "Mode.compressed" in u(n.orelse[0].test):
                arms["compressed"] = n.orelse[0].body
            break
    if set(arms) != {"dense", "compressed"}:
        raise AnalysisError("anchor vanished: mode dispatch in tree_to_indices_and_values.recurse")
    validated = range_validation_present(ix)
    for name, body in arms.items():
        ctx.instance("C09.mapping-consumption")
        key = f"tensor.py:tree_to_indices_and_values.recurse:{name} arm"
        txt = " ; ".join(u(s) for s in body)
        consumes_all = "node.keys()" in txt or "node.items()" in txt or "in node" in txt
        if consumes_all:
            ctx.ok("C09.mapping-consumption", key)
        elif validated:
            ctx.ok("C09.mapping-consumption", key + " [range validated before]")
        else:
            ctx.fail(
                "C09.mapping-consumption",
                key,
                "the dense arm iterates range(dimension) and looks keys up with .get: a coordinate outside [0, dimension) is never "
                "visited and never rejected (no range validation dominates the tree construction)",
            )


def range_validation_present(ix):
    """Is there, in from_aos before coordinates_to_tree, a check raising on coordinates outside the dimensions?"""
    a = ix.func(f"{T_MOD}.Tensor.from_aos").node
    for n in ast.walk(a):
        if isinstance(n, ast.If) and any(isinstance(x, ast.Raise) for x in ast.walk(n)):
            t = u(n.test)
            if re.search(r"<\s*0|>=|not\s*\(?\s*0\s*<=", t) and ("dimension" in t):
                return True
    for n in ast.walk(a):
        if isinstance(n, ast.Call) and u(n.func).endswith("validate_coordinates"):
            return True
    return False


def rule_validation_dominates(ctx, ix):
    """Every Tensor(...) construction receives a validated struct; __setstate__ goes through
    taco_structure_to_cffi with the keys __getstate__ wrote, each bound to the parameter of the same
    meaning; to_format passes self.dimensions and self.to_dok()."""
    ctx.rule("C09.validation", "every Tensor is built from a validated structure; pickling keys agree", min_instances=6)
    allowed = {
        f"{T_MOD}.Tensor.from_aos": "taco_structure_to_cffi",
        f"{TM}.__call__": "allocate_taco_structure",
    }
    for q, f in ix.funcs.items():
        for call in ix.calls_in(f):
            if isinstance(call.func, ast.Name) and ix.resolve_name(f.module, call.func.id) == f"{T_MOD}.Tensor" and call.func.id == "Tensor":
                ctx.instance("C09.validation")
                key = f"{ix.rel(f.module)}:{q.split(f.module + '.', 1)[-1]}:{norm(call)}"
                src_fn = allowed.get(q)
                ok = False
                if src_fn and len(call.args) == 1 and isinstance(call.args[0], ast.Name):
                    v = call.args[0].id
                    for n in ast.walk(f.node):
                        if isinstance(n, ast.Assign) and u(n.targets[0]) == v and isinstance(n.value, ast.Call) and u(n.value.func) == src_fn:
                            ok = True
                if ok:
                    ctx.ok("C09.validation", key)
                else:
                    ctx.fail("C09.validation", key, "Tensor constructed from a structure that did not come from taco_structure_to_cffi (validated) or allocate_taco_structure (kernel output)")
    # pickling
    gs = ix.func(f"{T_MOD}.Tensor.__getstate__").node
    ss = ix.func(f"{T_MOD}.Tensor.__setstate__").node
    ctx.instance("C09.validation")
    key = "tensor.py:Tensor.__getstate__/__setstate__"
    written = {}
    for n in ast.walk(gs):
        if isinstance(n, ast.Return) and isinstance(n.value, ast.Dict):
            for k_, v in zip(n.value.keys, n.value.values):
                written[ast.literal_eval(k_)] = u(v)
    want_written = {
        "dimensions": ["self.dimensions"],
        "mode_types": ["tuple((mode.c_int for mode in self.format.modes))", "tuple((mode.c_int for mode in self.modes))"],
        "mode_ordering": ["self.format.ordering", "self.mode_ordering"],
        "indices": ["self.taco_indices"],
        "vals": ["self.taco_vals"],
    }
    problems = []
    for k_, alts in want_written.items():
        if written.get(k_) not in alts:
            problems.append(f"__getstate__ writes {k_}={written.get(k_)}")
    calls = [n for n in ast.walk(ss) if isinstance(n, ast.Call) and u(n.func) == "taco_structure_to_cffi"]
    if len(calls) != 1:
        problems.append("__setstate__ does not rebuild through taco_structure_to_cffi")
    else:
        kw = {k.arg: u(k.value) for k in calls[0].keywords}
        pos = [u(a) for a in calls[0].args]
        params = ["indices", "vals"]
        for i, a in enumerate(pos):
            kw[params[i]] = a
        for p in ("indices", "vals", "mode_types", "dimensions", "mode_ordering"):
            if kw.get(p) != f"state['{p}']":
                problems.append(f"parameter {p} is bound to {kw.get(p)}")
        tgt = [n for n in ast.walk(ss) if isinstance(n, ast.Assign) and u(n.targets[0]) == "self.cffi_tensor" and n.value is calls[0]]
        if not tgt:
            problems.append("rebuilt struct is not stored in self.cffi_tensor")
    if problems:
        ctx.fail("C09.validation", key, "; ".join(problems))
    else:
        ctx.ok("C09.validation", key)
    # to_format
    tf = ix.func(f"{T_MOD}.Tensor.to_format").node
    ctx.instance("C09.validation")
    rets = [n for n in ast.walk(tf) if isinstance(n, ast.Return)]
    if len(rets) == 1 and norm(rets[0].value) == "Tensor.from_dok(self.to_dok(), dimensions=self.dimensions, format=format)":
        ctx.ok("C09.validation", "tensor.py:Tensor.to_format")
    else:
        ctx.fail("C09.validation", "tensor.py:Tensor.to_format", "to_format does not rebuild from self.to_dok() with self.dimensions")
    # from_dok / from_soa / from_lol delegate to from_aos with dimensions and format passed through
    for name, want in (
        ("from_dok", "Tensor.from_aos(dictionary.keys(), dictionary.values(), dimensions=dimensions, format=format)"),
        ("from_soa", "Tensor.from_aos(transposed_coordinates, values, dimensions=dimensions, format=format)"),
        ("from_lol", "Tensor.from_aos(coordinates, values, dimensions=dimensions, format=format)"),
    ):
        fn = ix.func(f"{T_MOD}.Tensor.{name}").node
        ctx.instance("C09.validation")
        rets = [n for n in ast.walk(fn) if isinstance(n, ast.Return)]
        if rets and norm(rets[-1].value) == want:
            ctx.ok("C09.validation", f"tensor.py:Tensor.{name}")
        else:
            ctx.fail("C09.validation", f"tensor.py:Tensor.{name}", f"does not delegate to from_aos with dimensions and format: {norm(rets[-1].value) if rets else None}")
    # to_dok: keeps all non-zero items
    td = ix.func(f"{T_MOD}.Tensor.to_dok").node
    ctx.instance("C09.validation")
    s = u(td)
    if "return dict(self.items())" in s and "{key: value for key, value in self.items() if value != 0.0}" in s:
        ctx.ok("C09.validation", "tensor.py:Tensor.to_dok")
    else:
        ctx.fail("C09.validation", "tensor.py:Tensor.to_dok", "to_dok does not return every (non-zero) item of items()")
    # structure validation: the permutation requirement dominates construction
    for q, test in (
        ("tensora.compile._cffi_ownership.allocate_taco_structure", "set(mode_ordering) != set(range(len(mode_types)))"),
        ("tensora.format._format.Format.__post_init__", "set(self.ordering) != set(range(len(self.modes)))"),
    ):
        fn = ix.func(q).node
        ctx.instance("C09.validation")
        key = f"{q.split('tensora.', 1)[1]}:ordering must be a permutation"
        good = any(isinstance(sn, ast.If) and u(sn.test) == test and any(isinstance(x, ast.Raise) for x in sn.body) for sn in fn.body)
        if good:
            ctx.ok("C09.validation", key)
        else:
            ctx.fail("C09.validation", key, "the permutation requirement is not checked at the top level of the function before anything is built")
    # taco_structure_to_cffi validation clauses
    fn = ix.func("tensora.compile._cffi_ownership.taco_structure_to_cffi").node
    s = u(fn)
    clauses = {
        "pos length": "len(pos) != nnz + 1",
        "pos[0] == 0": "pos[0] != 0",
        "pos non-decreasing": "not weakly_increasing(pos)",
        "crd length": "len(crd) != pos[-1]",
        "crd range": "not all((0 <= x < dimensions[mode_ordering[i_level]] for x in crd))",
        "vals length": "len(vals) != nnz",
        "dense level empty": "len(indices[i_level]) != 0",
    }
    for name, test in clauses.items():
        ctx.instance("C09.validation")
        key = f"compile/_cffi_ownership.py:taco_structure_to_cffi:{name}"
        found = False
        for n in ast.walk(fn):
            if isinstance(n, ast.If) and u(n.test) == test and any(isinstance(x, ast.Raise) for x in n.body):
                found = True
        if found:
            ctx.ok("C09.validation", key)
        else:
            ctx.fail("C09.validation", key, f"validation clause `{test}` -> raise is missing")
    # ... and the validation precedes the construction of the arrays
    ctx.instance("C09.validation")
    news = [n for n in ast.walk(fn) if isinstance(n, ast.Call) and u(n.func) == "tensor_cdefs.new" and ("array" in u(n) or "vals" in u(n))]
    raises = [n for n in ast.walk(fn) if isinstance(n, ast.Raise)]
    if news and raises and max(r.lineno for r in raises) < min(n.lineno for n in news):
        ctx.ok("C09.validation", "compile/_cffi_ownership.py:taco_structure_to_cffi:validation precedes array construction")
    else:
        ctx.fail("C09.validation", "compile/_cffi_ownership.py:taco_structure_to_cffi:validation precedes array construction", "arrays are built before all validation clauses ran")


# ------------------------------------------------------------------------------------------------
# C10
# ------------------------------------------------------------------------------------------------
def rule_who_may_enter_kernel(ctx, ix):
    ctx.rule("C10.kernel-entry", "the compiled function pointer is called only from TensorMethod.__call__", min_instances=1)
    sites = []
    for q, f in ix.funcs.items():
        for call in ix.calls_in(f):
            t = u(call.func)
            if t in ("self._evaluate", "self._lib.evaluate") or t.endswith("._evaluate") or t.endswith(".lib.evaluate") or t.endswith("_lib.evaluate"):
                sites.append((q, call))
            if isinstance(call.func, ast.Attribute) and call.func.attr == "get_function_address":
                if q != f"{TM}.__init__":
                    sites.append((q, call))
    ctx.instance("C10.kernel-entry", max(1, len(sites)))
    good = [s for s in sites if s[0] == f"{TM}.__call__"]
    for q, call in sites:
        key = f"{q.split('tensora.', 1)[1]}:{norm(call)[:60]}"
        if q == f"{TM}.__call__":
            ctx.ok("C10.kernel-entry", key)
        else:
            ctx.fail("C10.kernel-entry", key, "kernel entered (or its address taken) outside TensorMethod.__call__: argument validation is bypassed")
    if len(good) != 1:
        ctx.fail("C10.kernel-entry", "compile/_tensor_method.py:TensorMethod.__call__", f"{len(good)} kernel call sites in __call__ (expected exactly one)")
    # porcelain reaches kernels only through cachable_tensor_method(...)(**inputs)
    ctx.rule("C10.porcelain", "evaluate*/tensor_method/operators reach kernels only through TensorMethod", min_instances=3)
    for name in ("evaluate_tensora", "evaluate_cffi"):
        fn = ix.func(f"tensora.compile._porcelain.{name}").node
        ctx.instance("C10.porcelain")
        s = u(fn)
        ok = "function = cachable_tensor_method(problem," in s and "return function(**inputs)" in s and "make_problem(parsed_assignment, formats).alt(raise_exception).unwrap()" in s
        ok = ok and "input_formats = {name: tensor.format for name, tensor in inputs.items()}" in s
        ok = ok and "formats = {parsed_assignment.target.name: parsed_output_format} | input_formats" in s
        if ok:
            ctx.ok("C10.porcelain", f"compile/_porcelain.py:{name}")
        else:
            ctx.fail("C10.porcelain", f"compile/_porcelain.py:{name}", "does not build the problem from the arguments' own formats and call the cached TensorMethod with the inputs")
    fn = ix.func("tensora.compile._porcelain.evaluate").node
    ctx.instance("C10.porcelain")
    if "return evaluate_tensora(assignment, output_format, **inputs)" in u(fn):
        ctx.ok("C10.porcelain", "compile/_porcelain.py:evaluate")
    else:
        ctx.fail("C10.porcelain", "compile/_porcelain.py:evaluate", "evaluate does not forward to evaluate_tensora")
    fn = ix.func("tensora.compile._porcelain.cachable_tensor_method").node
    ctx.instance("C10.porcelain")
    if "return TensorMethod(problem, backend=backend)" in u(fn):
        ctx.ok("C10.porcelain", "compile/_porcelain.py:cachable_tensor_method")
    else:
        ctx.fail("C10.porcelain", "compile/_porcelain.py:cachable_tensor_method", "does not construct a TensorMethod for (problem, backend)")


def rule_call_validation(ctx, ix):
    """Must-pass-through and coverage of the validation in TensorMethod.__call__."""
    ctx.rule("C10.must-pass-through", "signature.bind, per-argument loop and per-index loop dominate the kernel call", min_instances=3)
    f = ix.func(f"{TM}.__call__")
    node = f.node
    kernel = None
    for call in ix.calls_in(f):
        if u(call.func) == "self._evaluate":
            kernel = call
    if kernel is None:
        raise AnalysisError("anchor vanished: self._evaluate(...) call in TensorMethod.__call__")
    doms = dominators_of(node, kernel)
    # (1) signature.bind
    bind = [s for s in doms if isinstance(s, ast.Assign) and "self.signature.bind(*args, **kwargs)" in u(s.value)]
    ctx.instance("C10.must-pass-through")
    if bind and u(bind[0].value) == "self.signature.bind(*args, **kwargs).arguments":
        bound = u(bind[0].targets[0])
        ctx.ok("C10.must-pass-through", "compile/_tensor_method.py:TensorMethod.__call__:signature.bind")
    else:
        ctx.fail("C10.must-pass-through", "compile/_tensor_method.py:TensorMethod.__call__:signature.bind", "arguments are not bound through self.signature.bind(*args, **kwargs) before the kernel call")
        return
    # signature: keyword-only parameter per input format
    init = ix.func(f"{TM}.__init__").node
    ctx.instance("C10.must-pass-through")
    s = u(init)
    if "Parameter(parameter_name, Parameter.KEYWORD_ONLY, annotation=Tensor) for parameter_name in self._input_formats.keys()" in s and "if name != self._output_name" in s:
        ctx.ok("C10.must-pass-through", "compile/_tensor_method.py:TensorMethod.__init__:signature")
    else:
        ctx.fail("C10.must-pass-through", "compile/_tensor_method.py:TensorMethod.__init__:signature", "signature is not one keyword-only parameter per input tensor")
    # (2) per-argument loop
    loops = [s for s in doms if isinstance(s, ast.For)]
    arg_loop = None
    for l in loops:
        it = u(l.iter)
        if it.startswith("zip(") and f"{bound}.values()" in it and "self._input_formats.values()" in it:
            arg_loop = l
    ctx.instance("C10.must-pass-through")
    key = "compile/_tensor_method.py:TensorMethod.__call__:per-argument loop"
    if arg_loop is None:
        ctx.fail("C10.must-pass-through", key, "no loop over all bound arguments zipped with all input formats dominates the kernel call")
    else:
        problems = []
        if "strict=True" not in u(arg_loop.iter):
            problems.append("zip is not strict")
        names = [u(e) for e in arg_loop.target.elts] if isinstance(arg_loop.target, ast.Tuple) else []
        it_args = [u(a) for a in arg_loop.iter.args]
        try:
            argv = names[it_args.index(f"{bound}.values()")]
            fmtv = names[it_args.index("self._input_formats.values()")]
        except (ValueError, IndexError):
            argv = fmtv = None
            problems.append("loop targets not understood")
        if argv:
            tests = {}
            for st in arg_loop.body:
                if isinstance(st, ast.If) and st.body and isinstance(st.body[-1], ast.Raise):
                    tests[u(st.test)] = u(st.body[-1].exc.func) if isinstance(st.body[-1].exc, ast.Call) else u(st.body[-1].exc)
            want = {
                f"not isinstance({argv}, Tensor)": "TypeError",
                f"{argv}.order != {fmtv}.order": "ValueError",
                f"tuple({argv}.modes) != tuple({fmtv}.modes)": "ValueError",
                f"tuple({argv}.mode_ordering) != tuple({fmtv}.ordering)": "ValueError",
            }
            for t, e in want.items():
                if tests.get(t) != e:
                    problems.append(f"missing check `{t}` -> raise {e}")
            if any(isinstance(x, (ast.Break, ast.Continue)) for x in ast.walk(arg_loop)):
                problems.append("loop has break/continue")
        if problems:
            ctx.fail("C10.must-pass-through", key, "; ".join(problems))
        else:
            ctx.ok("C10.must-pass-through", key)
    # (3) per-index loop: coverage All / AllButReference
    ctx.rule("C10.dimension-coverage", "every participant of every index is compared with the reference size", min_instances=1)
    ctx.instance("C10.dimension-coverage")
    key = "compile/_tensor_method.py:TensorMethod.__call__:per-index loop"
    idx_loop = None
    for l in loops:
        if re.fullmatch(r"\w+\.items\(\)", u(l.iter)):
            v = u(l.iter)[: -len(".items()")]
            src = [s for s in doms if isinstance(s, ast.Assign) and u(s.targets[0]) == v]
            if src and u(src[0].value) == "self._problem.assignment.expression.index_participants()":
                idx_loop = l
    if idx_loop is None:
        ctx.fail("C10.dimension-coverage", key, "no loop over expression.index_participants().items() dominates the kernel call")
        return
    problems = []
    ixv, partv = (u(e) for e in idx_loop.target.elts) if isinstance(idx_loop.target, ast.Tuple) else ("?", "?")
    sizes = None
    for st in idx_loop.body:
        if isinstance(st, ast.Assign) and isinstance(st.value, ast.ListComp):
            comp = st.value
            g = comp.generators[0]
            if u(g.iter) == partv and not g.ifs and len(comp.generators) == 1 and isinstance(g.target, ast.Tuple):
                tv, dv = (u(e) for e in g.target.elts)
                elt = u(comp.elt)
                if f"{bound}[{tv}].dimensions[{dv}]" in elt:
                    sizes = u(st.targets[0])
                else:
                    problems.append(f"size is not read as {bound}[tensor].dimensions[dimension] of the participant's own tensor: {elt}")
    if sizes is None:
        problems.append("sizes are not collected for every participant of the index (comprehension over all participants, no filter)")
    else:
        ref = None
        for st in idx_loop.body:
            if isinstance(st, ast.Assign) and re.fullmatch(rf"{sizes}\[0\]\[2\]", u(st.value)):
                ref = u(st.targets[0])
        cmp_loop = None
        for st in idx_loop.body:
            if isinstance(st, ast.For):
                it = u(st.iter)
                if it in (f"{sizes}[1:]", sizes):
                    cmp_loop = st
                elif it.startswith(sizes):
                    problems.append(f"comparison loop ranges over `{it}`: only part of the participants is compared (coverage Partial)")
        if ref is None:
            problems.append("no reference size taken from the first participant")
        if cmp_loop is None:
            if not any("Partial" in p for p in problems):
                problems.append("no loop comparing all other participants with the reference")
        else:
            ok = False
            for st in cmp_loop.body:
                if isinstance(st, ast.If) and any(isinstance(x, ast.Raise) and "ValueError" in u(x) for x in st.body):
                    t = u(st.test)
                    tnames = [u(e) for e in cmp_loop.target.elts] if isinstance(cmp_loop.target, ast.Tuple) else [u(cmp_loop.target)]
                    if ref and re.fullmatch(rf"(\w+) != {ref}|{ref} != (\w+)", t) and any(n in t for n in tnames):
                        ok = True
            if not ok:
                problems.append("comparison loop does not raise ValueError when a size differs from the reference")
            if any(isinstance(x, (ast.Break, ast.Continue)) for x in ast.walk(cmp_loop)):
                problems.append("comparison loop has break/continue (coverage Partial)")
        if not any(isinstance(st, ast.Assign) and u(st.targets[0]) == f"index_sizes[{ixv}]" for st in idx_loop.body):
            problems.append("reference size is not recorded for the index")
    if any(isinstance(x, (ast.Break, ast.Continue)) for x in idx_loop.body):
        problems.append("index loop has break/continue")
    if problems:
        ctx.fail("C10.dimension-coverage", key, "; ".join(problems))
    else:
        ctx.ok("C10.dimension-coverage", key)
    # output dimensions from target indexes; BroadcastTargetIndexError guarantees the key exists
    ctx.instance("C10.must-pass-through")
    od = [s for s in doms if isinstance(s, ast.Assign) and u(s.targets[0]) == "output_dimensions"]
    key = "compile/_tensor_method.py:TensorMethod.__call__:output dimensions"
    if od and norm(od[0].value) == "tuple((index_sizes[index] for index in self._problem.assignment.target.indexes))":
        s = u(init)
        if "for output_index in problem.assignment.target.indexes:" in s and "if output_index not in input_indexes:" in s and "raise BroadcastTargetIndexError(output_index, problem.assignment)" in s and "input_indexes = set(problem.assignment.expression.index_participants().keys())" in s:
            ctx.ok("C10.must-pass-through", key)
        else:
            ctx.fail("C10.must-pass-through", key, "TensorMethod.__init__ does not reject target indexes missing from the right-hand side (KeyError at call time)")
    else:
        ctx.fail("C10.must-pass-through", key, "output dimensions are not taken per target index from the validated index sizes")
    # arguments passed to the kernel in problem.formats order, inputs from bound arguments
    ctx.instance("C10.must-pass-through")
    key = "compile/_tensor_method.py:TensorMethod.__call__:kernel arguments"
    s = u(node)
    if (
        "all_arguments = {self._output_name: output, **" + bound + "}" in s
        and "cffi_args = [all_arguments[name].cffi_tensor for name in self._problem.formats.keys()]" in s
        and u(kernel) == "self._evaluate(*cffi_args)"
    ):
        ctx.ok("C10.must-pass-through", key)
    else:
        ctx.fail("C10.must-pass-through", key, "kernel is not called with (output, inputs) in the order of problem.formats")


def rule_problem_validation(ctx, ix):
    ctx.rule("C10.problem", "Problem/make_problem reject undefined, unused and wrong-order formats", min_instances=3)
    pi = ix.func("tensora.problem.Problem.__post_init__").node
    s = u(pi)
    ctx.instance("C10.problem")
    ok = (
        "tensor_orders = self.assignment.variable_orders()" in s
        and "for name, order in tensor_orders.items():" in s
        and "if name not in self.formats:" in s
        and "raise UndefinedReferenceError(" in s
        and "elif order != self.formats[name].order:" in s
        and "raise IncorrectDimensionsError(" in s
        and not any(isinstance(x, (ast.Break, ast.Continue)) for x in ast.walk(pi))
    )
    if ok:
        ctx.ok("C10.problem", "problem.py:Problem.__post_init__")
    else:
        ctx.fail("C10.problem", "problem.py:Problem.__post_init__", "not every name of variable_orders() is checked for presence and order")
    mp = ix.func("tensora.problem.make_problem").node
    s = u(mp)
    ctx.instance("C10.problem")
    ok = (
        "for name in formats.keys():" in s
        and "if name not in tensor_orders:" in s
        and "return Failure(UnusedFormatError(name, assignment))" in s
        and "except (UndefinedReferenceError, IncorrectDimensionsError) as error:" in s
        and "return Failure(error)" in s
        and "problem = Problem(assignment, new_formats)" in s
    )
    if ok:
        ctx.ok("C10.problem", "problem.py:make_problem")
    else:
        ctx.fail("C10.problem", "problem.py:make_problem", "make_problem does not convert exactly the problem errors into Failure / reject unused formats")
    ctx.instance("C10.problem")
    if "new_formats[name] = Format(tuple([Mode.dense] * order), tuple(range(order)))" in s and "for name, order in tensor_orders.items():" in s and "new_formats[name] = formats[name]" in s:
        ctx.ok("C10.problem", "problem.py:make_problem:defaults")
    else:
        ctx.fail("C10.problem", "problem.py:make_problem:defaults", "absent tensors are not filled with dense modes x order and the identity ordering, ordered by variable_orders()")


# ------------------------------------------------------------------------------------------------
# C11
# ------------------------------------------------------------------------------------------------
def rule_dunders(ctx, ix):
    ctx.rule("C11.dunder-table", "operator methods forward (left, right, op) as the data model prescribes", min_instances=8)
    table = {
        "__add__": "evaluate_binary_operator(self, other, '+')",
        "__radd__": "evaluate_binary_operator(other, self, '+')",
        "__sub__": "evaluate_binary_operator(self, other, '-')",
        "__rsub__": "evaluate_binary_operator(other, self, '-')",
        "__mul__": "evaluate_binary_operator(self, other, '*')",
        "__rmul__": "evaluate_binary_operator(other, self, '*')",
        "__matmul__": "evaluate_matrix_multiplication_operator(self, other)",
        "__rmatmul__": "evaluate_matrix_multiplication_operator(other, self)",
    }
    for name, want in table.items():
        fn = ix.func(f"{T_MOD}.Tensor.{name}").node
        ctx.instance("C11.dunder-table")
        rets = [n for n in ast.walk(fn) if isinstance(n, ast.Return)]
        key = f"tensor.py:Tensor.{name}"
        if len(rets) == 1 and norm(rets[0].value) == want:
            ctx.ok("C11.dunder-table", key)
        else:
            ctx.fail("C11.dunder-table", key, f"returns `{norm(rets[0].value) if rets else None}`, the data model requires `{want}`")


def instantiate_template(node, env):
    """Instantiate an f-string / constant with {name} placeholders from env."""
    if isinstance(node, ast.Constant) and isinstance(node.value, str):
        return node.value
    if isinstance(node, ast.JoinedStr):
        out = ""
        for v in node.values:
            if isinstance(v, ast.Constant):
                out += v.value
            elif isinstance(v, ast.FormattedValue) and isinstance(v.value, ast.Name) and v.value.id in env:
                out += env[v.value.id]
            else:
                return None
        return out
    return None


ASSIGN_RE = re.compile(r"^(\w+)\(([\w,]*)\) = (\w+)\(([\w,]*)\) ([+\-*]) (\w+)\(([\w,]*)\)$")


def rule_operator_templates(ctx, ix):
    """The synthesised assignment strings mean the operation; shape guards dominate; format rules."""
    ctx.rule("C11.templates", "synthesised assignments are the element-wise / einsum forms of the operator", min_instances=7)
    f = ix.func(f"{T_MOD}.evaluate_binary_operator")
    calls = [c for c in ix.calls_in(f) if u(c.func) == "evaluate_tensora"]
    if len(calls) != 3:
        raise AnalysisError(f"anchor vanished: expected 3 evaluate_tensora calls in evaluate_binary_operator, found {len(calls)}")
    kinds = []
    for c in calls:
        # which branch: tensor-tensor, tensor-scalar, scalar-tensor by enclosing if test
        tests = [u(t) for t in arm_tests(f.node, c)]
        kinds.append(tests[0] if tests else "?")
    want_kind = {
        "isinstance(left, Tensor) and isinstance(right, Tensor)": ("T", "T"),
        "isinstance(left, Tensor) and isinstance(right, Real)": ("T", "S"),
        "isinstance(left, Real) and isinstance(right, Tensor)": ("S", "T"),
    }
    for c, test in zip(calls, kinds):
        ctx.instance("C11.templates")
        key = f"tensor.py:evaluate_binary_operator:{test}"
        if test not in want_kind:
            ctx.fail("C11.templates", key, "evaluate_tensora called under an unrecognised operand-kind test")
            continue
        lk, rk = want_kind[test]
        problems = []
        for op in "+-*":
            text = instantiate_template(c.args[0], {"indexes": "i0,i1,i2", "operator": op})
            m = ASSIGN_RE.match(text or "")
            if not m:
                problems.append(f"template `{u(c.args[0])}` does not instantiate to `out(ix) = left(ix) op right(ix)`")
                break
            out, oix, l, lix, o, r, rix = m.groups()
            if (out, l, r) != ("output", "left", "right"):
                problems.append("operands are not named output/left/right in this order")
            if o != op:
                problems.append(f"operator {op} is printed as {o}")
            if oix != "i0,i1,i2":
                problems.append("target does not carry the operand's indexes")
            if lix != ("i0,i1,i2" if lk == "T" else ""):
                problems.append(f"left operand indexed ({lix})")
            if rix != ("i0,i1,i2" if rk == "T" else ""):
                problems.append(f"right operand indexed ({rix})")
        kw = {k.arg: u(k.value) for k in c.keywords}
        want_kw = {
            ("T", "T"): {"left": "left", "right": "right"},
            ("T", "S"): {"left": "left", "right": "Tensor.from_lol(float(right))"},
            ("S", "T"): {"left": "Tensor.from_lol(float(left))", "right": "right"},
        }[(lk, rk)]
        if kw != want_kw:
            problems.append(f"operands bound as {kw}")
        if problems:
            ctx.fail("C11.templates", key, "; ".join(sorted(set(problems))))
        else:
            ctx.ok("C11.templates", key)
    # indexes_string: one distinct index per dimension
    ctx.instance("C11.templates")
    inner = ix.func(f"{T_MOD}.evaluate_binary_operator.<locals>.indexes_string").node
    if "','.join((f'i{i}' for i in range(tensor.order)))" in u(inner):
        ctx.ok("C11.templates", "tensor.py:evaluate_binary_operator.indexes_string")
    else:
        ctx.fail("C11.templates", "tensor.py:evaluate_binary_operator.indexes_string", "index list is not one distinct index per dimension of the operand")
    # indexes come from the tensor operand
    s = u(f.node)
    ctx.instance("C11.templates")
    n_left = s.count("indexes = indexes_string(left)")
    n_right = s.count("indexes = indexes_string(right)")
    if n_left == 2 and n_right == 1:
        ctx.ok("C11.templates", "tensor.py:evaluate_binary_operator:index list from the tensor operand")
    else:
        ctx.fail("C11.templates", "tensor.py:evaluate_binary_operator:index list from the tensor operand", "index list is not computed from the tensor operand of each case")
    # matmul: four einsum strings
    g = ix.func(f"{T_MOD}.evaluate_matrix_multiplication_operator")
    mcalls = [c for c in ix.calls_in(g) if u(c.func) == "evaluate_tensora"]
    want = {
        (1, 1): ("output() = left(i) * right(i)", "left.dimensions != right.dimensions", "''"),
        (2, 1): ("output(i) = left(i,j) * right(j)", "left.dimensions[1] != right.dimensions[0]", "output_format"),
        (1, 2): ("output(j) = left(i) * right(i,j)", "left.dimensions[0] != right.dimensions[0]", "output_format"),
        (2, 2): ("output(i,k) = left(i,j) * right(j,k)", "left.dimensions[1] != right.dimensions[0]", "output_format"),
    }
    seen = set()
    for c in mcalls:
        tests = [u(t) for t in arm_tests(g.node, c)]
        m = None
        for t in tests:
            m = m or re.fullmatch(r"left\.order == (\d) and right\.order == (\d)", t)
        ctx.instance("C11.templates")
        if not m:
            ctx.fail("C11.templates", f"tensor.py:evaluate_matrix_multiplication_operator:{norm(c)[:50]}", "einsum call not under an order test")
            continue
        case = (int(m.group(1)), int(m.group(2)))
        seen.add(case)
        key = f"tensor.py:evaluate_matrix_multiplication_operator:orders {case}"
        text = instantiate_template(c.args[0], {})
        problems = []
        if case not in want:
            problems.append("unexpected order case")
        else:
            wtext, wguard, wfmt = want[case]
            if text is None or not einsum_equal(text, wtext):
                problems.append(f"assignment `{text}` is not the product contracting the shared dimension (`{wtext}` up to index renaming)")
            # shape guard dominates the call and raises ValueError
            doms = dominators_of(g.node, c)
            guards = [d for d in doms if isinstance(d, ast.If) and d.body and isinstance(d.body[-1], ast.Raise) and "ValueError" in u(d.body[-1])]
            if not any(u(d.test) == wguard for d in guards):
                problems.append(f"the shape guard `{wguard}` -> ValueError does not dominate the call")
            kw = {k.arg: u(k.value) for k in c.keywords}
            if kw != {"left": "left", "right": "right"}:
                problems.append(f"operands bound as {kw}")
        if problems:
            ctx.fail("C11.templates", key, "; ".join(problems))
        else:
            ctx.ok("C11.templates", key)
    for case in sorted(set(want) - seen):
        ctx.fail("C11.templates", f"tensor.py:evaluate_matrix_multiplication_operator:orders {case}", "no einsum for this order case")
    # binary operator shape guard
    ctx.instance("C11.templates")
    tt = [c for c, t in zip(calls, kinds) if t.startswith("isinstance(left, Tensor) and isinstance(right, Tensor)")]
    ok = False
    if tt:
        doms = dominators_of(f.node, tt[0])
        ok = any(isinstance(d, ast.If) and u(d.test) == "left.dimensions != right.dimensions" and d.body and isinstance(d.body[-1], ast.Raise) and "ValueError" in u(d.body[-1]) for d in doms)
    if ok:
        ctx.ok("C11.templates", "tensor.py:evaluate_binary_operator:shape guard")
    else:
        ctx.fail("C11.templates", "tensor.py:evaluate_binary_operator:shape guard", "`left.dimensions != right.dimensions` -> ValueError does not dominate the element-wise evaluation")
    # NotImplemented for non-Tensor / non-Real operands
    for fn, q in ((f.node, "evaluate_binary_operator"), (g.node, "evaluate_matrix_multiplication_operator")):
        ctx.instance("C11.templates")
        last = fn.body[-1]
        cur = last
        while isinstance(cur, ast.If) and len(cur.orelse) == 1 and isinstance(cur.orelse[0], ast.If):
            cur = cur.orelse[0]
        ok = isinstance(cur, ast.If) and cur.orelse and u(cur.orelse[-1]) == "return NotImplemented"
        if ok:
            ctx.ok("C11.templates", f"tensor.py:{q}:NotImplemented")
        else:
            ctx.fail("C11.templates", f"tensor.py:{q}:NotImplemented", "unsupported operand types do not return NotImplemented")


def einsum_equal(a, b):
    """Equality of two assignment strings up to a bijective renaming of indexes."""
    def parse(s):
        m = re.match(r"^(\w+)\(([\w,]*)\) = (\w+)\(([\w,]*)\) \* (\w+)\(([\w,]*)\)$", s)
        if not m:
            return None
        o, oi, l, li, r, ri = m.groups()
        return (o, l, r), [x.split(",") if x else [] for x in (oi, li, ri)]
    pa, pb = parse(a), parse(b)
    if not pa or not pb or pa[0] != pb[0]:
        return False
    ren = {}
    rev = {}
    for xs, ys in zip(pa[1], pb[1]):
        if len(xs) != len(ys):
            return False
        for x, y in zip(xs, ys):
            if ren.setdefault(x, y) != y or rev.setdefault(y, x) != x:
                return False
    return True


def rule_format_tables(ctx, ix):
    """Truth tables of the conditional expressions choosing the output format."""
    ctx.rule("C11.format-rules", "output format: intersection of density for *, union for + and -, operand's format for scalars", min_instances=5)
    f = ix.func(f"{T_MOD}.evaluate_binary_operator")
    # find the two generator expressions "d" if <cond> else "s"
    comps = []
    for n in ast.walk(f.node):
        if isinstance(n, ast.GeneratorExp) and isinstance(n.elt, ast.IfExp):
            tests = [u(t) for t in arm_tests(f.node, n)]
            comps.append((n, tests))
    found = {}
    for n, tests in comps:
        op = None
        for t in tests:
            if t == "operator == '*'":
                op = "*"
            elif t in ("operator in ('+', '-')", "operator in ('-', '+')"):
                op = "+-"
        if op is None:
            continue
        g = n.generators[0]
        if not (u(g.iter) == "zip(left.format.modes, right.format.modes, strict=True)" and isinstance(g.target, ast.Tuple)):
            found[op] = "modes are not zipped level by level (strict)"
            continue
        a, b = (u(e) for e in g.target.elts)
        table = {}
        for va, vb in itertools.product(("dense", "compressed"), repeat=2):
            env = {a: va, b: vb}
            table[(va, vb)] = eval_ifexp(n.elt, env)
        want = {
            "*": {(x, y): "d" if x == "dense" and y == "dense" else "s" for x, y in table},
            "+-": {(x, y): "d" if x == "dense" or y == "dense" else "s" for x, y in table},
        }[op]
        found[op] = None if table == want else f"truth table {table}"
    for op, label in (("*", "* => dense iff both dense"), ("+-", "+,- => dense iff either dense")):
        ctx.instance("C11.format-rules")
        key = f"tensor.py:evaluate_binary_operator:{label}"
        if op not in found:
            ctx.fail("C11.format-rules", key, "format rule not found")
        elif found[op]:
            ctx.fail("C11.format-rules", key, found[op])
        else:
            ctx.ok("C11.format-rules", key)
    # scalar cases
    s = u(f.node)
    for label, frag in (
        ("tensor * scalar keeps the tensor's format", "output_format = left.format.deparse()"),
        ("scalar * tensor keeps the tensor's format", "output_format = right.format.deparse()"),
        ("tensor +- scalar is dense", "output_format = 'd' * left.order"),
        ("scalar +- tensor is dense", "output_format = 'd' * right.order"),
    ):
        ctx.instance("C11.format-rules")
        if frag in s:
            ctx.ok("C11.format-rules", f"tensor.py:evaluate_binary_operator:{label}")
        else:
            ctx.fail("C11.format-rules", f"tensor.py:evaluate_binary_operator:{label}", f"`{frag}` not found")
    # the computed format is what is passed
    ctx.instance("C11.format-rules")
    calls = [c for c in ix.calls_in(f) if u(c.func) == "evaluate_tensora"]
    if all(len(c.args) >= 2 and u(c.args[1]) == "output_format" for c in calls):
        ctx.ok("C11.format-rules", "tensor.py:evaluate_binary_operator:format passed")
    else:
        ctx.fail("C11.format-rules", "tensor.py:evaluate_binary_operator:format passed", "the computed output format is not what is passed to evaluate_tensora")
    # matmul: modes of the operands' outer dimensions
    g = ix.func(f"{T_MOD}.evaluate_matrix_multiplication_operator")
    s = u(g.node)
    for label, frags in (
        ("matrix @ vector takes the matrix's row mode", ["output_format = left.format.modes[left.format.ordering[0]].character"]),
        ("vector @ matrix takes the matrix's column mode", ["output_format = right.format.modes[right.format.ordering[1]].character"]),
        (
            "matrix @ matrix takes row mode of left and column mode of right",
            [
                "left_output_format = left.format.modes[left.format.ordering[0]].character",
                "right_output_format = right.format.modes[right.format.ordering[1]].character",
                "output_format = left_output_format + right_output_format",
            ],
        ),
    ):
        ctx.instance("C11.format-rules")
        alts = [frags, [x.replace("left.format.modes[left.format.ordering[0]]", "left.format.modes[left.format.ordering.index(0)]").replace("right.format.modes[right.format.ordering[1]]", "right.format.modes[right.format.ordering.index(1)]") for x in frags]]
        if any(all(fr in s for fr in a) for a in alts):
            ctx.ok("C11.format-rules", f"tensor.py:evaluate_matrix_multiplication_operator:{label}")
        else:
            ctx.fail("C11.format-rules", f"tensor.py:evaluate_matrix_multiplication_operator:{label}", "format rule not found")


def eval_ifexp(e, env):
    """Evaluate `"d" if cond else "s"` where cond is and/or of `name == Mode.member`."""
    def cond(c):
        if isinstance(c, ast.BoolOp):
            vals = [cond(v) for v in c.values]
            return all(vals) if isinstance(c.op, ast.And) else any(vals)
        if isinstance(c, ast.Compare) and len(c.ops) == 1 and isinstance(c.left, ast.Name):
            rhs = u(c.comparators[0])
            if rhs.startswith("Mode."):
                eq = env[c.left.id] == rhs[5:]
                return eq if isinstance(c.ops[0], ast.Eq) else (not eq) if isinstance(c.ops[0], ast.NotEq) else None
        if isinstance(c, ast.UnaryOp) and isinstance(c.op, ast.Not):
            return not cond(c.operand)
        raise ValueError(u(c))

    try:
        return (e.body.value if cond(e.test) else e.orelse.value)
    except Exception as ex:  # noqa: BLE001
        return f"? {ex}"
