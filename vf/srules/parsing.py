"""C12: grammar shape => meaning, printer/parser agreement, literal closure, exception escape in
parser callbacks, rejection coverage, sibling identity."""

from __future__ import annotations

import ast
import copy
import re

from ..common import AnalysisError
from .core import SourceIndex, import_tensora

P_MOD = "tensora.expression._parser"
A_MOD = "tensora.expression.ast"
FP_MOD = "tensora.format._parser"
F_MOD = "tensora.format._format"


def class_assigns(cls: ast.ClassDef):
    return {
        s.targets[0].id: s.value
        for s in cls.body
        if isinstance(s, ast.Assign) and len(s.targets) == 1 and isinstance(s.targets[0], ast.Name)
    }


def strip_map(e):
    """a > f  ->  (a, f)"""
    if isinstance(e, ast.Compare) and len(e.ops) == 1 and isinstance(e.ops[0], ast.Gt):
        return e.left, e.comparators[0]
    return e, None


def u(e):
    return ast.unparse(e)


# ------------------------------------------------------------------------------------------------
def rule_grammar(ctx, ix):
    ctx.rule("C12.grammar", "grammar levels, fold direction and operator/constructor mapping", min_instances=8)
    cls = ix.cls(f"{P_MOD}.TensorExpressionParsers")
    g = class_assigns(cls)

    def check(key, ok, msg):
        ctx.instance("C12.grammar")
        k = f"expression/_parser.py:TensorExpressionParsers:{key}"
        if ok:
            ctx.ok("C12.grammar", k)
        else:
            ctx.fail("C12.grammar", k, msg)

    for nt in ("expression", "term", "factor", "parentheses", "tensor", "number", "assignment"):
        if nt not in g:
            raise AnalysisError(f"anchor vanished: nonterminal {nt} in TensorExpressionParsers")
    # expression = term & rep(lit("+", "-") & term) > splat(make_expression)
    body, fn = strip_map(g["expression"])
    check(
        "expression",
        u(body) in ("term & rep(lit('+', '-') & term)",) and fn is not None and u(fn) == "splat(make_expression)",
        f"expression is `{u(g['expression'])}`, expected term followed by repeated (+|-) term folded by make_expression: "
        "+ and - must sit one level above *",
    )
    body, fn = strip_map(g["term"])
    check(
        "term",
        u(body) == "rep1sep(factor, '*')" and fn is not None and re.fullmatch(r"lambda (\w+): reduce\(Multiply, \1\)", u(fn)) is not None,
        f"term is `{u(g['term'])}`, expected factors separated by * folded from the left with Multiply",
    )
    alts = set(u(g["factor"]).split(" | "))
    check("factor", alts == {"tensor", "number", "parentheses"}, f"factor alternatives are {sorted(alts)}")
    check(
        "parentheses",
        u(g["parentheses"]) == "'(' >> expression << ')'",
        f"parentheses is `{u(g['parentheses'])}`, expected '(' >> expression << ')'",
    )
    body, fn = strip_map(g["assignment"])
    check(
        "assignment",
        u(body) == "tensor & '=' >> expression" and fn is not None and u(fn) == "splat(Assignment)",
        f"assignment is `{u(g['assignment'])}`",
    )
    body, fn = strip_map(g["tensor"])
    check(
        "tensor",
        u(body) == "name & '(' >> (repsep(name, ',') > tuple) << ')'" and fn is not None and u(fn) == "splat(Tensor)",
        f"tensor is `{u(g['tensor'])}`",
    )
    check("number", set(u(g["number"]).split(" | ")) == {"floating_point", "integer"}, f"number is `{u(g['number'])}`")
    # make_expression: left fold, + -> Add, - -> Subtract
    me = ix.func(f"{P_MOD}.make_expression").node
    ok = False
    why = "make_expression is not `value = first; for op, term in rest: value = Op(value, term); return value`"
    params = [a.arg for a in me.args.args]
    stm = [s for s in me.body if not (isinstance(s, ast.Expr) and isinstance(s.value, ast.Constant))]
    if len(params) == 2 and len(stm) == 3 and isinstance(stm[0], ast.Assign) and isinstance(stm[1], ast.For) and isinstance(stm[2], ast.Return):
        acc = u(stm[0].targets[0])
        if u(stm[0].value) == params[0] and u(stm[1].iter) == params[1] and u(stm[2].value) == acc:
            tgt = stm[1].target
            if isinstance(tgt, ast.Tuple) and len(tgt.elts) == 2 and len(stm[1].body) == 1 and isinstance(stm[1].body[0], ast.Match):
                opv, termv = u(tgt.elts[0]), u(tgt.elts[1])
                m = stm[1].body[0]
                arms = {}
                for c in m.cases:
                    if isinstance(c.pattern, ast.MatchValue) and len(c.body) == 1 and isinstance(c.body[0], ast.Assign):
                        arms[ast.literal_eval(c.pattern.value)] = u(c.body[0])
                want = {"+": f"{acc} = Add({acc}, {termv})", "-": f"{acc} = Subtract({acc}, {termv})"}
                if u(m.subject) == opv and arms == want:
                    ok = True
                else:
                    why = f"operator arms are {arms}; left-associative meaning needs {want}"
    check("make_expression", ok, why)


# ------------------------------------------------------------------------------------------------
LEVEL = {"Add": 1, "Subtract": 1, "Multiply": 2}


def deparse_wraps(fn: ast.FunctionDef):
    """{side: set of class names wrapped in parentheses} from
    `if isinstance(self.side, (A, B)): side_string = f"({side_string})"`."""
    out = {"left": set(), "right": set()}
    for node in ast.walk(fn):
        if isinstance(node, ast.If) and isinstance(node.test, ast.Call) and u(node.test.func) == "isinstance" and len(node.test.args) == 2:
            subj = u(node.test.args[0])
            m = re.fullmatch(r"self\.(left|right)", subj)
            if not m:
                continue
            w = node.test.args[1]
            names = [u(x) for x in (w.elts if isinstance(w, ast.Tuple) else [w])]
            wraps = any(
                isinstance(s, ast.Assign) and isinstance(s.value, ast.JoinedStr) and "".join(v.value for v in s.value.values if isinstance(v, ast.Constant)) == "()"
                for s in node.body
            )
            if wraps:
                out[m.group(1)].update(names)
    return out


def rule_printer_parser(ctx, ix):
    ctx.rule("C12.printer-parser", "parentheses required for parse(deparse(t)) == t are a subset of what deparse adds", min_instances=8)
    tokens = {"Add": " + ", "Subtract": " - ", "Multiply": " * "}
    for parent, lp in LEVEL.items():
        fn = ix.func(f"{A_MOD}.{parent}.deparse").node
        wraps = deparse_wraps(fn)
        for side in ("left", "right"):
            for child, lc in LEVEL.items():
                need = lc < lp or (lc == lp and side == "right")
                if not need:
                    continue
                ctx.instance("C12.printer-parser")
                key = f"expression/ast.py:{parent}.deparse:{side}<-{child}"
                if child in wraps[side]:
                    ctx.ok("C12.printer-parser", key)
                else:
                    ctx.fail("C12.printer-parser", key, f"{parent}({side}={child}(...)) is printed without parentheses and re-parses as a different tree")
        # operator token and operand order
        ctx.instance("C12.printer-parser")
        key = f"expression/ast.py:{parent}.deparse:token"
        rets = [n for n in ast.walk(fn) if isinstance(n, ast.Return)]
        txt = u(rets[0].value) if len(rets) == 1 else ""
        good = txt in (f"left_string + '{tokens[parent]}' + right_string", f"f'{{left_string}}{tokens[parent]}{{right_string}}'")
        lefts = [s for s in ast.walk(fn) if isinstance(s, ast.Assign) and u(s.targets[0]) == "left_string" and u(s.value) == "self.left.deparse()"]
        rights = [s for s in ast.walk(fn) if isinstance(s, ast.Assign) and u(s.targets[0]) == "right_string" and u(s.value) == "self.right.deparse()"]
        if good and lefts and rights:
            ctx.ok("C12.printer-parser", key)
        else:
            ctx.fail("C12.printer-parser", key, f"{parent}.deparse returns `{txt}`; the grammar maps `{tokens[parent].strip()}` to {parent} with operands in order")
    # Tensor / Assignment deparse
    ctx.instance("C12.printer-parser")
    fn = ix.func(f"{A_MOD}.Tensor.deparse").node
    rets = [n for n in ast.walk(fn) if isinstance(n, ast.Return)]
    if len(rets) == 1 and u(rets[0].value) == "self.name + '(' + ','.join(self.indexes) + ')'":
        ctx.ok("C12.printer-parser", "expression/ast.py:Tensor.deparse")
    else:
        ctx.fail("C12.printer-parser", "expression/ast.py:Tensor.deparse", "tensor is not printed as name(index,...)")
    ctx.instance("C12.printer-parser")
    fn = ix.func(f"{A_MOD}.Assignment.deparse").node
    rets = [n for n in ast.walk(fn) if isinstance(n, ast.Return)]
    if len(rets) == 1 and u(rets[0].value) == "self.target.deparse() + ' = ' + self.expression.deparse()":
        ctx.ok("C12.printer-parser", "expression/ast.py:Assignment.deparse")
    else:
        ctx.fail("C12.printer-parser", "expression/ast.py:Assignment.deparse", "assignment is not printed as target = expression")


def rule_format_printer_parser(ctx, ix):
    import_tensora(ctx.src)
    from tensora.format import Mode

    ctx.rule("C12.format-printer-parser", "Format.deparse vs the two alternatives of the format grammar", min_instances=5)
    cls = ix.cls(f"{FP_MOD}.FormatParsers")
    g = class_assigns(cls)

    def check(key, ok, msg):
        ctx.instance("C12.format-printer-parser")
        if ok:
            ctx.ok("C12.format-printer-parser", key)
        else:
            ctx.fail("C12.format-printer-parser", key, msg)

    chars = {}
    for nt in ("dense", "compressed"):
        body, fn = strip_map(g.get(nt, ast.Constant(None)))
        m = re.fullmatch(r"lit\('(\w)'\)", u(body))
        mm = re.fullmatch(r"constant\(Mode\.(\w+)\)", u(fn)) if fn is not None else None
        if m and mm:
            chars[mm.group(1)] = m.group(1)
    want = {m.name: m.character for m in Mode}
    check("format/_parser.py:FormatParsers:mode characters", chars == want, f"grammar maps {chars}, Mode.character is {want}")
    check("format/_parser.py:FormatParsers:mode", set(u(g["mode"]).split(" | ")) == {"dense", "compressed"}, f"mode is `{u(g['mode'])}`")
    body, fn = strip_map(g["format_without_orderings"])
    check(
        "format/_parser.py:FormatParsers:format_without_orderings",
        u(body) == "rep(mode)" and fn is not None and re.fullmatch(r"lambda (\w+): Format\(tuple\(\1\), tuple\(range\(len\(\1\)\)\)\)", u(fn)) is not None,
        f"bare modes must mean the natural ordering: `{u(g['format_without_orderings'])}`",
    )
    body, fn = strip_map(g["format_with_orderings"])
    check(
        "format/_parser.py:FormatParsers:format_with_orderings",
        u(body) == "rep(mode & integer)" and fn is not None and u(fn) == "make_format_with_orderings",
        f"`{u(g['format_with_orderings'])}`",
    )
    check(
        "format/_parser.py:FormatParsers:format",
        set(u(g["format"]).split(" | ")) == {"format_without_orderings", "format_with_orderings"},
        f"format is `{u(g['format'])}`",
    )
    mf = ix.func(f"{FP_MOD}.make_format_with_orderings").node
    src = u(mf)
    check(
        "format/_parser.py:make_format_with_orderings",
        "for mode, ordering in dims" in src and "modes.append(mode)" in src and "orderings.append(ordering)" in src and "return Format(tuple(modes), tuple(orderings))" in src,
        "make_format_with_orderings does not pair each mode with its own ordering digit",
    )
    # Format.__post_init__ requires a permutation before anything is built
    pi = ix.func(f"{F_MOD}.Format.__post_init__").node
    tests = [u(s.test) for s in pi.body if isinstance(s, ast.If) and any(isinstance(x, ast.Raise) for x in s.body)]
    check(
        "format/_format.py:Format.__post_init__",
        "set(self.ordering) != set(range(len(self.modes)))" in tests,
        f"ordering is not required to be a permutation of the levels (tests: {tests})",
    )


# ------------------------------------------------------------------------------------------------
def regex_of(expr):
    """reg(r'...') -> pattern"""
    if isinstance(expr, ast.Call) and u(expr.func) == "reg" and expr.args and isinstance(expr.args[0], ast.Constant):
        return expr.args[0].value
    return None


def unbounded_digit_runs(pattern: str):
    """Does the regex contain an unbounded repetition of digits? (list of positions)"""
    import re._parser as sre  # noqa: PLC2701

    out = []

    def walk(seq, path):
        for op, av in seq:
            name = str(op)
            if name in ("MAX_REPEAT", "MIN_REPEAT"):
                lo, hi, sub = av
                if hi == sre.MAXREPEAT and is_digits(sub):
                    out.append(path + [name])
                walk(sub, path + [name])
            elif name == "SUBPATTERN":
                walk(av[3], path + [name])
            elif name == "BRANCH":
                for b in av[1]:
                    walk(b, path + [name])

    def is_digits(sub):
        if len(sub) != 1:
            return False
        op, av = sub[0]
        if str(op) == "IN":
            return all((str(o) == "CATEGORY" and "DIGIT" in str(a)) or (str(o) == "RANGE" and a == (48, 57)) for o, a in av)
        return False

    walk(sre.parse(pattern), [])
    return out



# ------------------------------------------------------------------------------------------------
# reference reading of the expression language ("means what arithmetic says"): * binds tighter than + and -,
# operators of one level associate to the left, parentheses group, literals are non-negative decimal
# integers / floats, tensors are name(index,...).  Spaces are the only whitespace.
# ------------------------------------------------------------------------------------------------
_TOK = re.compile(r"[ ]*(?:(\d+\.\d+(?:[Ee][+-]?\d+)?|\d+[Ee][+-]?\d+)|(\d+)|([A-Za-z][A-Za-z0-9]*)|(.))", re.S)


def _tokenize(text):
    out = []
    pos = 0
    text = text.rstrip(" ")
    while pos < len(text):
        m = _TOK.match(text, pos)
        if not m:
            raise ValueError(text)
        pos = m.end()
        if m.group(1):
            out.append(("float", m.group(1)))
        elif m.group(2):
            out.append(("int", m.group(2)))
        elif m.group(3):
            out.append(("name", m.group(3)))
        else:
            out.append(("sym", m.group(4)))
    return out


def _parse_model(text, assignment):
    toks = _tokenize(text)
    p = [0]

    def peek():
        return toks[p[0]] if p[0] < len(toks) else (None, None)

    def eat(kind=None, val=None):
        k, v = peek()
        if k is None or (kind and k != kind) or (val and v != val):
            raise ValueError(f"unexpected {v!r} in {text!r}")
        p[0] += 1
        return v

    def tensor():
        name = eat("name")
        eat("sym", "(")
        idx = []
        if peek() != ("sym", ")"):
            idx.append(eat("name"))
            while peek() == ("sym", ","):
                eat()
                idx.append(eat("name"))
        eat("sym", ")")
        return ("Tensor", name, tuple(idx))

    def factor():
        k, v = peek()
        if k == "sym" and v == "(":
            eat()
            e = expression()
            eat("sym", ")")
            return e
        if k == "int":
            eat()
            return ("Integer", int(v))
        if k == "float":
            eat()
            return ("Float", float(v))
        return tensor()

    def term():
        e = factor()
        while peek() == ("sym", "*"):
            eat()
            e = ("Multiply", e, factor())
        return e

    def expression():
        e = term()
        while peek() in (("sym", "+"), ("sym", "-")):
            op = eat()
            e = ("Add" if op == "+" else "Subtract", e, term())
        return e

    if assignment:
        t = tensor()
        eat("sym", "=")
        e = ("Assignment", t, expression())
    else:
        e = expression()
    if p[0] != len(toks):
        raise ValueError(f"trailing text in {text!r}")
    return e


def parse_model_expression(text):
    return _parse_model(text, False)


def parse_model_assignment(text):
    return _parse_model(text, True)


EXPRESSION_CORPUS = [
    "a(i) + b(i) * c(i)", "a(i) * b(i) + c(i)", "a(i) - b(i) - c(i)", "a(i) - (b(i) - c(i))", "a(i) + b(i) - c(i) + d(i)",
    "a(i) * (b(i) + c(i))", "(a(i) + b(i)) * c(i)", "a(i) * b(i) * c(i)", "a(i) * (b(i) * c(i))", "(a(i))", "((a(i) + 2)) * 3",
    "a(i)+b(i)", "a(i)  *  b(j)", " a( i , j ) ", "a ()", "a()", "A1(i1,j2)", "2", "007", "2.5", "1e5", "1E-3", "2.5e+10", "0.0", "10 * a(i)",
    "2 * 3 + 4", "2 + 3 * 4", "1 - 2 - 3", "2 * a(i) - 3.5 * b(i,j) * c(j)",
    # not in the language
    "", " ", "a(i) +", "a(i) b(i)", "a(i,)", "a(,i)", "(a(i)", "a(i))", "a_b(i)", "1a(i)", "a(i) ** b(i)",
    "a(i) / b(i)", "1.", ".5", "1.e5", "a", "a(i", "a(1)", "a(i)(j)", "2 3", "()", "a(i) + ()", "a(i) = b(i)",
]
# Sentences of conventional arithmetic that the grammar need not accept (signs).  If it does accept one, the tree
# must MEAN what arithmetic says: compared as polynomials over the tensor references, with Python's own reading of
# the text as the reference (unary minus binds tighter than binary + and -).
OPTIONAL_CORPUS = [
    "- a(i)", "-a(i) + b(i)", "-a(i) - b(i)", "a(i) * -b(i) + c(i)", "a(i) * - 2", "-2 + a()", "-(a(i) + b(i)) + c(i)", "a(i) - -b(i)",
    "+ a(i)", "+a(i) - b(i)", "-a(i) * b(i) + c(i)", "2 * -a(i) * 3 - b(i)",
]


def meaning_of_tree(t):
    from .symint import Poly

    k = t[0]
    if k == "Tensor":
        return Poly.atom(f"{t[1]}[{','.join(t[2])}]")
    if k == "Integer":
        return Poly.const(int(t[1]))
    if k == "Float":
        if float(t[1]) != int(float(t[1])):
            raise ValueError("non-integral literal")
        return Poly.const(int(float(t[1])))
    if k in ("Add", "Subtract", "Multiply"):
        a, b = meaning_of_tree(t[1]), meaning_of_tree(t[2])
        return a + b if k == "Add" else a - b if k == "Subtract" else a * b
    if k == "Assignment":
        return meaning_of_tree(t[2])
    raise ValueError(f"unknown node {k}")


def meaning_of_text(text):
    """Python's reading of the arithmetic text (tensor references become atoms)."""
    from .symint import Poly

    atoms = {}

    def ref(m):
        key = f"T{len(atoms)}"
        atoms[key] = f"{m.group(1)}[{','.join(x.strip() for x in m.group(2).split(',') if x.strip())}]"
        return key

    py = re.sub(r"([A-Za-z][A-Za-z0-9]*)\s*\(([A-Za-z0-9, ]*)\)", ref, text)
    tree = ast.parse(py.strip(), mode="eval").body

    def ev(n):
        if isinstance(n, ast.BinOp) and isinstance(n.op, (ast.Add, ast.Sub, ast.Mult)):
            a, b = ev(n.left), ev(n.right)
            return a + b if isinstance(n.op, ast.Add) else a - b if isinstance(n.op, ast.Sub) else a * b
        if isinstance(n, ast.UnaryOp) and isinstance(n.op, (ast.USub, ast.UAdd)):
            return -ev(n.operand) if isinstance(n.op, ast.USub) else ev(n.operand)
        if isinstance(n, ast.Constant) and isinstance(n.value, int):
            return Poly.const(n.value)
        if isinstance(n, ast.Name) and n.id in atoms:
            return Poly.atom(atoms[n.id])
        raise ValueError(ast.dump(n))

    return ev(tree)


ASSIGNMENT_CORPUS = [
    "y(i) = A(i,j) * x(j)", "y() = 2", "y(i)=a(i)", "  y(i)  =  a(i) + 1  ", "y(i,j) = a(i) * b(j) - c(i,j)", "y(i) = (a(i))",
    "y = 2", "y(i) = ", "= a(i)", "y(i) == a(i)", "y(i) = a(i) = b(i)", "y(i)", "2 = a(i)", "(y(i)) = a(i)", "y(i) + z(i) = a(i)",
]

INT_SAMPLES = ["0", "7", "007", "00", "010", "1234567890", "9" * 40]
FLOAT_SAMPLES = ["0.0", "1.5", "01.5", "123.456", "1e5", "1E5", "001e2", "1e+16", "1e-07", "1.5e+300", "2.2250738585072014e-308", "5e-324", "1.7976931348623157e+308"]
# conversions of the token text that cannot raise on the sample languages above, with the language they need
TOTAL_ON = {
    "int": lambda smp: all(_total(int, x) for x in smp),
    "float": lambda smp: all(_total(float, x) for x in smp),
}
PREDICATES = {"isdigit", "isdecimal", "isnumeric", "isascii"}


def _total(f, x):
    try:
        f(x)
        return True
    except Exception:  # noqa: BLE001
        return False


def mapped_tokens(g):
    """[(nonterminal, [(token name, regex)], converter expr)] for every `X > conv` of the grammar class whose
    X is made of reg(...) tokens only (directly, or through nonterminals that are bare reg(...))."""
    bare = {n: regex_of(e) for n, e in g.items() if regex_of(e) is not None}
    out = []
    for n, e in g.items():
        body, fn = strip_map(e)
        if fn is None:
            continue
        toks = []
        ok = True
        work = [body]
        while work:
            x = work.pop()
            if isinstance(x, ast.BinOp) and isinstance(x.op, ast.BitOr):
                work += [x.left, x.right]
            elif regex_of(x) is not None:
                toks.append((n, regex_of(x)))
            elif isinstance(x, ast.Name) and x.id in bare:
                toks.append((x.id, bare[x.id]))
            else:
                ok = False
        if ok and toks:
            out.append((n, toks, fn))
    return out


def converter_paths(ix, module, fn):
    """Resolve a converter (lambda / builtin name / function / Class.method) to (param, [(guards, return expr)],
    calls-on-param), substituting single-assignment locals. None if it cannot be resolved."""
    if isinstance(fn, ast.Lambda) and len(fn.args.args) == 1:
        return fn.args.args[0].arg, [((), fn.body)], "lambda"
    if isinstance(fn, ast.Name) and fn.id in ("int", "float"):
        return "x", [((), ast.parse(f"{fn.id}(x)", mode="eval").body)], fn.id
    q = None
    if isinstance(fn, ast.Name):
        q = ix.resolve_name(module, fn.id) if hasattr(ix, "resolve_name") else None
        if q is None:
            for cand in (f"{module}.{fn.id}", f"{A_MOD}.{fn.id}"):
                if cand in ix.funcs:
                    q = cand
    elif isinstance(fn, ast.Attribute) and isinstance(fn.value, ast.Name):
        for cand in (f"{A_MOD}.{fn.value.id}.{fn.attr}", f"{module}.{fn.value.id}.{fn.attr}"):
            if cand in ix.funcs:
                q = cand
    if q is None or q not in ix.funcs:
        return None
    node = ix.funcs[q].node
    args = [a.arg for a in node.args.args if a.arg not in ("self", "cls")]
    if len(args) != 1:
        return None
    param = args[0]
    paths = []

    class Sub(ast.NodeTransformer):
        def __init__(self, env):
            self.env = env

        def visit_Name(self, n):
            return self.env.get(n.id, n) if isinstance(n.ctx, ast.Load) else n

    def walk(body, guards, env):
        for i, st in enumerate(body):
            if isinstance(st, ast.Expr) and isinstance(st.value, ast.Constant):
                continue
            if isinstance(st, ast.Assign) and len(st.targets) == 1 and isinstance(st.targets[0], ast.Name):
                env = dict(env)
                env[st.targets[0].id] = Sub(env).visit(ast.parse(u(st.value), mode="eval").body)
                continue
            if isinstance(st, ast.Return) and st.value is not None:
                paths.append((guards, Sub(env).visit(ast.parse(u(st.value), mode="eval").body)))
                return True
            if isinstance(st, ast.If):
                t = Sub(env).visit(ast.parse(u(st.test), mode="eval").body)
                r1 = walk(st.body, guards + ((t, True),), env)
                r2 = walk(st.orelse, guards + ((t, False),), env) if st.orelse else False
                if r1 and r2:
                    return True
                if r1 and not st.orelse:
                    guards = guards + ((t, False),)
                    continue
                if not r1 and not r2:
                    continue
                paths.append((guards, None))
                return True
            paths.append((guards, None))  # statement kind not modelled
            return True
        return False

    walk(node.body, (), {})
    return param, paths, q


def rule_literals(ctx, ix):
    ctx.rule("C12.literal-closure", "text produced by Integer/Float.deparse lies in the literal grammar and re-parses to the same node", min_instances=4)
    ctx.rule("C12.literal-tokens", "every literal token's converter is total on the token's language and builds the node of the token's kind from its exact value", min_instances=2)
    g = class_assigns(ix.cls(f"{P_MOD}.TensorExpressionParsers"))
    toks = mapped_tokens(g)
    lit = [(n, t, fn) for n, t, fn in toks if any(re.fullmatch(r, "0") or re.fullmatch(r, "1.5") for _, r in t) and not any(re.fullmatch(r, "a") for _, r in t)]
    if not lit:
        raise AnalysisError("anchor vanished: no numeric literal token with a converter in TensorExpressionParsers")
    ire = fre = None
    for nt, tl, fn in lit:
        res = converter_paths(ix, P_MOD, fn)
        for tname, r in tl:
            ctx.instance("C12.literal-tokens")
            key = f"expression/_parser.py:{tname}"
            ints = [x for x in INT_SAMPLES if re.fullmatch(r, x)]
            flts = [x for x in FLOAT_SAMPLES if re.fullmatch(r, x)]
            kind = "int" if ints and not flts else "float" if flts and not ints else None
            if kind == "int":
                ire = r
            elif kind == "float":
                fre = r
            if kind is None:
                ctx.fail("C12.literal-tokens", key, f"token `{r}` matches both integer and float spellings (or neither): ambiguous literal kind")
                continue
            if res is None:
                ctx.fail("C12.literal-tokens", key, f"converter `{u(fn)}` cannot be resolved to a function of the token text")
                continue
            param, paths, where = res
            want_cls, want_conv = ("Integer", "int") if kind == "int" else ("Float", "float")
            samples = ints if kind == "int" else flts
            problems = []
            chosen = []
            for guards, ret in paths:
                # which paths can this token kind take?  guards understood: <param>.isdigit()/isdecimal()
                feasible = True
                for t, val in guards:
                    m = re.fullmatch(rf"{param}\.(\w+)\(\)", u(t))
                    if m and m.group(1) in PREDICATES:
                        truth = {getattr(x, m.group(1))() for x in samples}
                        if truth == {not val}:
                            feasible = False
                        elif len(truth) != 1:
                            problems.append(f"guard `{u(t)}` splits the token's own language")
                    else:
                        problems.append(f"guard `{u(t)}` on the converter's path is not a recognised predicate of the token text")
                if feasible:
                    chosen.append(ret)
            for ret in chosen:
                if ret is None:
                    problems.append("converter has a path that is not `return <node>`")
                    continue
                calls = [c for c in ast.walk(ret) if isinstance(c, ast.Call) and any(isinstance(a, ast.Name) and a.id == param for a in c.args)]
                for c in calls:
                    fnm = u(c.func)
                    if fnm in TOTAL_ON:
                        if not TOTAL_ON[fnm](samples):
                            problems.append(f"`{u(c)}` raises on spellings of this token such as {[x for x in samples if not _total(eval(fnm), x)][:2]}")
                    elif fnm not in (want_cls,):
                        problems.append(f"`{u(c)}` is applied to the token text: not a conversion known to be total on `{r}` (an exception here escapes the parser)")
                if u(ret) != f"{want_cls}({want_conv}({param}))":
                    if not any("is applied to the token text" in p_ for p_ in problems):
                        problems.append(f"token of kind {kind} becomes `{u(ret)}`, expected `{want_cls}({want_conv}({param}))`")
            if not chosen:
                problems.append("no converter path is feasible for this token")
            if problems:
                ctx.fail("C12.literal-tokens", key, f"converter {where}: " + "; ".join(sorted(set(problems))))
            else:
                ctx.ok("C12.literal-tokens", key + f" -> {want_cls}({want_conv}(text))")
    if fre is None or ire is None:
        raise AnalysisError("anchor vanished: integer / float literal tokens of TensorExpressionParsers")
    for cname in ("Integer", "Float"):
        ctx.instance("C12.literal-closure")
        fn = ix.func(f"{A_MOD}.{cname}.deparse").node
        rets = [n for n in ast.walk(fn) if isinstance(n, ast.Return)]
        key = f"expression/ast.py:{cname}.deparse"
        if len(rets) == 1 and u(rets[0].value) in ("str(self.value)", "repr(self.value)"):
            ctx.ok("C12.literal-closure", key)
        else:
            ctx.fail("C12.literal-closure", key, "literal is not printed with str(value)")
    # str(int) for the non-negative ints the grammar can produce is [0-9]+
    ctx.instance("C12.literal-closure")
    if re.fullmatch(ire, "0") and re.fullmatch(ire, "1234567890") and not re.fullmatch(ire, "-1"):
        ctx.ok("C12.literal-closure", "expression/_parser.py:integer")
    else:
        ctx.fail("C12.literal-closure", "expression/_parser.py:integer", f"integer literal grammar `{ire}` does not contain str(int) of every non-negative int")
    # every finite float repr shape is in the float regex and not in the integer regex
    ctx.instance("C12.literal-closure")
    shapes = ["0.0", "1.5", "123.456", "1e+16", "1e-07", "1.5e+300", "2.2250738585072014e-308", "5e-324", "1.7976931348623157e+308"]
    bad = [s for s in shapes if not re.fullmatch(fre, s) or re.fullmatch(ire, s)]
    if not bad:
        ctx.ok("C12.literal-closure", "expression/_parser.py:floating_point:finite reprs")
    else:
        ctx.fail("C12.literal-closure", "expression/_parser.py:floating_point:finite reprs", f"finite float repr shapes {bad} are not in the float grammar `{fre}`")
    # non-finite: the grammar admits unbounded exponents/mantissas, float() saturates to inf, str gives 'inf'
    ctx.instance("C12.literal-closure")
    key = "expression/_parser.py:floating_point:unbounded exponent -> float() == inf -> deparse 'inf'"
    runs = unbounded_digit_runs(fre)
    if runs and not re.fullmatch(fre, "inf"):
        ctx.fail(
            "C12.literal-closure",
            key,
            "the float grammar admits arbitrarily large literals (unbounded digit runs), float() returns inf for them, and "
            "Float.deparse prints `inf`, which is not in the grammar: parse(deparse(t)) fails",
        )
    else:
        ctx.ok("C12.literal-closure", key)


# ------------------------------------------------------------------------------------------------
def rule_parser_escape(ctx, ix):
    ctx.rule("C12.parser-escape", "exceptions raised inside parser callbacks are converted to Failure by the parse_* functions", min_instances=5)
    # raises of constructors' __post_init__
    def raised_in(qual):
        f = ix.func(qual)
        out = set()
        for n in ast.walk(f.node):
            if isinstance(n, ast.Raise) and n.exc is not None:
                e = n.exc.func if isinstance(n.exc, ast.Call) else n.exc
                out.add(u(e))
        return out

    def caught_by(qual):
        f = ix.func(qual)
        out = set()
        for n in ast.walk(f.node):
            if isinstance(n, ast.ExceptHandler) and n.type is not None:
                ts = n.type.elts if isinstance(n.type, ast.Tuple) else [n.type]
                # handler must return a Failure
                if any(isinstance(s, ast.Return) and "Failure" in u(s) for s in n.body):
                    out |= {u(t) for t in ts}
        return out

    table = [
        (f"{P_MOD}.parse_assignment", f"{A_MOD}.Assignment.__post_init__", "expression/_parser.py:parse_assignment"),
        (f"{FP_MOD}.parse_format", f"{F_MOD}.Format.__post_init__", "format/_parser.py:parse_format"),
        (f"{FP_MOD}.parse_named_format", f"{F_MOD}.Format.__post_init__", "format/_parser.py:parse_named_format"),
    ]
    for parse_fn, ctor, key in table:
        raised = raised_in(ctor)
        caught = caught_by(parse_fn)
        for e in sorted(raised):
            ctx.instance("C12.parser-escape")
            k = f"{key}:{e}"
            if e in caught:
                ctx.ok("C12.parser-escape", k)
            else:
                ctx.fail("C12.parser-escape", k, f"{e} raised by {ctor.rsplit('.', 2)[-2]}.__post_init__ inside a parser callback is not converted to Failure")
        # the parse call itself must be inside the try
        f = ix.func(parse_fn)
        ctx.instance("C12.parser-escape")
        tries = [n for n in ast.walk(f.node) if isinstance(n, ast.Try)]
        inside = any(any(isinstance(c, ast.Call) and isinstance(c.func, ast.Attribute) and c.func.attr == "parse" for c in ast.walk(ast.Module(body=t.body, type_ignores=[]))) for t in tries)
        if inside:
            ctx.ok("C12.parser-escape", f"{key}:parse call inside try")
        else:
            ctx.fail("C12.parser-escape", f"{key}:parse call inside try", "the .parse(...) call is not covered by the handler")
    # int() on an unbounded digit run: ValueError beyond sys.get_int_max_str_digits()
    for mod, clsname, nt, path in (
        (P_MOD, "TensorExpressionParsers", "integer", "expression/_parser.py"),
        (FP_MOD, "FormatParsers", "integer", "format/_parser.py"),
    ):
        g = class_assigns(ix.cls(f"{mod}.{clsname}"))
        body, fn = strip_map(g[nt])
        pat = regex_of(body)
        ctx.instance("C12.parser-escape")
        key = f"{path}:{clsname}.{nt}:int() on unbounded digits"
        uses_int = fn is not None and "int" in {n.id for n in ast.walk(fn) if isinstance(n, ast.Name)}
        parse_fns = [q for q in (f"{mod}.parse_assignment", f"{mod}.parse_format", f"{mod}.parse_named_format") if q in ix.funcs]
        catches_value_error = all("ValueError" in caught_by(q) or "Exception" in caught_by(q) for q in parse_fns)
        if pat and uses_int and unbounded_digit_runs(pat) and not catches_value_error:
            ctx.fail(
                "C12.parser-escape",
                key,
                "int() is applied to an unbounded run of digits: beyond the interpreter's int-string limit (4300 digits) it raises "
                "ValueError inside the parser callback, which parse_* does not convert to Failure",
            )
        else:
            ctx.ok("C12.parser-escape", key)
    # unbounded recursion: grammar cycle and recursive tree methods
    ctx.instance("C12.parser-escape")
    key = "expression/_parser.py:TensorExpressionParsers:recursion depth (grammar cycle through parentheses; recursive variables()/deparse()/index_participants())"
    g = class_assigns(ix.cls(f"{P_MOD}.TensorExpressionParsers"))
    cyc = "expression" in u(g["parentheses"]) and "parentheses" in u(g["factor"])
    rec_methods = []
    for c in ("Add", "Subtract", "Multiply"):
        for m in ("variables", "deparse", "index_participants"):
            q = f"{A_MOD}.{c}.{m}"
            if q in ix.funcs and re.search(rf"self\.(left|right)\.{m}\(\)|merge_index_participants\(self\.left", u(ix.funcs[q].node)):
                rec_methods.append(f"{c}.{m}")
    catches_rec = any(x in caught_by(f"{P_MOD}.parse_assignment") for x in ("RecursionError", "RuntimeError", "Exception"))
    if (cyc or rec_methods) and not catches_rec:
        ctx.fail(
            "C12.parser-escape",
            key,
            "nesting depth is unbounded (grammar cycle expression -> ... -> parentheses -> expression; recursive tree methods "
            "called from Assignment.__post_init__ on left-deep sums): RecursionError escapes parse_assignment",
        )
    else:
        ctx.ok("C12.parser-escape", key)


# ------------------------------------------------------------------------------------------------
def rule_rejections(ctx, ix):
    ctx.rule("C12.rejections", "assignment validation covers every right-hand-side tensor; sibling tree methods agree", min_instances=4)
    f = ix.func(f"{A_MOD}.Assignment.__post_init__").node
    body = f.body
    loops = [s for s in body if isinstance(s, ast.For)]
    ctx.instance("C12.rejections")
    key = "expression/ast.py:Assignment.__post_init__:loop over all right-hand-side tensors"
    main = None
    for l in loops:
        if u(l.iter) in ("variables_mapping.items()", "self.expression.variables().items()"):
            main = l
    vm_ok = any(isinstance(s, ast.Assign) and u(s.targets[0]) == "variables_mapping" and u(s.value) == "self.expression.variables()" for s in body)
    if main is not None and (vm_ok or u(main.iter) == "self.expression.variables().items()"):
        ctx.ok("C12.rejections", key)
    else:
        ctx.fail("C12.rejections", key, "validation does not iterate over every name of self.expression.variables()")
        return
    # siblings
    for m in ("variables", "index_participants"):
        ctx.instance("C12.rejections")
        key = f"expression/ast.py:{{Add,Subtract,Multiply}}.{m}"
        dumps = []
        for c in ("Add", "Subtract", "Multiply"):
            node = copy.deepcopy(ix.func(f"{A_MOD}.{c}.{m}").node)
            dumps.append(ast.dump(node.args) + "|" + "\n".join(ast.dump(s) for s in node.body))
        if len(set(dumps)) == 1:
            ctx.ok("C12.rejections", key)
        else:
            ctx.fail("C12.rejections", key, f"sibling implementations of {m}() differ: a dropped operand in one of them blinds the validation")
    # merge_index_participants takes both operands
    ctx.instance("C12.rejections")
    mp = u(ix.func(f"{A_MOD}.merge_index_participants").node)
    if "left.index_participants()" in mp and "right.index_participants()" in mp and "{*left_indexes.keys(), *right_indexes.keys()}" in mp:
        ctx.ok("C12.rejections", "expression/ast.py:merge_index_participants")
    else:
        ctx.fail("C12.rejections", "expression/ast.py:merge_index_participants", "does not merge the participants of both operands over the union of their indexes")


def rule_rejections_semantic(ctx, ix):
    """Assignment.__post_init__ evaluated abstractly (vf/srules/symeval.py) on a bounded-exhaustive set
    of assignment *structures* (names, index tuples, orders; no values exist at this level): reuse of
    the target in any form, a tensor used with two orders, and a name used as both tensor and index must
    raise their typed error; consistent structures must be accepted with the right variable orders."""
    import itertools

    from . import symeval as S

    ctx.rule("C12.rejection-semantics", "abstract evaluation of Assignment.__post_init__ over assignment structures", min_instances=300)
    fn = ix.func(f"{A_MOD}.Assignment.__post_init__").node

    # expression trees are built from nodes that carry the REAL methods of the source classes (variables,
    # index_participants, order, ...), so the validation sees what the tree methods really return
    mro = {"Tensor": ("Tensor", "Expression"), "Integer": ("Integer", "Literal", "Expression"), "Add": ("Add", "Expression"), "Subtract": ("Subtract", "Expression"), "Multiply": ("Multiply", "Expression")}
    meth = {}
    for c, chain in mro.items():
        meth[c] = {}
        for base in reversed(chain):
            for q, f_ in ix.funcs.items():
                if q.rsplit(".", 1)[0] == f"{A_MOD}.{base}":
                    meth[c][f_.name] = f_.node
    MG = {f_.name: f_.node for q, f_ in ix.funcs.items() if f_.module == A_MOD and q == f"{A_MOD}.{f_.name}"}

    def T(name, indexes):
        return S.Obj("Tensor", __structural__=True, __methods__=meth["Tensor"], __bases__=("Expression",), name=name, indexes=tuple(indexes))

    def op(cls, left, right):
        return S.Obj(cls, __structural__=True, __methods__=meth[cls], __bases__=("Expression",), left=left, right=right)

    OPS = ("Add", "Subtract", "Multiply")

    def trees(occurrences):
        if len(occurrences) == 0:
            return [S.Obj("Integer", __structural__=True, __methods__=meth["Integer"], __bases__=("Literal", "Expression"), value=2)]
        if len(occurrences) == 1:
            return [occurrences[0]]
        a_, b_ = occurrences
        lit = S.Obj("Integer", __structural__=True, __methods__=meth["Integer"], __bases__=("Literal", "Expression"), value=2)
        return [op(c, a_, b_) for c in OPS] + [op("Multiply", op("Add", a_, lit), b_), op("Subtract", lit, op("Multiply", b_, a_))]

    def scenario(target, expr):
        return S.Obj("Assignment", target=target, expression=expr)

    def tname(t):
        return t.attrs["name"]

    def torder(t):
        return len(t.attrs["indexes"])

    def oracle(target, occurrences):
        errs = set()
        tn = target.attrs["name"]
        orders = {tn: torder(target)}
        idx = set(target.attrs["indexes"])
        for t in occurrences:
            idx |= set(t.attrs["indexes"])
            if t.attrs["name"] == tn:
                errs.add("MutatingAssignmentError")
        by = {}
        for t in occurrences:
            by.setdefault(t.attrs["name"], []).append(torder(t))
        for n, os_ in by.items():
            if len(set(os_)) > 1:
                errs.add("InconsistentDimensionsError")
            orders.setdefault(n, os_[0])
        if idx & (set(by) | {tn}):
            errs.add("NameConflictError")
        return errs, orders

    names = ["A", "B", "i"]
    index_tuples = [(), ("i",), ("j",), ("i", "j"), ("j", "i"), ("A",), ("i", "B")]
    targets = [T("A", ix_) for ix_ in [(), ("i",), ("i", "j"), ("A",), ("B",)]]
    occs = [T(n, ix_) for n in names for ix_ in index_tuples]
    G = {
        **MG,
        "MutatingAssignmentError": lambda *a: S.Obj("Exception", name="MutatingAssignmentError"),
        "InconsistentDimensionsError": lambda *a: S.Obj("Exception", name="InconsistentDimensionsError"),
        "NameConflictError": lambda *a: S.Obj("Exception", name="NameConflictError"),
    }
    n_cases = 0
    bad = {}
    for target in targets:
        rhs_sets = [()] + [(o,) for o in occs] + [p for p in itertools.combinations(occs, 2)] 
        for rhs in rhs_sets:
            want, orders = oracle(target, rhs)
            label = f"{target.attrs['name']}({','.join(target.attrs['indexes'])}) = " + " , ".join(f"{o.attrs['name']}({','.join(o.attrs['indexes'])})" for o in rhs)
            for expr in trees(rhs):
                n_cases += 1
                self_ = scenario(target, expr)
                outs = list(S.explore(fn, [self_], globals_=G))
                for _a, (kind, val) in outs:
                    if kind == "uninterpretable":
                        bad.setdefault(f"validation code not interpretable: {val}", label)
                    elif want:
                        if kind != "raise":
                            bad.setdefault(f"accepted although it must be rejected with {sorted(want)}", label + f" [{expr.tag}]")
                        elif val not in want:
                            bad.setdefault(f"raises {val}, expected one of {sorted(want)}", label)
                    else:
                        if kind == "raise":
                            bad.setdefault(f"a consistent assignment is rejected with {val}", label)
                        elif self_.attrs.get("_variable_orders") != orders:
                            bad.setdefault(f"variable orders recorded as {self_.attrs.get('_variable_orders')}, expected {orders}", label + f" [{expr.tag}]")
                # index_participants of the tree: every (tensor, dimension) of every index, nothing else
                ipm = expr.attrs["__methods__"].get("index_participants")
                wantp = {}
                for o in rhs:
                    for d_, i_ in enumerate(o.attrs["indexes"]):
                        wantp.setdefault(i_, set()).add((o.attrs["name"], d_))
                for _a, (kind, val) in S.explore(ipm, [expr], globals_=G) if ipm is not None else [({}, ("uninterpretable", "no index_participants"))]:
                    if kind != "return" or not isinstance(val, dict):
                        bad.setdefault(f"index_participants not interpretable: {kind} {val!r}"[:110], label)
                    elif {k: set(v) for k, v in val.items()} != wantp:
                        bad.setdefault("index_participants() does not list every (tensor, dimension) of every index", label + f" [{expr.tag}]: {val} expected {wantp}")
    ctx.instance("C12.rejection-semantics", n_cases)
    if bad:
        for why, label in bad.items():
            ctx.fail("C12.rejection-semantics", f"expression/ast.py:Assignment.__post_init__:{why.split(':')[0][:60]}", f"{why}; e.g. `{label}`")
        ctx.ok("C12.rejection-semantics", n=max(0, n_cases - len(bad)))
    else:
        ctx.ok("C12.rejection-semantics", "expression/ast.py:Assignment.__post_init__", n=n_cases)


def rule_roundtrip_semantic(ctx, ix):
    """deparse() of the expression classes and Format.deparse are evaluated abstractly (symeval) on
    every expression tree up to depth 2 (plus left/right combs of depth 3) and every format up to order
    3; the text is parsed by a model parser built from the grammar facts that C12.grammar verifies
    (levels expression > term > factor, left folds, operator/constructor map; the two format
    alternatives) and must give back the same tree."""
    import itertools

    from . import symeval as S

    ctx.rule("C12.roundtrip-semantics", "parse_model(deparse(t)) == t for all small trees / formats (abstract evaluation)", min_instances=500)
    meth = {}
    for c in ("Add", "Subtract", "Multiply", "Tensor", "Integer", "Float", "Assignment"):
        meth[c] = {}
        for q, f in ix.funcs.items():
            if q.rsplit(".", 1)[0] == f"{A_MOD}.{c}":
                meth[c][f.name] = f.node
    G = {c: S.Obj("Class", name=c) for c in ("Add", "Subtract", "Multiply", "Tensor", "Integer", "Float", "Literal", "Expression")}

    def node(cls, **attrs):
        bases = {"Integer": ("Literal", "Expression"), "Float": ("Literal", "Expression")}.get(cls, ("Expression",))
        return S.Obj(cls, __structural__=True, __methods__=meth[cls], __bases__=bases, **attrs)

    leaves = [lambda: node("Tensor", name="a", indexes=("i", "j")), lambda: node("Integer", value=2), lambda: node("Tensor", name="b", indexes=())]
    ops = ["Add", "Subtract", "Multiply"]

    def trees(depth):
        if depth == 0:
            return [lf() for lf in leaves]
        sub = trees(depth - 1)
        out = list(sub)
        for op in ops:
            for l in sub:
                for r in sub:
                    out.append(node(op, left=l, right=r))
        return out

    def shape(t):
        if t.tag in ops:
            return (t.tag, shape(t.attrs["left"]), shape(t.attrs["right"]))
        if t.tag == "Tensor":
            return ("Tensor", t.attrs["name"], t.attrs["indexes"])
        return (t.tag, t.attrs["value"])

    parse_model = parse_model_expression

    pool = trees(2)
    base = trees(1)
    for op1 in ops:
        for op2 in ops:
            for op3 in ops:
                for a_, b_ in ((0, 1), (1, 0)):
                    x = base[0]
                    # left comb and right comb of depth 3
                    pool.append(node(op1, left=node(op2, left=node(op3, left=x, right=base[1]), right=base[2]), right=base[a_]))
                    pool.append(node(op1, left=base[b_], right=node(op2, left=base[2], right=node(op3, left=x, right=base[1]))))
    bad = {}
    n = 0
    printed = []
    for t in pool:
        n += 1
        dp = t.attrs["__methods__"].get("deparse")
        outs = list(S.explore(dp, [t], globals_=G)) if dp is not None else [({}, ("uninterpretable", "no deparse"))]
        for _a, (kind, val) in outs:
            if kind != "return" or not isinstance(val, str):
                bad.setdefault(f"deparse not interpretable / not a string: {kind} {val!r}"[:120], shape(t))
                continue
            printed.append(val)
            try:
                back = parse_model(val)
            except ValueError as ex:
                bad.setdefault(f"deparse prints `{val}`, which the grammar does not accept ({ex})"[:160], shape(t))
                continue
            if back != shape(t):
                bad.setdefault(f"`{val}` re-parses as a different tree", (shape(t), back))
    ctx.instance("C12.roundtrip-semantics", n)
    for why, ex in bad.items():
        ctx.fail("C12.roundtrip-semantics", f"expression/ast.py:deparse:{why[:70]}", f"{why}; e.g. {ex}")
    ctx.ok("C12.roundtrip-semantics", n=max(0, n - len(bad)))
    # ---- formats
    fdp = ix.func(f"{F_MOD}.Format.deparse").node
    order_prop = ix.funcs.get(f"{F_MOD}.Format.order")
    nf = 0
    badf = {}
    printed_formats = []
    for order in range(0, 4):
        for modes, ordering in S.all_formats(order):
            nf += 1
            f_ = S.Obj("Format", modes=tuple(modes), ordering=tuple(ordering), __methods__={"order": order_prop.node} if order_prop else {}, order_=order)
            if not order_prop:
                f_.attrs["order"] = order
            outs = list(S.explore(fdp, [f_], globals_={}))
            for _a, (kind, val) in outs:
                if kind != "return" or not isinstance(val, str):
                    badf.setdefault(f"Format.deparse not interpretable: {kind} {val!r}"[:120], (modes, ordering))
                    continue
                printed_formats.append(val)
                # model of the format grammar: rep(mode) with natural ordering | rep(mode & integer)
                m1 = re.fullmatch(r"[ds]*", val)
                m2 = re.fullmatch(r"(?:[ds]\d+)*", val)
                if m1:
                    back = (tuple(val), tuple(range(len(val))))
                elif m2:
                    pairs = re.findall(r"([ds])(\d+)", val)
                    back = (tuple(p_[0] for p_ in pairs), tuple(int(p_[1]) for p_ in pairs))
                else:
                    badf.setdefault(f"Format.deparse prints `{val}`, which neither format alternative accepts", (order, ordering))
                    continue
                want = (tuple(m_.attrs["character"] for m_ in modes), tuple(ordering))
                if back != want:
                    badf.setdefault(f"`{val}` re-parses as modes {back[0]} ordering {back[1]}", want)
    ctx.instance("C12.roundtrip-semantics", nf)
    for why, ex in badf.items():
        ctx.fail("C12.roundtrip-semantics", f"format/_format.py:Format.deparse:{why[:70]}", f"{why}; expected {ex}")
    ctx.ok("C12.roundtrip-semantics", n=max(0, nf - len(badf)))
    return printed, printed_formats


def model_format(text):
    """Reference reading of a format string: bare mode characters mean the natural ordering; otherwise
    every mode character is followed by the (decimal) dimension it stores."""
    if re.fullmatch(r"[ds]*", text):
        return ("Format", tuple(text), tuple(range(len(text))))
    if re.fullmatch(r"(?:[ds][0-9]+)*", text):
        pairs = re.findall(r"([ds])([0-9]+)", text)
        return ("Format", tuple(p_[0] for p_ in pairs), tuple(int(p_[1]) for p_ in pairs))
    raise ValueError(text)


class _ModeIter(tuple):
    """The Mode enum for module-level code of the format parser: iterable over members with .character."""

    __hash__ = tuple.__hash__


def module_env(ix, module, base):
    """Module-level names of `module` that the entry functions may use: simple assignments evaluated by the
    abstract evaluator in source order (what cannot be interpreted is left out and reported when used)."""
    import re as _pyre

    from . import symeval as S

    def compile_(pat, flags=0):
        rx = _pyre.compile(pat, flags)

        def wrap(fn):
            def call(text, *a):
                if not isinstance(text, str):
                    raise S.Uninterpretable("regular expression applied to a non-string")
                m = fn(text, *a)
                return None if m is None else S.Obj("match", group=lambda *g: m.group(*g), end=lambda: m.end(), start=lambda: m.start())

            return call

        return S.Obj("pattern", match=wrap(rx.match), fullmatch=wrap(rx.fullmatch), search=wrap(rx.search), pattern=pat)

    env = dict(base)
    env["re"] = S.Obj("re", compile=compile_, match=lambda p_, t, f=0: compile_(p_, f).attrs["match"](t), fullmatch=lambda p_, t, f=0: compile_(p_, f).attrs["fullmatch"](t))
    tree = ix.module(module)
    for st in tree.body:
        if isinstance(st, (ast.Assign, ast.AnnAssign)) and st.value is not None:
            tgt = st.targets[0] if isinstance(st, ast.Assign) else st.target
            if not isinstance(tgt, ast.Name) or tgt.id.startswith("__"):
                continue
            ev = S.Evaluator(ast.parse("def _m(): pass").body[0], {}, env)
            try:
                env[tgt.id] = ev.ev(st.value, {})
            except (S.Uninterpretable, S.Fork, S.Raised):
                continue
    return env


def run_entry(ix, func_qual, grammar, parser_class, text, extra):
    """Evaluate a parse_* function on `text` with <parser_class>.<nonterminal>.parse backed by the interpreted
    grammar.  -> ('ok', value) | ('fail', error name) | ('raise', exception) | ('uninterpretable', why)."""
    from . import symeval as S

    def parser(nt):
        def parse(t):
            r = grammar.parse(nt, t)
            if r[0] == "ok":
                return S.Obj("Success", value=r[1])
            if r[0] == "fail":
                return S.Obj("Failure", error=S.Obj("Exception", name="ParseError"))
            raise S.Raised(r[1])

        return S.Obj("parser", parse=parse)

    G = dict(extra)
    G[parser_class] = S.Obj("ParserContext", **{nt: parser(nt) for nt in grammar.rules})
    G["result"] = S.Obj("result", Failure=lambda e: S.Obj("Failure", error=e), Success=lambda v: S.Obj("Success", value=v))
    G.setdefault("Failure", G["result"].attrs["Failure"])
    G.setdefault("Success", G["result"].attrs["Success"])
    fn = ix.func(func_qual).node
    outs = list(S.explore_ev(fn, [text], {}, G))
    if len(outs) != 1:
        return ("uninterpretable", f"{len(outs)} outcomes")
    kind, val = outs[0][1]
    if kind == "raise":
        return ("raise", val)
    if kind == "uninterpretable":
        return ("uninterpretable", val)
    if isinstance(val, S.Obj) and val.tag == "Success":
        return ("ok", val.attrs["value"])
    if isinstance(val, S.Obj) and val.tag == "Failure":
        e = val.attrs.get("error")
        return ("fail", e.attrs.get("name") if isinstance(e, S.Obj) else repr(e))
    return ("uninterpretable", f"returns {val!r}")


def rule_grammar_semantics(ctx, ix, printed, printed_formats):
    """The grammars in the source are interpreted (vf/srules/grammar.py) and must mean what the reference
    reading means, string by string, on a corpus that contains every text the printers produce in the
    round-trip rule plus precedence / association / literal / whitespace probes and strings outside the
    language: same tree, or both reject.  Together with C12.roundtrip-semantics (reference parse of the
    printer output gives back the tree) this decides parse(deparse(t)) == t for the real grammar without
    depending on how its nonterminals are named or factored."""
    import_tensora(ctx.src)
    from tensora.format import Mode

    from .grammar import Grammar
    from .symeval import Uninterpretable

    ctx.rule("C12.grammar-semantics", "the interpreted source grammar and the reference reading agree on every corpus string", min_instances=400)

    def safe(f):
        def g(x):
            try:
                return f(x)
            except (ValueError, TypeError, OverflowError) as ex:
                from . import symeval as S

                raise S.Raised(type(ex).__name__) from None

        return g

    def S_exc(name):
        from . import symeval as S

        return lambda *a_, **k_: S.Obj("Exception", name=name)

    cons = {
        "Tensor": lambda name, indexes: ("Tensor", name, tuple(indexes)),
        "Integer": lambda v: ("Integer", v),
        "Float": lambda v: ("Float", v),
        "Add": lambda l, r: ("Add", l, r),
        "Subtract": lambda l, r: ("Subtract", l, r),
        "Multiply": lambda l, r: ("Multiply", l, r),
        "Assignment": lambda t, e: ("Assignment", t, e),
        "int": safe(int),
        "float": safe(float),
    }
    try:
        g = Grammar(ix, P_MOD, "TensorExpressionParsers", cons, extra_globals={k: v for k, v in module_env(ix, P_MOD, cons).items() if k not in cons and k != "re"})
    except Uninterpretable as ex:
        ctx.instance("C12.grammar-semantics")
        ctx.fail("C12.grammar-semantics", "expression/_parser.py:TensorExpressionParsers", f"grammar class not interpretable: {ex}")
        g = None
    # entry points: what parse_assignment / parse_format really call
    def entry(func, default):
        fn = ix.func(func).node
        for n in ast.walk(fn):
            if isinstance(n, ast.Call) and isinstance(n.func, ast.Attribute) and n.func.attr == "parse" and isinstance(n.func.value, ast.Attribute):
                return n.func.value.attr
        return default

    bad = {}
    n_ok = 0
    penv = module_env(ix, P_MOD, {k: v for k, v in cons.items()}) if g is not None else {}
    if g is not None:
        penv.update({f_.name: f_.node for q_, f_ in ix.funcs.items() if f_.module == P_MOD and q_ == f"{P_MOD}.{f_.name}"})
        for en in ("MutatingAssignmentError", "InconsistentDimensionsError", "NameConflictError"):
            penv.setdefault(en, S_exc(en))
        start_a = entry(f"{P_MOD}.parse_assignment", "assignment")
        # the nonterminal for a bare expression: the right-hand side of the assignment rule
        start_e = "expression" if "expression" in g.rules else None
        corpus = [(start_e, x, parse_model_expression) for x in dict.fromkeys(list(printed) + EXPRESSION_CORPUS)] if start_e else []
        corpus += [(start_a, "y(i) = " + x, parse_model_assignment) for x in dict.fromkeys(list(printed)[:400] + EXPRESSION_CORPUS)]
        corpus += [(start_a, x, parse_model_assignment) for x in ASSIGNMENT_CORPUS]
        for start, text, model in corpus:
            ctx.instance("C12.grammar-semantics")
            try:
                want = ("ok", model(text))
            except ValueError:
                want = ("fail",)
            try:
                if model is parse_model_assignment:
                    got = run_entry(ix, f"{P_MOD}.parse_assignment", g, "TensorExpressionParsers", text, penv)
                    if got[0] == "uninterpretable":
                        raise Uninterpretable(got[1])
                    if got[0] == "fail":
                        got = ("fail", 0)
                else:
                    got = g.parse(start, text)
            except Uninterpretable as ex:
                bad.setdefault(f"grammar not interpretable: {ex}"[:100], text)
                continue
            except RecursionError:
                bad.setdefault("grammar interpretation does not terminate", text)
                continue
            if got[0] == "ok" and want[0] == "ok" and got[1] == want[1]:
                n_ok += 1
            elif got[0] == "fail" and want[0] == "fail":
                n_ok += 1
            elif got[0] == "raise":
                bad.setdefault(f"parsing raises {got[1]} instead of returning a tree or a typed failure", repr(text))
            elif got[0] == "ok" and want[0] == "ok":
                bad.setdefault("parses to a different tree than arithmetic reading gives", f"`{text}` -> {got[1]} (expected {want[1]})")
            elif got[0] == "ok":
                bad.setdefault("accepts text outside the language", f"`{text}` -> {got[1]}")
            else:
                bad.setdefault("rejects text of the language", f"`{text}` (fails at {got[1]})")
        for text in OPTIONAL_CORPUS:
            ctx.instance("C12.grammar-semantics")
            try:
                got = g.parse(start_e, text) if start_e else ("fail", 0)
            except Uninterpretable as ex:
                bad.setdefault(f"grammar not interpretable: {ex}"[:100], text)
                continue
            except RecursionError:
                bad.setdefault("grammar interpretation does not terminate", text)
                continue
            if got[0] == "fail":
                n_ok += 1  # signs are not part of the language: nothing to check
            elif got[0] == "raise":
                bad.setdefault(f"parsing raises {got[1]} instead of returning a tree or a typed failure", repr(text))
            else:
                try:
                    same = meaning_of_tree(got[1]) == meaning_of_text(text)
                except (ValueError, SyntaxError) as ex:
                    bad.setdefault("accepted text whose meaning cannot be computed", f"`{text}` -> {got[1]} ({ex})")
                    continue
                if same:
                    n_ok += 1
                else:
                    bad.setdefault(
                        "accepted text does not mean what arithmetic says (a sign binds tighter than binary + and -)",
                        f"`{text}` -> {got[1]}, i.e. {meaning_of_tree(got[1])!r}, arithmetic reads {meaning_of_text(text)!r}",
                    )
        for why, ex in bad.items():
            ctx.fail("C12.grammar-semantics", f"expression/_parser.py:TensorExpressionParsers:{why}", f"{why}; e.g. {ex}")
        ctx.ok("C12.grammar-semantics", n=n_ok)
    # formats
    mode_name = {f"Mode.{m.name}": m.character for m in Mode}
    fcons = {
        "Format": lambda modes, ordering: ("Format", tuple(modes), tuple(ordering)),
        "int": safe(int),
    }
    try:
        fg = Grammar(ix, FP_MOD, "FormatParsers", fcons, extra_globals={k: v for k, v in module_env(ix, FP_MOD, fcons).items() if k not in fcons and k != "re"})
    except Uninterpretable as ex:
        ctx.instance("C12.grammar-semantics")
        ctx.fail("C12.grammar-semantics", "format/_parser.py:FormatParsers", f"grammar class not interpretable: {ex}")
        return
    start_f = entry(f"{FP_MOD}.parse_format", "format")
    start_n = entry(f"{FP_MOD}.parse_named_format", "named_format")
    from . import symeval as S_

    mode_model = S_.Obj("ModeEnum", dense=("const", "Mode.dense"), compressed=("const", "Mode.compressed"))
    mode_members = [S_.Obj("Mode", __structural__=True, character=m.character, name=m.name, const=("const", f"Mode.{m.name}")) for m in Mode]
    fenv = module_env(ix, FP_MOD, {**fcons, "InvalidModeOrderingError": S_exc("InvalidModeOrderingError"), "Mode": _ModeIter(mode_members)})
    fenv.update({f_.name: f_.node for q_, f_ in ix.funcs.items() if f_.module == FP_MOD and q_ == f"{FP_MOD}.{f_.name}"})
    fcorpus = list(dict.fromkeys(list(printed_formats) + ["", "d", "s", "ds", "sd", "d0", "d1", "d0s0", "d1s0", "s1d0", "d2s0d1", "d10s2", "d01", "ds1", "d1s", "x", "D", "d 0", " d", "d0 ", "d-1", "d0,s1", "dsd2", "ds\n", "d\n", "\n", "ds\r\n", "d1s0\n", "\tds", "ds\n\n", "s\n"]))
    badf = {}
    nf_ok = 0

    def norm(v):
        if isinstance(v, tuple) and v and v[0] == "Format":
            def ch(m):
                if isinstance(m, tuple) and m and m[0] == "const":
                    return mode_name.get(m[1], m[1])
                if hasattr(m, "attrs") and "character" in m.attrs:
                    return m.attrs["character"]
                return m

            return ("Format", tuple(ch(m) for m in v[1]), tuple(v[2]))
        return v

    for text in fcorpus:
        for start, full, wrap in ((start_f, text, lambda x: x), (start_n, "A:" + text, lambda x: ("A", x))):
            ctx.instance("C12.grammar-semantics")
            try:
                want = ("ok", wrap(model_format(text)))
            except ValueError:
                want = ("fail",)
            try:
                got = run_entry(ix, f"{FP_MOD}.{'parse_format' if start == start_f else 'parse_named_format'}", fg, "FormatParsers", full, fenv)
                if got[0] == "uninterpretable":
                    raise Uninterpretable(got[1])
                if got[0] == "fail":
                    got = ("fail", 0)
            except Uninterpretable as ex:
                badf.setdefault(f"grammar not interpretable: {ex}"[:100], full)
                continue
            if got[0] == "ok":
                v = got[1]
                v = (v[0], norm(v[1])) if start == start_n and isinstance(v, tuple) and len(v) == 2 else norm(v)
                got = ("ok", v)
            if got[0] == want[0] and (got[0] == "fail" or got[1] == want[1]):
                nf_ok += 1
            elif got[0] == "raise":
                badf.setdefault(f"parsing raises {got[1]} instead of returning a format or a typed failure", repr(full))
            else:
                badf.setdefault("format text read differently from the reference reading", f"`{full}` -> {got} (expected {want})")
    for why, ex in badf.items():
        ctx.fail("C12.grammar-semantics", f"format/_parser.py:FormatParsers:{why}", f"{why}; e.g. {ex}")
    ctx.ok("C12.grammar-semantics", n=nf_ok)


def run(ctx):
    ix = SourceIndex(ctx.src)
    rule_literals(ctx, ix)
    rule_parser_escape(ctx, ix)
    # rule_rejections(ctx, ix)  # superseded by rule_rejections_semantic
    rule_rejections_semantic(ctx, ix)
    printed, printed_formats = rule_roundtrip_semantic(ctx, ix)
    rule_grammar_semantics(ctx, ix, printed, printed_formats)
    return ix
