"""Axis-space typing (DESIGN.md C01.4 / C09.1 / C10 / C11): a small type system over the Python
source with two index spaces - D (dimension order, as the user writes A(i,j,k)) and L (level /
storage order) - and the permutation type Perm(L->D) of Format.ordering / mode_ordering.

    Seq[X][e]      needs e : Val[X]
    Perm[e]        needs e : Val[L], yields Val[D]
    Perm.index(e)  needs e : Val[D], yields Val[L]
    for i in Perm              binds i : Val[D]; a comprehension over it yields Seq[L]
    enumerate(Perm)            yields (Val[L], Val[D])
    range(n)                   is space-neutral and adopts the space of its first use

Receiver types come from annotations (parameters, dataclass fields); attributes whose receiver
cannot be typed fall back to an attribute-name table; locals inference cannot type are seeded in a
table keyed by qualified function name (a vanished key is an analysis error).
"""

from __future__ import annotations

import ast

from ..common import AnalysisError
from .core import SourceIndex

# (qualified class, attribute) -> space type
ATTR = {
    ("tensora.format._format.Format", "modes"): "SeqL",
    ("tensora.format._format.Format", "ordering"): "Perm",
    ("tensora.tensor.Tensor", "dimensions"): "SeqD",
    ("tensora.tensor.Tensor", "modes"): "SeqL",
    ("tensora.tensor.Tensor", "mode_ordering"): "Perm",
    ("tensora.tensor.Tensor", "taco_indices"): "SeqL",
    ("tensora.expression.ast.Tensor", "indexes"): "SeqD",
    ("tensora.desugar.ast.Tensor", "indexes"): "SeqD",
    ("tensora.iteration_graph.identifiable_expression.ast.Tensor", "indexes"): "SeqL",
    ("tensora.iteration_graph.identifiable_expression.ast.Tensor", "modes"): "SeqL",
    ("tensora.iteration_graph.identifiable_expression._tensor_layer.TensorLayer", "layer"): "ValL",
    ("tensora.iteration_graph._definition.TensorDimension", "dimension"): "ValD",
}
# attribute-name fallback for untyped receivers (cffi structs, state dicts)
NAME_FALLBACK = {
    "ordering": "Perm",
    "mode_ordering": "Perm",
    "modes": "SeqL",
    "mode_types": "SeqL",
    "indices": "SeqL",
    "taco_indices": "SeqL",
    "dimensions": "SeqD",
}
# parameters with declared spaces: qualified function -> {param: type}
PARAMS = {
    "tensora.compile._cffi_ownership.allocate_taco_structure": {"mode_types": "SeqL", "dimensions": "SeqD", "mode_ordering": "Perm"},
    "tensora.compile._cffi_ownership.taco_structure_to_cffi": {"indices": "SeqL", "mode_types": "SeqL", "dimensions": "SeqD", "mode_ordering": "Perm"},
    "tensora.tensor.tree_to_indices_and_values": {"modes": "SeqL", "dimensions": "SeqL"},
    "tensora.tensor.taco_indexes_from_aos_coordinates": {"modes": "SeqL", "dimensions": "SeqL"},
    "tensora.tensor.Tensor.from_aos": {"dimensions": "SeqD"},
    "tensora.tensor.Tensor.from_lol": {"dimensions": "SeqD"},
    "tensora.tensor.Tensor.from_dok": {"dimensions": "SeqD"},
    "tensora.tensor.Tensor.from_soa": {"dimensions": "SeqD"},
    "tensora.tensor.default_format_given_nnz": {"dimensions": "SeqD"},
}
# locals inference cannot type
# Parameter spaces of the single nested walker of these functions, by POSITION (names are free).  If the
# outer function no longer has exactly one nested function the seed is simply not applied (its subscripts
# stay untyped; C09.structure-semantics / construction-semantics decide those functions semantically).
SEEDS_BY_OUTER = {
    "tensora.tensor.Tensor.items": {0: "ValL", 1: "SeqL"},
    "tensora.tensor.tree_to_indices_and_values": {1: "ValL"},
}


def seeds_for(func):
    if func.parent is None:
        return None
    spec = SEEDS_BY_OUTER.get(func.parent.qual)
    if not spec:
        return None
    params = [a.arg for a in func.node.args.args]
    return {params[i]: t for i, t in spec.items() if i < len(params)}
# constructor / call sinks: qualified callee -> {positional index or keyword: required type}
SINKS = {
    "tensora.compile._cffi_ownership.taco_structure_to_cffi": {0: "SeqL", "mode_types": "SeqL", "dimensions": "SeqD", "mode_ordering": "Perm"},
    "tensora.compile._cffi_ownership.allocate_taco_structure": {0: "SeqL", 1: "SeqD", 2: "Perm"},
    "tensora.format._format.Format": {0: "SeqL", 1: "Perm"},
    "tensora.iteration_graph.identifiable_expression.ast.Tensor": {2: "SeqL", 3: "SeqL"},
    "tensora.iteration_graph.identifiable_expression._tensor_layer.TensorLayer": {1: "ValL"},
    "tensora.iteration_graph._definition.TensorDimension": {1: "ValD"},
    "tensora.tensor.tree_to_indices_and_values": {1: "SeqL", 2: "SeqL"},
    "tensora.iteration_graph._names.pos_name": {1: "ValL"},
    "tensora.iteration_graph._names.crd_name": {1: "ValL"},
    "tensora.iteration_graph._names.layer_pointer": {1: "ValL"},
}
MODULES = [
    "tensora.tensor",
    "tensora.compile._cffi_ownership",
    "tensora.compile._tensor_method",
    "tensora.desugar._to_identifiable",
    "tensora.desugar._to_iteration_graphs",
    "tensora.desugar._index_dimensions",
    "tensora.iteration_graph._generate_ir",
    "tensora.iteration_graph._write_sparse_ir",
    "tensora.iteration_graph.outputs._append",
    "tensora.iteration_graph.outputs._bucket",
    "tensora.iteration_graph.identifiable_expression._extract_context",
    "tensora.iteration_graph.identifiable_expression._tensor_layer",
    "tensora.problem",
    "tensora.format._format",
]
ELEM_OF = {"SeqL": "ElemL", "SeqD": "ElemD"}


class ClassTypes:
    """Annotation-driven receiver typing."""

    def __init__(self, ix: SourceIndex):
        self.ix = ix
        self.fields = {}  # qualified class -> {attr: annotation AST}
        for cq, node in ix.classes.items():
            d = {}
            for s in node.body:
                if isinstance(s, ast.AnnAssign) and isinstance(s.target, ast.Name):
                    d[s.target.id] = s.annotation
                if isinstance(s, ast.FunctionDef) and any(ast.unparse(x) == "property" for x in s.decorator_list) and s.returns is not None:
                    d[s.name] = s.returns
            self.fields[cq] = d

    def class_module(self, cq):
        m = cq
        while m not in self.ix.modules and "." in m:
            m = m.rsplit(".", 1)[0]
        return m

    def resolve_annotation(self, ann, module):
        """annotation AST -> qualified class name (first alternative of unions), or None"""
        if ann is None:
            return None
        if isinstance(ann, ast.Constant) and isinstance(ann.value, str):
            try:
                ann = ast.parse(ann.value, mode="eval").body
            except SyntaxError:
                return None
        if isinstance(ann, ast.BinOp) and isinstance(ann.op, ast.BitOr):
            return self.resolve_annotation(ann.left, module) or self.resolve_annotation(ann.right, module)
        if isinstance(ann, ast.Name):
            return self.ix.resolve_name(module, ann.id)
        if isinstance(ann, ast.Attribute) and isinstance(ann.value, ast.Name):
            base = self.ix.imports.get(module, {}).get(ann.value.id)
            if base:
                return self.ix.canonical(f"{base}.{ann.attr}")
        return None

    def attr_class(self, cq, attr):
        ann = self.fields.get(cq, {}).get(attr)
        if ann is None:
            for b in self.ix.bases(cq):
                r = self.attr_class(b, attr)
                if r:
                    return r
            return None
        return self.resolve_annotation(ann, self.class_module(cq))


class Typer(ast.NodeVisitor):
    def __init__(self, ix, ct, func, report, outer_env=None, outer_cls=None):
        self.ix = ix
        self.ct = ct
        self.f = func
        self.report = report  # callable(node, what, got, want)
        self.env = dict(outer_env or {})  # var -> space type
        self.cls = dict(outer_cls or {})  # var -> qualified class
        self.neutral = {}  # range-bound vars: adopted space
        node = func.node
        if func.cls is not None and node.args.args and node.args.args[0].arg == "self":
            self.cls["self"] = func.qual.rsplit(".", 1)[0]
        for a in node.args.args + node.args.kwonlyargs:
            c = ct.resolve_annotation(a.annotation, func.module)
            if c:
                self.cls[a.arg] = c
        self.env.update(PARAMS.get(func.qual, {}))
        seeds = seeds_for(func)
        self.seeded = set()
        if seeds:
            self.env.update(seeds)
            self.seeded = set(seeds)

    # ---- class of an expression ---------------------------------------------------------------
    def cls_of(self, e):
        if isinstance(e, ast.Name):
            return self.cls.get(e.id)
        if isinstance(e, ast.Attribute):
            base = self.cls_of(e.value)
            if base:
                return self.ct.attr_class(base, e.attr)
            return None
        if isinstance(e, ast.Subscript):
            # dict[str, Format][name] -> Format (value type of the annotation)
            if isinstance(e.value, ast.Attribute):
                base = self.cls_of(e.value.value)
                if base:
                    ann = self.ct.fields.get(base, {}).get(e.value.attr)
                    return self.value_type(ann, self.ct.class_module(base))
            if isinstance(e.value, ast.Name):
                return self.cls.get(e.value.id + "[]")
            return None
        if isinstance(e, ast.Call):
            fn = e.func
            if isinstance(fn, ast.Name):
                r = self.ix.resolve_name(self.f.module, fn.id)
                if r in self.ix.classes:
                    return r
                if r in self.ix.funcs and self.ix.funcs[r].node.returns is not None:
                    return self.ct.resolve_annotation(self.ix.funcs[r].node.returns, self.ix.funcs[r].module)
            if isinstance(fn, ast.Attribute) and isinstance(fn.value, ast.Name):
                base = self.ix.imports.get(self.f.module, {}).get(fn.value.id)
                if base:
                    c = self.ix.canonical(f"{base}.{fn.attr}")
                    if c in self.ix.classes:
                        return c
        return None

    def value_type(self, ann, module):
        if isinstance(ann, ast.Subscript) and ast.unparse(ann.value) in ("dict", "Mapping", "list", "tuple", "Sequence"):
            sl = ann.slice
            if isinstance(sl, ast.Tuple):
                sl = sl.elts[-1]
            return self.ct.resolve_annotation(sl, module)
        return None

    # ---- space type of an expression ---------------------------------------------------------
    def ty(self, e):
        if isinstance(e, ast.Name):
            if e.id in self.neutral:
                return self.neutral[e.id] or "Neutral"
            return self.env.get(e.id)
        if isinstance(e, ast.Attribute):
            base = self.cls_of(e.value)
            if base:
                t = ATTR.get((base, e.attr))
                if t:
                    return t
                for b in self.ix.bases(base):
                    if (b, e.attr) in ATTR:
                        return ATTR[(b, e.attr)]
                if e.attr in ("indexes",):
                    return None
                return None
            if e.attr == "indexes":
                return None  # receiver must be typed
            return NAME_FALLBACK.get(e.attr)
        if isinstance(e, ast.Subscript):
            if isinstance(e.slice, ast.Slice):
                return self.ty(e.value)
            base = self.ty(e.value)
            it = self.ty(e.slice)
            if isinstance(e.value, ast.Subscript) is False and isinstance(e.slice, ast.Constant) and isinstance(e.slice.value, str):
                # state["dimensions"] etc.
                return NAME_FALLBACK.get(e.slice.value)
            if base == "Perm":
                self.need(e, e.slice, it, "ValL", "Perm[...]")
                return "ValD"
            if base in ("SeqL", "SeqD"):
                self.need(e, e.slice, it, "ValL" if base == "SeqL" else "ValD", f"{base}[...]")
                return ELEM_OF[base]
            return None
        if isinstance(e, ast.Call):
            f = e.func
            if isinstance(f, ast.Attribute) and f.attr == "index" and self.ty(f.value) == "Perm" and e.args:
                self.need(e, e.args[0], self.ty(e.args[0]), "ValD", "Perm.index(...)")
                return "ValL"
            if isinstance(f, ast.Attribute) and f.attr == "index" and self.ty(f.value) in ("SeqL", "SeqD"):
                return "ValL" if self.ty(f.value) == "SeqL" else "ValD"
            if isinstance(f, ast.Name) and f.id in ("tuple", "list", "reversed", "sorted") and e.args:
                return self.ty(e.args[0])
            if isinstance(f, ast.Name) and f.id == "range":
                return "RangeN"
            if isinstance(f, ast.Name) and f.id == "len":
                return None
            return None
        if isinstance(e, (ast.GeneratorExp, ast.ListComp)):
            return self.comp_type(e)
        if isinstance(e, ast.Starred):
            return self.ty(e.value)
        if isinstance(e, ast.BinOp) and isinstance(e.op, (ast.Add, ast.Sub)):
            l, r = self.ty(e.left), self.ty(e.right)
            if l in ("ValL", "ValD") and (isinstance(e.right, ast.Constant) or r is None):
                return l
            if l in ("SeqL", "SeqD") and r == l:
                return l
            return None
        if isinstance(e, ast.BinOp) and isinstance(e.op, ast.Mult):
            # (Mode.dense,) * order : neutral sequence
            return None
        return None

    def comp_type(self, e):
        g = e.generators[0]
        sub = Typer(self.ix, self.ct, self.f, self.report, self.env, self.cls)
        sub.neutral = dict(self.neutral)
        sub.seeded = self.seeded
        sub.bind_iter(g.target, g.iter)
        for extra in e.generators[1:]:
            sub.bind_iter(extra.target, extra.iter)
        sub.ty(e.elt)
        sub.generic_visit_expr(e.elt)
        its = self.iter_space(g.iter, sub, g.target)
        return its

    def iter_space(self, it, sub, target):
        t = self.ty(it)
        if isinstance(it, ast.Call) and isinstance(it.func, ast.Name) and it.func.id in ("enumerate", "zip") and it.args:
            ts = [self.ty(a) for a in it.args]
            for x in ts:
                if x == "Perm":
                    return "SeqL"
                if x in ("SeqL", "SeqD"):
                    return x
            return None
        if t == "Perm":
            return "SeqL"
        if t in ("SeqL", "SeqD"):
            return t
        if t == "RangeN" and isinstance(target, ast.Name):
            sp = sub.neutral.get(target.id)
            return {"ValL": "SeqL", "ValD": "SeqD"}.get(sp)
        return None

    def generic_visit_expr(self, e):
        for n in ast.walk(e):
            if isinstance(n, (ast.Subscript, ast.Call)) and n is not e:
                self.ty(n)

    def need(self, node, idx_node, got, want, what):
        if got is None or got in ("ElemL", "ElemD"):
            if isinstance(idx_node, ast.Constant):
                return
            self.report(self.f, node, what, None, want, counted=True, unknown=True)
            return
        if got in ("Neutral",):
            if isinstance(idx_node, ast.Name) and idx_node.id in self.neutral and self.neutral[idx_node.id] is None:
                self.neutral[idx_node.id] = want
            self.report(self.f, node, what, want, want, counted=True)
            return
        self.report(self.f, node, what, got, want, counted=True)

    # ---- binding -----------------------------------------------------------------------------
    def bind_iter(self, target, it):
        t = self.ty(it)
        if isinstance(it, ast.Call) and isinstance(it.func, ast.Name) and it.func.id == "enumerate" and it.args:
            inner = self.ty(it.args[0])
            if isinstance(target, ast.Tuple) and len(target.elts) == 2:
                a, b = target.elts
                if isinstance(a, ast.Name):
                    self.set(a.id, {"Perm": "ValL", "SeqL": "ValL", "SeqD": "ValD"}.get(inner))
                    if inner is None:
                        self.neutral[a.id] = None
                if isinstance(b, ast.Name):
                    self.set(b.id, {"Perm": "ValD", "SeqL": "ElemL", "SeqD": "ElemD"}.get(inner))
                elif isinstance(b, ast.Tuple):
                    for x in b.elts:
                        if isinstance(x, ast.Name):
                            self.set(x.id, None)
            return
        if isinstance(it, ast.Call) and isinstance(it.func, ast.Name) and it.func.id == "zip":
            if isinstance(target, ast.Tuple):
                for x, a in zip(target.elts, it.args):
                    if isinstance(x, ast.Name):
                        ta = self.ty(a)
                        self.set(x.id, {"Perm": "ValD", "SeqL": "ElemL", "SeqD": "ElemD"}.get(ta))
            return
        if isinstance(it, ast.Call) and isinstance(it.func, ast.Name) and it.func.id == "reversed" and it.args:
            inner = it.args[0]
            if isinstance(inner, ast.Call) and isinstance(inner.func, ast.Name) and inner.func.id == "range":
                t = "RangeN"
        if isinstance(target, ast.Name):
            if t == "Perm":
                self.set(target.id, "ValD")
            elif t == "RangeN":
                self.env.pop(target.id, None)
                self.neutral[target.id] = None
            elif t in ("SeqL", "SeqD"):
                self.set(target.id, ELEM_OF[t])
            else:
                self.set(target.id, None)

    def set(self, name, t):
        if name in self.seeded:
            return
        self.neutral.pop(name, None)
        if t is None:
            self.env.pop(name, None)
        else:
            self.env[name] = t

    # ---- statements --------------------------------------------------------------------------
    def visit_For(self, n):
        self.ty(n.iter)
        self.bind_iter(n.target, n.iter)
        for s in n.body + n.orelse:
            self.visit(s)

    def visit_Assign(self, n):
        t = self.ty(n.value)
        c = self.cls_of(n.value)
        self.generic_visit_expr(n.value)
        for tg in n.targets:
            if isinstance(tg, ast.Name):
                self.set(tg.id, t)
                if c:
                    self.cls[tg.id] = c
                else:
                    self.cls.pop(tg.id, None)
            else:
                self.ty(tg)
                self.generic_visit_expr(tg)

    def visit_AnnAssign(self, n):
        if n.value is not None:
            t = self.ty(n.value)
            self.generic_visit_expr(n.value)
            if isinstance(n.target, ast.Name):
                self.set(n.target.id, t)

    def visit_Expr(self, n):
        self.ty(n.value)
        self.generic_visit_expr(n.value)
        self.check_sinks(n.value)

    def visit_Return(self, n):
        if n.value is not None:
            self.ty(n.value)
            self.generic_visit_expr(n.value)
            self.check_sinks(n.value)

    def visit_If(self, n):
        self.ty(n.test)
        self.generic_visit_expr(n.test)
        for s in n.body + n.orelse:
            self.visit(s)

    def visit_While(self, n):
        self.visit_If(n)

    def visit_FunctionDef(self, n):
        if n is self.f.node:
            for s in n.body:
                self.visit(s)
                if isinstance(s, (ast.Assign, ast.AnnAssign)):
                    self.check_sinks(s.value) if s.value is not None else None
        # nested functions are typed by their own Typer (with this env), see run()

    def generic_visit(self, node):
        for ch in ast.iter_child_nodes(node):
            if isinstance(ch, ast.expr):
                self.ty(ch)
                self.generic_visit_expr(ch)
                self.check_sinks(ch)
            elif isinstance(ch, (ast.FunctionDef, ast.ClassDef)):
                continue
            else:
                self.visit(ch)

    def check_sinks(self, e):
        for call in [n for n in ast.walk(e) if isinstance(n, ast.Call)]:
            q = None
            fn = call.func
            if isinstance(fn, ast.Name):
                q = self.ix.resolve_name(self.f.module, fn.id)
            elif isinstance(fn, ast.Attribute) and isinstance(fn.value, ast.Name):
                base = self.ix.imports.get(self.f.module, {}).get(fn.value.id)
                if base:
                    q = self.ix.canonical(f"{base}.{fn.attr}")
            spec = SINKS.get(q)
            if not spec:
                continue
            for i, a in enumerate(call.args):
                if i in spec:
                    self.sink(call, a, spec[i], f"argument {i} of {q.rsplit('.', 1)[-1]}")
            for kw in call.keywords:
                if kw.arg in spec:
                    self.sink(call, kw.value, spec[kw.arg], f"argument {kw.arg} of {q.rsplit('.', 1)[-1]}")

    def sink(self, call, arg, want, what):
        got = self.ty(arg)
        if got in ("Neutral",) and isinstance(arg, ast.Name) and self.neutral.get(arg.id) is None:
            self.neutral[arg.id] = want
            got = want
        if got is None:
            self.report(self.f, arg, what, None, want, counted=True, unknown=True)
        else:
            self.report(self.f, arg, what, got, want, counted=True)


def run_axis(ctx, ix, rule, modules=None, exceptions=None):
    """Type the given modules; report ill-typed subscripts/sinks under `rule`. `exceptions` maps a
    construct key to a side-condition checker (callable(func, node) -> reason or None)."""
    ct = ClassTypes(ix)
    exceptions = exceptions or {}
    seen_seeds = set()
    results = {"typed": 0, "unknown": 0}

    def report(f, node, what, got, want, counted=False, unknown=False):
        key = f"{ix.rel(f.module)}:{f.qual.split(f.module + '.', 1)[-1]}:{' '.join(ast.unparse(node).split())[:90]}:{what}"
        if unknown:
            results["unknown"] += 1
            return
        results["typed"] += 1
        ctx.instance(rule)
        if got == want or (got == "RangeN" and want == "Perm"):
            # tuple(range(n)) is the identity permutation
            ctx.ok(rule, key)
            return
        exc = exceptions.get(f.qual)
        why = exc(f, node) if exc is not None else NotImplemented
        if why is not NotImplemented:
            if why is None:
                ctx.ok(rule, key + " [frozen exception, side condition holds]")
                return
            ctx.fail(rule, key, f"index of space {got} used where {want} is required; the frozen exception's side condition fails: {why}")
            return
        ctx.fail(
            rule,
            key,
            f"{what}: index/argument of space {got} used where {want} is required (level order and dimension order are confused; "
            "only self-inverse orderings hide this)",
        )

    for m in modules or MODULES:
        ix.module(m)
        for q, f in ix.funcs.items():
            if f.module != m:
                continue
            if f.parent is not None:
                continue  # nested functions handled below with the parent's environment
            t = Typer(ix, ct, f, report)
            t.visit(f.node)
            for q2, g in ix.funcs.items():
                if g.parent is f:
                    t2 = Typer(ix, ct, g, report, t.env, t.cls)
                    t2.neutral = dict(t.neutral)
                    t2.visit(g.node)
    ctx.extra.setdefault("axis_typing", {}).update(results)
    return results
