"""Engine S core: module index, resolver, call graph, statement-level dominance helpers.

All rules analyse the *source text* of <src>/tensora with `ast`; import-time introspection
(singledispatch registries, class hierarchy, dataclass fields) is used only to read tables Python
already resolved. No analysed function is called.
"""

from __future__ import annotations

import ast
import importlib
import sys
from dataclasses import dataclass, field
from pathlib import Path

from ..common import AnalysisError


@dataclass
class Func:
    qual: str  # module.Class.func or module.func or module.func.<locals>.inner
    module: str
    cls: str | None
    name: str
    node: ast.FunctionDef
    parent: "Func | None" = None


class SourceIndex:
    def __init__(self, src: str):
        self.src = src
        self.root = Path(src) / "tensora"
        if not self.root.is_dir():
            raise AnalysisError(f"{self.root} does not exist")
        self.modules: dict[str, ast.Module] = {}
        self.paths: dict[str, Path] = {}
        self.text: dict[str, str] = {}
        for p in sorted(self.root.rglob("*.py")):
            rel = p.relative_to(self.root.parent).with_suffix("")
            parts = list(rel.parts)
            if parts[-1] == "__init__":
                parts = parts[:-1]
            name = ".".join(parts)
            txt = p.read_text()
            try:
                self.modules[name] = ast.parse(txt)
            except SyntaxError as e:
                raise AnalysisError(f"cannot parse {p}: {e}") from e
            self.paths[name] = p
            self.text[name] = txt
        self.funcs: dict[str, Func] = {}
        self.classes: dict[str, ast.ClassDef] = {}
        self.imports: dict[str, dict[str, str]] = {}  # module -> local name -> qualified target
        for m, tree in self.modules.items():
            self._index_module(m, tree)

    # ---- indexing ------------------------------------------------------------------------------
    def _index_module(self, m, tree):
        imp = self.imports.setdefault(m, {})
        is_pkg = self.paths[m].name == "__init__.py"
        for node in ast.walk(tree):
            if isinstance(node, ast.ImportFrom):
                base = self._resolve_from(m, is_pkg, node.module, node.level)
                for a in node.names:
                    imp[a.asname or a.name] = f"{base}.{a.name}" if base else a.name
            elif isinstance(node, ast.Import):
                for a in node.names:
                    imp[a.asname or a.name.split(".")[0]] = a.name if a.asname else a.name.split(".")[0]

        def rec(body, prefix, cls, parent):
            for node in body:
                if isinstance(node, (ast.FunctionDef, ast.AsyncFunctionDef)):
                    q = f"{prefix}.{node.name}"
                    f = Func(q, m, cls, node.name, node, parent)
                    if q in self.funcs:
                        # singledispatch registrations may reuse `_`; keep all by suffixing
                        i = 2
                        while f"{q}#{i}" in self.funcs:
                            i += 1
                        q = f"{q}#{i}"
                        f.qual = q
                    self.funcs[q] = f
                    rec(node.body, q + ".<locals>", cls, f)
                elif isinstance(node, ast.ClassDef):
                    cq = f"{prefix}.{node.name}"
                    self.classes[cq] = node
                    rec(node.body, cq, node.name, parent)
                elif isinstance(node, (ast.If, ast.Try, ast.With)):
                    for sub in ast.iter_child_nodes(node):
                        pass
                    rec(getattr(node, "body", []), prefix, cls, parent)
                    rec(getattr(node, "orelse", []), prefix, cls, parent)

        rec(tree.body, m, None, None)

    def _resolve_from(self, m, is_pkg, module, level):
        if level == 0:
            return module or ""
        parts = m.split(".")
        if not is_pkg:
            parts = parts[:-1]
        if level > 1:
            parts = parts[: len(parts) - (level - 1)]
        return ".".join(parts + ([module] if module else []))

    # ---- lookup --------------------------------------------------------------------------------
    def func(self, qual: str) -> Func:
        f = self.funcs.get(qual)
        if f is None:
            raise AnalysisError(f"anchor vanished: function {qual} not found in {self.src}")
        return f

    def cls(self, qual: str) -> ast.ClassDef:
        c = self.classes.get(qual)
        if c is None:
            raise AnalysisError(f"anchor vanished: class {qual} not found in {self.src}")
        return c

    def module(self, name: str) -> ast.Module:
        t = self.modules.get(name)
        if t is None:
            raise AnalysisError(f"anchor vanished: module {name} not found in {self.src}")
        return t

    def canonical(self, qual: str) -> str:
        """Follow re-exports: tensora.compile.evaluate -> tensora.compile._porcelain.evaluate."""
        seen = set()
        while qual not in self.funcs and qual not in self.classes and qual not in seen:
            seen.add(qual)
            mod, _, name = qual.rpartition(".")
            if mod in self.imports and name in self.imports[mod]:
                qual = self.imports[mod][name]
            else:
                break
        return qual

    def resolve_name(self, module: str, name: str) -> str | None:
        """Resolve a bare name used in `module` to a qualified function/class name."""
        if f"{module}.{name}" in self.funcs or f"{module}.{name}" in self.classes:
            return f"{module}.{name}"
        tgt = self.imports.get(module, {}).get(name)
        if tgt is None:
            return None
        return self.canonical(tgt)

    def methods_named(self, name: str) -> list[str]:
        return [q for q, f in self.funcs.items() if f.name == name and f.cls is not None]

    def class_of(self, qual_cls: str):
        return self.classes.get(qual_cls)

    def class_methods(self, cls_qual: str) -> dict[str, str]:
        out = {}
        for q, f in self.funcs.items():
            if q.rsplit(".", 1)[0] == cls_qual:
                out[f.name] = q
        return out

    def bases(self, cls_qual: str) -> list[str]:
        node = self.classes.get(cls_qual)
        if node is None:
            return []
        mod = cls_qual.rsplit(".", 1)[0]
        while mod not in self.modules and "." in mod:
            mod = mod.rsplit(".", 1)[0]
        out = []
        for b in node.bases:
            if isinstance(b, ast.Name):
                r = self.resolve_name(mod, b.id)
                if r:
                    out.append(r)
        return out

    # ---- call resolution ---------------------------------------------------------------------
    def resolve_call(self, f: Func, call: ast.Call) -> list[str]:
        """Over-approximate set of callee qualnames inside the package (may-analysis)."""
        fn = call.func
        if isinstance(fn, ast.Name):
            # nested function?
            g = f
            while g is not None:
                q = f"{g.qual}.<locals>.{fn.id}"
                if q in self.funcs:
                    return [q]
                g = g.parent
            r = self.resolve_name(f.module, fn.id)
            if r is None:
                return []
            if r in self.classes:
                ms = self.class_methods(r)
                out = [ms[n] for n in ("__init__", "__post_init__") if n in ms]
                return out or [r]
            return [r] if r in self.funcs else []
        if isinstance(fn, ast.Attribute):
            # super().method(): the method of a base class
            if isinstance(fn.value, ast.Call) and isinstance(fn.value.func, ast.Name) and fn.value.func.id == "super" and f.cls is not None:
                out = []
                work = self.bases(f.qual.rsplit(".", 1)[0])
                seen = set()
                while work:
                    c = work.pop()
                    if c in seen:
                        continue
                    seen.add(c)
                    ms = self.class_methods(c)
                    if fn.attr in ms:
                        out.append(ms[fn.attr])
                    else:
                        work.extend(self.bases(c))
                return out
            # module.attr
            if isinstance(fn.value, ast.Name):
                tgt = self.imports.get(f.module, {}).get(fn.value.id)
                if tgt is not None:
                    c = self.canonical(f"{tgt}.{fn.attr}")
                    if c in self.funcs:
                        return [c]
                    if c in self.classes:
                        ms = self.class_methods(c)
                        return [ms[n] for n in ("__init__", "__post_init__") if n in ms] or [c]
                    if tgt in self.classes:
                        ms = self.class_methods(tgt)
                        if fn.attr in ms:
                            return [ms[fn.attr]]
                if fn.value.id == "self" and f.cls is not None:
                    cq = f.qual.rsplit(".", 1)[0]
                    seen = set()
                    work = [cq]
                    while work:
                        c = work.pop()
                        if c in seen:
                            continue
                        seen.add(c)
                        ms = self.class_methods(c)
                        if fn.attr in ms:
                            # virtual dispatch: the method of any subclass may run
                            return [ms[fn.attr]] + [
                                q for q in self.methods_named(fn.attr) if q != ms[fn.attr]
                            ]
                        work.extend(self.bases(c))
            # unknown receiver: every method of that name in the package (dunder methods are never
            # called this way on package objects)
            if fn.attr.startswith("__") and fn.attr.endswith("__"):
                return []
            return self.methods_named(fn.attr)
        return []

    def calls_in(self, f: Func):
        """Call nodes lexically inside f, excluding nested function bodies."""
        out = []

        def rec(node):
            for ch in ast.iter_child_nodes(node):
                if isinstance(ch, (ast.FunctionDef, ast.AsyncFunctionDef, ast.Lambda, ast.ClassDef)):
                    continue
                if isinstance(ch, ast.Call):
                    out.append(ch)
                rec(ch)

        rec(f.node)
        return out

    def rel(self, module: str) -> str:
        return str(self.paths[module].relative_to(self.root.parent))


def import_tensora(src: str):
    """Import the analysed tree (for reading registries); failure is an analysis error."""
    if sys.path[0] != src:
        sys.path.insert(0, src)
    try:
        t = importlib.import_module("tensora")
    except Exception as e:  # noqa: BLE001
        raise AnalysisError(f"cannot import tensora from {src}: {type(e).__name__}: {e}") from e
    if not t.__file__.startswith(src.rstrip("/") + "/"):
        raise AnalysisError(f"tensora imported from {t.__file__}, expected under {src}")
    return t


# ------------------------------------------------------------------------------------------------
# statement-level structure helpers
# ------------------------------------------------------------------------------------------------
def stmt_lists(node):
    """Yield every statement list (list[ast.stmt]) under a function node, with its owner."""
    for field_ in ("body", "orelse", "finalbody"):
        lst = getattr(node, field_, None)
        if isinstance(lst, list) and lst and isinstance(lst[0], ast.stmt):
            yield node, field_, lst
            for s in lst:
                if not isinstance(s, (ast.FunctionDef, ast.AsyncFunctionDef, ast.ClassDef)):
                    yield from stmt_lists(s)
    if isinstance(node, ast.Try):
        for h in node.handlers:
            yield from stmt_lists(h)
    if isinstance(node, ast.Match):
        for c in node.cases:
            yield from stmt_lists(c)


def enclosing_chain(func_node, target):
    """Return list of (statement list, index) from the function body down to the statement that
    contains `target` (an ast node)."""
    chain = []

    def contains(s, t):
        return any(x is t for x in ast.walk(s))

    def rec(lst):
        for i, s in enumerate(lst):
            if contains(s, target):
                chain.append((lst, i))
                if s is target:
                    return True
                for _, _, sub in _direct_lists(s):
                    if any(contains(x, target) for x in sub):
                        return rec(sub)
                return True
        return False

    rec(func_node.body)
    return chain


def _direct_lists(s):
    for field_ in ("body", "orelse", "finalbody"):
        lst = getattr(s, field_, None)
        if isinstance(lst, list) and lst and isinstance(lst[0], ast.stmt):
            yield s, field_, lst
    if isinstance(s, ast.Try):
        for h in s.handlers:
            yield h, "body", h.body
    if isinstance(s, ast.Match):
        for c in s.cases:
            yield c, "body", c.body


def dominators_of(func_node, target):
    """Statements that execute before `target` on every path from the function entry: the direct
    elements that precede target's ancestor in every enclosing statement list."""
    out = []
    for lst, i in enclosing_chain(func_node, target):
        out.extend(lst[:i])
    return out


def can_fall_through(s) -> bool:
    """Can control continue after statement s (conservatively)?"""
    if isinstance(s, (ast.Raise, ast.Return)):
        return False
    return True


def name_of(node) -> str:
    return ast.unparse(node)


def arm_tests(func_node, target):
    """Tests of the `if`/`elif` arms whose *body* contains target (outermost first).  A `match` arm whose
    subject is a tuple and whose pattern is a tuple of literals contributes one synthetic `subject_k ==
    literal_k` test per component (a scalar subject with a literal pattern likewise)."""
    out = []
    for lst, i in enclosing_chain(func_node, target):
        s = lst[i]
        if isinstance(s, ast.If) and any(any(x is target for x in ast.walk(b)) for b in s.body):
            out.append(s.test)
        if isinstance(s, ast.Match):
            for case in s.cases:
                if not any(any(x is target for x in ast.walk(b)) for b in case.body):
                    continue
                subs = s.subject.elts if isinstance(s.subject, ast.Tuple) else [s.subject]
                pats = case.pattern.patterns if isinstance(case.pattern, ast.MatchSequence) else [case.pattern]
                if len(subs) == len(pats):
                    for sub, pat in zip(subs, pats):
                        if isinstance(pat, ast.MatchValue):
                            out.append(ast.Compare(left=sub, ops=[ast.Eq()], comparators=[pat.value]))
    return out


# ------------------------------------------------------------------------------------------------
# template matching with metavariables (rename-tolerant recognisers)
# ------------------------------------------------------------------------------------------------
def _pat(text: str):
    """Parse a template. Names `_V_x` match any local Name (consistently, injectively); `_E_x` matches any
    expression (consistently, by structure). A template that parses as an expression is an expression
    pattern, otherwise a (single) statement pattern."""
    try:
        return ast.parse(text, mode="eval").body
    except SyntaxError:
        body = ast.parse(text).body
        if len(body) != 1:
            raise
        return body[0]


def tmatch(pat, node, b: dict) -> bool:
    """Structural match of `node` against `pat`, extending binding `b` in place (caller copies)."""
    if isinstance(pat, ast.Name) and pat.id.startswith("_V_"):
        if not isinstance(node, ast.Name):
            return False
        if pat.id in b:
            return b[pat.id] == node.id
        if node.id in [v for k, v in b.items() if k.startswith("_V_")]:
            return False
        b[pat.id] = node.id
        return True
    if isinstance(pat, ast.Name) and pat.id.startswith("_E_"):
        if not isinstance(node, ast.AST):
            return False
        t = ast.dump(node)
        if pat.id in b:
            return b[pat.id] == t
        b[pat.id] = t
        return True
    if isinstance(pat, ast.Expr) and isinstance(node, ast.Expr):
        return tmatch(pat.value, node.value, b)
    if type(pat) is not type(node):
        return False
    for field in pat._fields:
        if field in ("ctx", "type_comment", "kind"):
            continue
        pv, nv = getattr(pat, field, None), getattr(node, field, None)
        if isinstance(pv, list):
            if not isinstance(nv, list) or len(pv) != len(nv):
                return False
            for x, y in zip(pv, nv):
                if isinstance(x, ast.AST):
                    if not tmatch(x, y, b):
                        return False
                elif x != y:
                    return False
        elif isinstance(pv, ast.AST):
            if not isinstance(nv, ast.AST) or not tmatch(pv, nv, b):
                return False
        elif pv != nv:
            return False
    return True


def tfind(scope, template: str, b: dict | None = None):
    """Yield (node, binding) for every node under `scope` (AST node or list of nodes) matching the
    template under an extension of binding `b`."""
    pat = _pat(template) if isinstance(template, str) else template
    roots = scope if isinstance(scope, list) else [scope]
    for r in roots:
        for n in ast.walk(r):
            if isinstance(pat, ast.stmt) != isinstance(n, ast.stmt):
                continue
            bb = dict(b or {})
            if tmatch(pat, n, bb):
                yield n, bb


def tsolve(scope, templates: list[str], b: dict | None = None):
    """First binding under which every template matches somewhere in `scope` (depth-first), with the matched
    nodes; None if there is none."""
    pats = [_pat(t) for t in templates]

    def go(i, bind, nodes):
        if i == len(pats):
            return bind, nodes
        for n, bb in tfind(scope, pats[i], bind):
            r = go(i + 1, bb, nodes + [n])
            if r is not None:
                return r
        return None

    return go(0, dict(b or {}), [])


def cached_factory(ix):
    """The lru_cache'd TensorMethod factory of compile/_porcelain.py (found by its decorator, not its name)."""
    import re as _re

    from ..common import AnalysisError

    mod = "tensora.compile._porcelain"
    for q, f in ix.funcs.items():
        if f.module == mod and q == f"{mod}.{f.name}" and any(_re.match(r"(functools\.)?(lru_cache|cache)\b", ast.unparse(d)) for d in f.node.decorator_list):
            return f
    raise AnalysisError("anchor vanished: no lru_cache'd TensorMethod factory in compile/_porcelain.py")
