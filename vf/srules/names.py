"""C01.5 identifier hygiene: no two different (template, argument) pairs of the IR variable-name
templates can produce the same identifier, and no template instance equals a raw user name.

Templates are extracted from the f-strings of iteration_graph/_names.py and outputs/_bucket.py.
Argument languages: U = user names (the parser's name regex, no underscore), N = decimal integers,
REF = N "_" U (tensor instance ids, built as f"{id}_{name}"). Decided by unification of the token
sequences obtained by splitting on "_".
"""

from __future__ import annotations

import ast
import itertools
import re

from ..common import AnalysisError
from .core import SourceIndex

NAMES = "tensora.iteration_graph._names"
BUCKET = "tensora.iteration_graph.outputs._bucket.BucketOutput"


def u(e):
    return ast.unparse(e)


def fstring_tokens(js: ast.JoinedStr, param_kind):
    """-> list of alternatives, each a list of tokens ('lit', s) / ('U',) / ('N',)"""
    parts = [[]]

    def add_text(alts, text):
        for a in alts:
            a.append(("text", text))

    for v in js.values:
        if isinstance(v, ast.Constant):
            add_text(parts, v.value)
        elif isinstance(v, ast.FormattedValue):
            kind = param_kind(v.value)
            if kind == "U":
                for a in parts:
                    a.append(("U",))
            elif kind == "N":
                for a in parts:
                    a.append(("N",))
            elif kind == "REF":
                for a in parts:
                    a.extend([("N",), ("text", "_"), ("U",)])
            elif kind == "LAYERS":
                new = []
                for a in parts:
                    for k in range(0, 4):
                        b = list(a)
                        for _ in range(k):
                            b.extend([("text", "_"), ("N",)])
                        new.append(b)
                parts = new
            else:
                raise AnalysisError(f"identifier template placeholder {u(v.value)} has no argument language")
    out = []
    for a in parts:
        # merge texts, then split on "_"
        toks = []
        buf = ""
        seq = []
        for t in a:
            if t[0] == "text":
                buf += t[1]
            else:
                seq.append(("text", buf))
                buf = ""
                seq.append(t)
        seq.append(("text", buf))
        # now tokenise: text pieces contain underscores as separators
        cur = []  # pieces of the current token
        for t in seq:
            if t[0] == "text":
                segs = t[1].split("_")
                for i, sgm in enumerate(segs):
                    if i > 0:
                        toks.append(cur)
                        cur = []
                    if sgm:
                        cur.append(("lit", sgm))
            else:
                cur.append(t)
        toks.append(cur)
        out.append(toks)
    return out


def tok_language(tok, name_re):
    """Each token is a concatenation of pieces; we only support single-piece tokens (all templates
    separate placeholders with underscores)."""
    if len(tok) != 1:
        return None
    return tok[0]


def compatible(a, b, name_re):
    if a is None or b is None:
        return True  # unknown shape: assume they may overlap (conservative)
    if a[0] == "lit" and b[0] == "lit":
        return a[1] == b[1]
    if a[0] == "lit":
        a, b = b, a
    if b[0] == "lit":
        if a[0] == "U":
            return re.fullmatch(name_re, b[1]) is not None
        if a[0] == "N":
            return b[1].isdigit()
    if {a[0], b[0]} == {"U", "N"}:
        return False  # user names start with a letter
    return True


def unify(t1, t2, name_re):
    if len(t1) != len(t2):
        return False
    return all(compatible(tok_language(x, name_re), tok_language(y, name_re), name_re) for x, y in zip(t1, t2))


def _template_arg(fn, call):
    """The f-string a `Variable(...)` call is built from: the argument itself, or the single local
    assignment it names."""
    if not call.args:
        return None
    a = call.args[0]
    if isinstance(a, ast.Name):
        vals = [n.value for n in ast.walk(fn) if isinstance(n, ast.Assign) and len(n.targets) == 1 and isinstance(n.targets[0], ast.Name) and n.targets[0].id == a.id]
        if len(vals) == 1:
            a = vals[0]
    return a if isinstance(a, ast.JoinedStr) else None


def run(ctx):
    ix = SourceIndex(ctx.src)
    ctx.rule("C01.identifier-hygiene", "no two name templates (or a template and a raw user name) can produce the same identifier", min_instances=60)
    # user-name language
    name_re = None
    for s in ix.cls("tensora.expression._parser.TensorExpressionParsers").body:
        if isinstance(s, ast.Assign) and u(s.targets[0]) == "name" and isinstance(s.value, ast.Call) and u(s.value.func) == "reg":
            name_re = s.value.args[0].value
    if name_re is None:
        raise AnalysisError("anchor vanished: name regex of TensorExpressionParsers")
    ctx.instance("C01.identifier-hygiene")
    if re.fullmatch(name_re, "a_b") or re.fullmatch(name_re, "_a") or re.fullmatch(name_re, "0a"):
        ctx.fail("C01.identifier-hygiene", "expression/_parser.py:name regex", f"user names `{name_re}` may contain an underscore or start with a digit: every template separator becomes ambiguous")
    else:
        ctx.ok("C01.identifier-hygiene", "expression/_parser.py:name regex has no underscore and starts with a letter")
    templates = {}  # label -> list of token sequences

    def kinds_for(fn: ast.FunctionDef):
        ann = {a.arg: (u(a.annotation) if a.annotation is not None else None) for a in fn.args.args}

        def k(e):
            if isinstance(e, ast.Name) and e.id in ann:
                if ann[e.id] == "int":
                    return "N"
                if e.id == "reference":
                    return "REF"
                if ann[e.id] == "str":
                    return "U"
            return None

        return k

    for q, f in ix.funcs.items():
        if f.module != NAMES:
            continue
        for n in ast.walk(f.node):
            if isinstance(n, ast.Call) and u(n.func) == "Variable" and _template_arg(f.node, n) is not None:
                templates[f"_names.py:{f.name}"] = fstring_tokens(_template_arg(f.node, n), kinds_for(f.node))
    # `reference` really is f"{int}_{name}": check the constructors of identifiable tensors
    ctx.instance("C01.identifier-hygiene")
    ids = []
    for q, f in ix.funcs.items():
        for n in ast.walk(f.node):
            if isinstance(n, ast.Call) and u(n.func) in ("id.Tensor",) and n.args and isinstance(n.args[0], ast.JoinedStr):
                ids.append(u(n.args[0]))
    if ids and all((m_ := re.fullmatch(r"f'\{([\w.]+)\.id\}_\{([\w.]+)\.name\}'", x)) and m_.group(1) == m_.group(2) for x in ids):
        ctx.ok("C01.identifier-hygiene", f"tensor instance ids are f'{{id}}_{{name}}' ({len(ids)} constructors)")
    else:
        ctx.fail("C01.identifier-hygiene", "identifiable tensor ids", f"instance ids are built as {ids}, not int + '_' + user name: cursor names of different occurrences may coincide")

    bucket_methods = {f.name: f.node for q, f in ix.funcs.items() if q.rsplit(".", 1)[0] == BUCKET}

    def bucket_kind_for(fn):
        def resolve(e, depth=0):
            # a local bound once, or a no-argument helper method of the class with a single return
            if depth > 4:
                return e
            if isinstance(e, ast.Name):
                vals = [n.value for n in ast.walk(fn) if isinstance(n, ast.Assign) and len(n.targets) == 1 and isinstance(n.targets[0], ast.Name) and n.targets[0].id == e.id]
                if len(vals) == 1:
                    return resolve(vals[0], depth + 1)
            if isinstance(e, ast.Call) and not e.args and not e.keywords and isinstance(e.func, ast.Attribute) and u(e.func.value) == "self" and e.func.attr in bucket_methods:
                rets = [n.value for n in ast.walk(bucket_methods[e.func.attr]) if isinstance(n, ast.Return) and n.value is not None]
                if len(rets) == 1:
                    return resolve(rets[0], depth + 1)
            return e

        def kind(e):
            t = u(resolve(e))
            if t == "self.output.id":
                return "REF"
            if t.startswith("''.join(") and "self.layers" in t:
                return "LAYERS"
            return None

        return kind

    for m in ("name", "loop_name"):
        fn = ix.func(f"{BUCKET}.{m}").node
        for n in ast.walk(fn):
            if isinstance(n, ast.Call) and u(n.func) == "Variable" and _template_arg(fn, n) is not None:
                templates[f"_bucket.py:{m}"] = fstring_tokens(_template_arg(fn, n), bucket_kind_for(fn))
    templates["raw user name (index / tensor)"] = [[[("U",)]]]
    if len(templates) < 14:
        raise AnalysisError(f"only {len(templates)} identifier templates extracted")
    # function names and reserved IR names
    # (raw user names colliding with C keywords / function names are C08's reserved-identifier rule)
    labels = sorted(templates)
    for a, b in itertools.combinations_with_replacement(labels, 2):
        if a.startswith("fixed:") and b.startswith("fixed:"):
            continue
        ctx.instance("C01.identifier-hygiene")
        key = f"{a} ~ {b}"
        clash = None
        for i, t1 in enumerate(templates[a]):
            for j, t2 in enumerate(templates[b]):
                if a == b and i == j:
                    # same template: injective in its arguments iff every token is a single placeholder/literal
                    continue
                if unify(t1, t2, name_re):
                    clash = (t1, t2)
        if clash:
            ctx.fail(
                "C01.identifier-hygiene",
                key,
                f"both can produce the same identifier (token shapes {fmt(clash[0])} and {fmt(clash[1])}): the kernel's meaning then depends on the names chosen",
            )
        else:
            ctx.ok("C01.identifier-hygiene", key)
    return ix


def fmt(toks):
    return "_".join("".join(p[1] if p[0] == "lit" else "<" + p[0] + ">" for p in t) for t in toks)
