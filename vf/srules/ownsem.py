"""C13: the ownership layer evaluated abstractly (vf.srules.symeval) in a model of cffi.

`allocate_taco_structure`, `take_ownership_of_arrays` and `taco_structure_to_cffi` are interpreted from
their source over every combination of level modes up to order 3.  cffi is replaced by a model that
records what matters for ownership and nothing else:

  ffi.new(type, init)      a fresh cdata object (arrays copy their initialiser, as cffi does); cffi frees
                           it when the Python object dies, so something must keep it alive
  ffi.cast(type, x)        the same object
  ffi.gc(ptr, destructor)  a wrapper object; when IT dies, destructor(ptr) runs
  ffi.release(x)           an eager free (never acceptable here)
  global_weakkeydict       a mapping from the structure object to its holder

Pointers written by a kernel are opaque symbols stored into the structure between allocation and
hand-over.  The verdicts are about the object graph that results, so they do not depend on the names
of locals, on loops versus unrolled code, or on helpers:

  * exactly the pointers a kernel mallocs (pos and crd of every compressed level, and vals - the K rule
    C13.slots shows kernels fill exactly these) are wrapped, each once, with `free` as destructor;
  * every wrapper, and every cdata whose address is stored in the structure, is reachable from the
    holder registered under THIS structure (so it lives exactly as long as the structure);
  * nothing that cffi owns (`ffi.new`) is given a `free` destructor, nothing is released eagerly.
"""

from __future__ import annotations

import itertools

from . import symeval as S

OWN = "tensora.compile._cffi_ownership"


class CArr(list):
    """A cdata array / pointer table (identity matters, content is a list)."""

    __hash__ = object.__hash__

    def __eq__(self, other):
        return self is other

    def __ne__(self, other):
        return self is not other


class World:
    def __init__(self, ix):
        self.ix = ix
        self.NULL = S.Obj("NULL")
        self.FREE = S.Obj("free")
        self.gc_calls = []
        self.news = []
        self.releases = []
        self.weak = {}
        self.structs = []
        w = self

        def new(ctype, init=None):
            if isinstance(ctype, str) and ctype.replace(" ", "") in ("taco_tensor_t*", "taco_tensor_t[1]"):
                o = S.Obj("struct", ctype=ctype)
                w.structs.append(o)
                return o
            if isinstance(init, (list, tuple)):
                o = CArr(init)
            elif isinstance(init, int) and not isinstance(init, bool):
                o = CArr([0] * init)
            else:
                o = CArr([] if init is None else [init])
            w.news.append(o)
            return o

        def cast(ctype, x):
            return x

        def gc(ptr, destructor, size=0):
            wr = S.Obj("gcwrapper", ptr=ptr, destructor=destructor)
            w.gc_calls.append(wr)
            return wr

        def release(x):
            w.releases.append(x)

        self.tensor_cdefs = S.Obj("ffi", new=new, cast=cast, gc=gc, release=release, NULL=self.NULL, sizeof=lambda *a: 4)
        self.tensor_lib = S.Obj("lib", taco_mode_dense=0, taco_mode_sparse=1, free=self.FREE)
        self.globals = {
            "tensor_cdefs": self.tensor_cdefs,
            "tensor_lib": self.tensor_lib,
            "global_weakkeydict": self.weak,
        }
        for q, f in ix.funcs.items():
            if f.module == OWN and q == f"{OWN}.{f.name}":
                self.globals.setdefault(f.name, f.node)
        self.globals["pairwise"] = lambda xs: tuple(itertools.pairwise(xs))

    def run(self, fname, args, kwargs=None):
        fn = self.ix.func(f"{OWN}.{fname}").node
        outs = list(S.explore(fn, args, kwargs or {}, globals_=self.globals))
        if len(outs) != 1:
            return ("uninterpretable", f"{fname} forks on symbolic values ({len(outs)} outcomes)")
        return outs[0][1]


def reachable(root):
    """Objects reachable from a holder through dict values, list/tuple items and gc wrappers' own fields
    (a wrapper keeps nothing else alive; a cdata array keeps only itself alive: the addresses stored in
    it are raw pointers)."""
    seen = []
    work = [root]
    while work:
        x = work.pop()
        if any(x is y for y in seen):
            continue
        seen.append(x)
        if isinstance(x, CArr):
            continue
        if isinstance(x, dict):
            work.extend(x.values())
        elif isinstance(x, (list, tuple)):
            work.extend(x)
    return seen


def is_in(x, xs):
    return any(x is y for y in xs)


def check_kernel_output(ix, modes):
    """allocate -> (kernel writes pointers) -> take_ownership_of_arrays, for one tuple of level modes, over
    every path of take_ownership_of_arrays (it may branch on what the kernel wrote).  Returns problems."""
    problems = []
    work = [{}]
    n_paths = 0
    while work:
        assume = work.pop()
        n_paths += 1
        if n_paths > 64:
            problems.append("take_ownership_of_arrays has too many paths to enumerate")
            break
        w = World(ix)
        order = len(modes)
        out = w.run("allocate_taco_structure", [list(modes), [2 + k for k in range(order)], list(range(order))])
        if out[0] != "return" or not (isinstance(out[1], S.Obj) and out[1].tag == "struct"):
            return [f"allocate_taco_structure does not return a structure: {out}"]
        st = out[1]
        if not any(k is st for k in w.weak):
            return ["allocate_taco_structure does not register a holder under the structure it returns"]
        if len(w.weak) != 1:
            problems.append("holder registered under more than one key")
        # what the structure points to must be kept alive by the holder
        problems += dangling(w, st, "after allocation")
        # the kernel fills its slots
        kernel = {}
        st.attrs["vals"] = kernel["vals"] = S.Sym("kernel_vals")
        idx = st.attrs.get("indices")
        for l, m in enumerate(modes):
            if m == 1:
                try:
                    idx[l][0] = kernel[f"pos{l}"] = S.Sym(f"kernel_pos{l}")
                    idx[l][1] = kernel[f"crd{l}"] = S.Sym(f"kernel_crd{l}")
                except (TypeError, IndexError):
                    return problems + [f"structure has no room for the two arrays of compressed level {l}"]
        before = len(w.gc_calls)
        fn = ix.func(f"{OWN}.take_ownership_of_arrays").node
        ev = S.Evaluator(fn, assume, w.globals)
        try:
            ev.run_function(fn, [st], {}, {})
        except S.Fork as f:
            for val in (True, False):
                a_ = dict(assume)
                a_[f.key] = val
                work.append(a_)
            continue
        except S.Raised as r:
            problems.append(f"take_ownership_of_arrays raises {r.exc}")
            continue
        except S.Uninterpretable as ex:
            problems.append(f"take_ownership_of_arrays not interpretable: {ex}")
            continue
        where = f" (when {', '.join(f'{k[0]} {chr(61)*2 if v else chr(33)+chr(61)} {k[1]}' for k, v in assume.items())})" if assume else ""
        wrappers = w.gc_calls[before:]
        holder = next(v for k, v in w.weak.items() if k is st)
        alive = reachable(holder)
        for name, ptr in kernel.items():
            ws = [x for x in wrappers if x.attrs["ptr"] is ptr]
            if not ws:
                problems.append(f"the kernel's {name} array gets no finaliser (leak){where}")
            elif len(ws) > 1:
                problems.append(f"the kernel's {name} array gets {len(ws)} finalisers (double free){where}")
            else:
                if ws[0].attrs["destructor"] is not w.FREE:
                    problems.append(f"the finaliser of {name} is not free")
                if not is_in(ws[0], alive):
                    problems.append(f"the finaliser of {name} is not stored in the holder registered under the structure: it runs too early or with an unrelated object")
        for x in wrappers:
            if not any(x.attrs["ptr"] is p for p in kernel.values()):
                what = "memory that cffi owns" if is_in(x.attrs["ptr"], w.news) else "a pointer the kernel did not allocate"
                problems.append(f"a free() finaliser is attached to {what} ({x.attrs['ptr']!r})")
        if w.releases:
            problems.append("memory is released eagerly")
        if len(w.weak) != 1 or not any(k is st for k in w.weak):
            problems.append("hand-over registers a holder under another object than the structure")
    return problems


def dangling(w, st, when):
    holder = next((v for k, v in w.weak.items() if k is st), None)
    alive = reachable(holder) if holder is not None else []
    problems = []

    def pointee(x, path):
        if isinstance(x, CArr):
            if not is_in(x, alive):
                problems.append(f"{path} points to memory that nothing keeps alive {when} (dangling once the local dies)")
            for i, y in enumerate(x):
                pointee(y, f"{path}[{i}]")

    for fld in ("dimensions", "mode_ordering", "mode_types", "indices", "vals"):
        if fld in st.attrs:
            pointee(st.attrs[fld], fld)
    return problems


def check_python_data(ix, modes):
    """taco_structure_to_cffi on a small valid structure: everything the structure points to is kept alive
    by its holder, nothing gets a free() finaliser (cffi owns it)."""
    w = World(ix)
    order = len(modes)
    dims = [2 + k for k in range(order)]
    indices = []
    n = 1
    for l, m in enumerate(modes):
        if m == 0:
            indices.append([])
            n *= dims[l]
        else:
            indices.append([[0] + [1] * n, [0]])
            n = 1
    vals = [1.0] * n
    out = w.run("taco_structure_to_cffi", [indices, vals], {"mode_types": tuple(modes), "dimensions": tuple(dims), "mode_ordering": tuple(range(order))})
    if out[0] != "return" or not (isinstance(out[1], S.Obj) and out[1].tag == "struct"):
        return [f"taco_structure_to_cffi does not return a structure for valid data: {out}"]
    st = out[1]
    problems = dangling(w, st, "after construction from Python data")
    if not any(k is st for k in w.weak):
        problems.append("no holder registered under the structure")
    for x in w.gc_calls:
        if x.attrs["destructor"] is w.FREE and is_in(x.attrs["ptr"], w.news):
            problems.append("memory that cffi owns is given a free() finaliser (freed twice)")
    if w.releases:
        problems.append("memory is released eagerly")
    # the arrays hold the data given
    got_vals = st.attrs.get("vals")
    if not (isinstance(got_vals, CArr) and list(got_vals) == vals):
        problems.append("vals of the structure are not the values given")
    return problems


def rule_ownership_semantics(ctx, ix):
    ctx.rule(
        "C13.ownership-semantics",
        "object graph after allocate / hand-over / construction: kernel arrays wrapped once with free and held by the structure's holder; nothing dangling",
        min_instances=20,
    )
    for order in range(0, 6 if getattr(ctx, "tier", "quick") == "thorough" else 4):
        for modes in itertools.product((0, 1), repeat=order):
            label = "".join("ds"[m] for m in modes) or "scalar"
            for what, fn in (("kernel output", check_kernel_output), ("Python data", check_python_data)):
                ctx.instance("C13.ownership-semantics")
                key = f"compile/_cffi_ownership.py:{what}:{label}"
                try:
                    problems = fn(ix, modes)
                except S.Uninterpretable as ex:
                    problems = [f"not interpretable: {ex}"]
                if problems:
                    # one finding per distinct problem text (not per format)
                    for p_ in sorted(set(problems))[:3]:
                        ctx.fail("C13.ownership-semantics", f"compile/_cffi_ownership.py:{what}:{p_[:90]}", f"{p_} (e.g. format {label})")
                else:
                    ctx.ok("C13.ownership-semantics", key)


# ------------------------------------------------------------------------------------------------
# hand-over in TensorMethod.__call__
# ------------------------------------------------------------------------------------------------
def rule_handover_semantics(ctx, ix):
    """TensorMethod.__call__ evaluated abstractly with an event log: on every path that enters the kernel,
    the structure passed as the kernel's output is one this call allocated, and between the kernel's return
    and the end of the path (return OR raise) it is handed to take_ownership_of_arrays exactly once; no
    other object is ever handed over; the value returned is a Tensor wrapping that structure."""
    from .tensorapi import TM, call_scenario

    ctx.rule("C13.hand-over", "kernel output is handed to the ownership layer exactly once on every path out of the kernel call", min_instances=3)
    fn = ix.func(f"{TM}.__call__").node
    tm_mod = TM.rsplit(".", 1)[0]
    MG = {f.name: f.node for q, f in ix.funcs.items() if f.module == tm_mod and q == f"{tm_mod}.{f.name}"}
    for text, target_first in (("y(i) = A(i,j) * x(j)", True), ("a() = b(i) * c(i)", True), ("A(i,j) = B(i,j) + C(j,i)", True), ("y(i) = A(i,j) * x(j)", False)):
        ctx.instance("C13.hand-over")
        key = f"compile/_tensor_method.py:TensorMethod.__call__:{text}" + ("" if target_first else " [Problem lists the target last]")
        problems = []
        n_kernel_paths = 0
        work = [{}]
        while work:
            assume = work.pop()
            events = []

            def evaluate(*args, _ev=events):
                _ev.append(("kernel", args))
                return S.Sym("return_code")

            def allocate(*args, _ev=events, **kwargs):
                st = S.Obj("struct")
                _ev.append(("alloc", st))
                return st

            def take(x, *rest, _ev=events, **kw):
                _ev.append(("own", x))

            def other_owner(name):
                def f(x, *rest, _ev=events, **kw):
                    _ev.append(("own-other:" + name, x))

                return f

            self_, tensors, _parts, _formats = call_scenario(text, 0, evaluate, target_first, ix=ix)
            def finalizer(*args, _ev=events, **kw):
                _ev.append(("finalize", args))
                return S.Obj("finalizer")

            # the other functions of the ownership module are interpreted from source (a helper that wraps the kernel
            # call, say); the take_ownership_* family and anything that releases are ownership operations
            others = {f.name: f.node for q, f in ix.funcs.items() if f.module == OWN and q == f"{OWN}.{f.name}"}
            for nm in list(others):
                if nm.startswith("take_ownership") or "release" in nm or "free" in nm:
                    others[nm] = other_owner(nm)
            wmodel = World(ix)
            others.update({"tensor_cdefs": wmodel.tensor_cdefs, "tensor_lib": wmodel.tensor_lib, "global_weakkeydict": wmodel.weak})
            G = {
                **others,
                **MG,
                "finalize": finalizer,
                "weakref": S.Obj("module", finalize=finalizer),
                "allocate_taco_structure": allocate,
                "take_ownership_of_arrays": take,
                "take_ownership_of_tensor": other_owner("take_ownership_of_tensor"),
                "take_ownership_of_tensor_members": other_owner("take_ownership_of_tensor_members"),
                "RuntimeError": lambda *a: S.Obj("Exception", name="RuntimeError"),
            }
            ev = S.Evaluator(fn, assume, G)
            outcome = None
            try:
                v = ev.run_function(fn, [self_], dict(tensors), {})
                outcome = ("return", v)
            except S.Raised as r:
                outcome = ("raise", r.exc)
            except S.Fork as f:
                for val in (True, False):
                    a = dict(assume)
                    a[f.key] = val
                    work.append(a)
                continue
            except S.Uninterpretable as ex:
                problems.append(f"not interpretable: {ex}")
                continue
            ks = [i for i, e in enumerate(events) if e[0] == "kernel"]
            owns = [(i, e) for i, e in enumerate(events) if e[0].startswith("own")]
            if not ks:
                if owns:
                    problems.append("ownership is taken on a path that never runs the kernel")
                continue
            n_kernel_paths += 1
            if len(ks) > 1:
                problems.append("the kernel runs more than once in one call")
            allocated = [e[1] for e in events[: ks[0]] if e[0] == "alloc"]
            kargs = list(events[ks[0]][1])
            outs_ = [a for a in kargs if any(a is b for b in allocated)]
            out = outs_[0] if len(outs_) == 1 else None
            if out is None:
                problems.append("the kernel is not given exactly one structure allocated by this call as its output")
            good = [i for i, e in owns if e[0] == "own" and e[1] is out and i > ks[0]]
            if len(good) == 0:
                how = "raises" if outcome[0] == "raise" else "returns"
                problems.append(f"a path that ran the kernel {how} without handing the output's arrays to the ownership layer (leak)")
            elif len(good) > 1:
                problems.append("the output is handed to the ownership layer more than once (two finalisers: double free)")
            for e in events:
                if e[0] == "finalize":
                    problems.append("a weakref.finalize callback is registered: the arrays' release is tied to another object's death (the Tensor wrapper), not the structure's")
            for i, e in owns:
                if e[1] is not out or e[0] != "own":
                    problems.append(f"{e[0]} is applied to an object that is not this call's output (an input's arrays get a second finaliser)")
                elif i < ks[0]:
                    problems.append("ownership is taken before the kernel has filled the structure")
            if outcome[0] == "return":
                v = outcome[1]
                if not (isinstance(v, S.Obj) and v.tag == "Tensor" and v.attrs.get("cffi_tensor") is out):
                    problems.append("the value returned is not a Tensor wrapping the kernel's output structure")
        if n_kernel_paths == 0:
            problems.append("no path runs the kernel")
        if problems:
            ctx.fail("C13.hand-over", key, "; ".join(sorted(set(problems)))[:600])
        else:
            ctx.ok("C13.hand-over", key + f" [{n_kernel_paths} kernel paths]")
    # Tensor keeps the structure: Tensor.__init__(self, struct) stores struct on self
    ctx.instance("C13.hand-over")
    key = "tensor.py:Tensor.__init__ keeps a strong reference to the struct"
    init = ix.func("tensora.tensor.Tensor.__init__").node
    me = S.Obj("TensorSelf")
    st = S.Obj("struct")
    outs = list(S.explore(init, [me, st], globals_={}))
    if len(outs) == 1 and outs[0][1][0] == "return" and any(v is st for v in me.attrs.values()):
        ctx.ok("C13.hand-over", key)
    else:
        ctx.fail("C13.hand-over", key, "Tensor does not hold the struct it is built from: the arrays may be freed while the Tensor is alive")
