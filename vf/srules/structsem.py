"""C09: the functions that walk the stored structure, evaluated abstractly over a SYMBOLIC structure.

For every format up to order 3 (all mode combinations x all orderings) the reader methods of Tensor
(`taco_indices`, `taco_vals`, `items`) and the validator `taco_structure_to_cffi` are interpreted from
their source by vf.srules.symeval with

  * symbolic dimension sizes D0, D1, ... (vf.srules.symint polynomials),
  * arrays of unknown content and length (`pos0`, `crd0`, ..., `vals`): an element is the atom `pos0[<index
    polynomial>]`, a slice keeps symbolic bounds,
  * loops over a symbolic range / array executed once with a fresh variable and the recorded fact
    `lo <= r < hi` (the loop bodies here carry no state between iterations),
  * comparisons of symbolic quantities forking the evaluation with the assumption recorded.

The verdicts compare normal forms of polynomials, so they do not depend on names of locals, on helper
functions, on statement order or on how a condition is spelled:

  readers    the number of positions P_l follows P_0 = 1, P_{l+1} = P_l * D_{ordering[l]} (dense) or
             pos_l[P_l] (compressed, = len(crd_l)); pos_l is read on [0, P_l + 1), crd_l on [0, pos_l[P_l]),
             vals on [0, P_L); items() visits position p*D + i for every 0 <= i < D (dense) or every
             pos_l[p] <= q < pos_l[p+1] with coordinate crd_l[q] (compressed), reads vals at the final
             position and reports the coordinate in DIMENSION order (inverse of the level ordering);
  validator  on the path that does not raise, the assumptions contain: len(pos_l) = P_l + 1, pos_l[0] = 0,
             pos_l non-decreasing, len(crd_l) = last entry of pos_l, 0 <= crd_l[k] < D_{ordering[l]},
             len(vals) = P_L; every other path raises ValueError; malformed level shapes raise.
"""

from __future__ import annotations

import ast
import itertools

from . import symeval as S
from .symint import Poly, SymList

T_MOD = "tensora.tensor"
OWN = "tensora.compile._cffi_ownership"


def formats(max_order=3):
    for order in range(0, max_order + 1):
        for modes in itertools.product((0, 1), repeat=order):
            for ordering in itertools.permutations(range(order)):
                yield modes, ordering


def label(modes, ordering):
    if not modes:
        return "scalar"
    nat = tuple(ordering) == tuple(range(len(modes)))
    return "".join("ds"[m] + ("" if nat else str(o)) for m, o in zip(modes, ordering))


def tensor_methods(ix):
    """Methods and properties of class Tensor, for attribute look-up on the symbolic tensor (a reader may be
    written in terms of another reader or of a helper property)."""
    return {f.name: f.node for q, f in ix.funcs.items() if q == f"{T_MOD}.Tensor.{f.name}"}


def reader_self(modes, ordering, ix=None):
    order = len(modes)
    dims = tuple(Poly.atom(f"D{d}") for d in range(order))
    table = tuple((SymList(f"pos{l}"), SymList(f"crd{l}")) for l in range(order))
    vals = SymList("vals")
    cffi = S.Obj("cffi_tensor", indices=table, vals=vals)
    me = S.Obj(
        "Tensor",
        order=order,
        dimensions=dims,
        modes=tuple(S.DENSE if m == 0 else S.COMPRESSED for m in modes),
        mode_ordering=tuple(ordering),
        cffi_tensor=cffi,
    )
    if ix is not None:
        me.attrs["__methods__"] = tensor_methods(ix)
    return me, dims


def expected_positions(modes, ordering, dims):
    """P_0..P_L as polynomials (reader view: compressed continues with pos_l[P_l])."""
    P = [Poly.const(1)]
    for l, m in enumerate(modes):
        if m == 0:
            P.append(P[-1] * dims[ordering[l]])
        else:
            P.append(Poly.atom(f"pos{l}[{P[-1]!r}]"))
    return P


READER_G = {"tensor_cdefs": S.Obj("ffi", cast=lambda t, x: x)}


def one_path(fn, args, G):
    outs = list(S.explore_ev(fn, args, {}, G))
    return outs


def check_taco_indices(ix, modes, ordering):
    fn = ix.func(f"{T_MOD}.Tensor.taco_indices").node
    me, dims = reader_self(modes, ordering, ix)
    outs = one_path(fn, [me], READER_G)
    if len(outs) != 1 or outs[0][1][0] != "return":
        return [f"taco_indices: {[o[1] for o in outs][:2]}"]
    got = outs[0][1][1]
    P = expected_positions(modes, ordering, dims)
    problems = []
    if not isinstance(got, list) or len(got) != len(modes):
        return [f"taco_indices returns {got!r}: not one entry per level"]
    # the writer side continues a compressed level with len(crd): the reader reads crd on [0, pos[P]) so both agree
    for l, m in enumerate(modes):
        if m == 0:
            if got[l] != []:
                problems.append(f"level {l} (dense): expected no arrays, got {got[l]!r}")
        else:
            want_pos = SymList(f"pos{l}", 0, P[l] + 1)
            want_crd = SymList(f"crd{l}", 0, Poly.atom(f"pos{l}[{P[l]!r}]"))
            if not (isinstance(got[l], list) and len(got[l]) == 2 and want_pos.same(got[l][0]) and want_crd.same(got[l][1])):
                problems.append(f"level {l} (compressed): read {got[l]!r}, expected [{want_pos!r}, {want_crd!r}] (positions + 1 pos entries, pos[positions] crd entries)")
    return problems


def check_taco_vals(ix, modes, ordering):
    fn = ix.func(f"{T_MOD}.Tensor.taco_vals").node
    me, dims = reader_self(modes, ordering, ix)
    outs = one_path(fn, [me], READER_G)
    if len(outs) != 1 or outs[0][1][0] != "return":
        return [f"taco_vals: {[o[1] for o in outs][:2]}"]
    got = outs[0][1][1]
    P = expected_positions(modes, ordering, dims)
    want = SymList("vals", 0, P[-1])
    if not want.same(got):
        return [f"taco_vals reads {got!r}, expected {want!r} (one value per position of the last level)"]
    return []


def check_items(ix, modes, ordering):
    fn = ix.func(f"{T_MOD}.Tensor.items").node
    me, dims = reader_self(modes, ordering, ix)
    outs = one_path(fn, [me], READER_G)
    if len(outs) != 1 or outs[0][1][0] != "return":
        return [f"items: {[o[1] for o in outs][:2]}"]
    (_assume, (_k, got), ev) = outs[0]
    if not isinstance(got, S.GenResult) or len(got.items) != 1:
        return [f"items yields {getattr(got, 'items', got)!r}: expected exactly one generic entry (one abstract iteration per level)"]
    entry = got.items[0]
    if not (isinstance(entry, tuple) and len(entry) == 2 and isinstance(entry[0], tuple)):
        return [f"items yields {entry!r}, expected (coordinate tuple, value)"]
    coord, value = entry
    facts = [f for f in ev.facts if f[3] == "range"]
    problems = []
    if len(facts) != len(modes):
        return [f"items walks {len(facts)} loops for {len(modes)} levels"]
    P = Poly.const(0)
    idx = []
    for l, m in enumerate(modes):
        r, lo, hi, _ = facts[l]
        v = Poly.atom(r)
        if m == 0:
            D = dims[ordering[l]]
            if not (lo == 0 and hi == D):
                problems.append(f"level {l} (dense) iterates [{lo!r}, {hi!r}), expected [0, {D!r}) - the level's own dimension")
            idx.append(v)
            P = P * D + v
        else:
            want_lo, want_hi = Poly.atom(f"pos{l}[{P!r}]"), Poly.atom(f"pos{l}[{(P + 1)!r}]")
            if not (lo == want_lo and hi == want_hi):
                problems.append(f"level {l} (compressed) iterates [{lo!r}, {hi!r}), expected [{want_lo!r}, {want_hi!r})")
            idx.append(Poly.atom(f"crd{l}[{v!r}]"))
            P = v
    want_value = Poly.atom(f"vals[{P!r}]")
    if not (isinstance(value, Poly) and value == want_value):
        problems.append(f"value read is {value!r}, expected {want_value!r} (the position reached after the last level)")
    want_coord = tuple(idx[list(ordering).index(d)] for d in range(len(modes)))
    if len(coord) != len(want_coord) or any(not (isinstance(c, Poly) and c == w) for c, w in zip(coord, want_coord)):
        problems.append(f"coordinate reported as {coord!r}, expected {want_coord!r} (dimension d is stored at the level l with ordering[l] == d)")
    return problems


# ------------------------------------------------------------------------------------------------
# validator
# ------------------------------------------------------------------------------------------------
def holds_eq(A, a, b):
    d = Poly.of(a) - Poly.of(b)
    if d.is_const():
        return d.value() == 0
    return A.get(("poly", min(repr(d), repr(-d)), "==0")) is True


def holds_le(A, a, b):
    """a <= b under assumptions A, in any of the spellings a comparison can take."""
    d = Poly.of(a) - Poly.of(b)
    if d.is_const():
        return d.value() <= 0
    return A.get(("poly", repr(d), "<=0")) is True or A.get(("poly", repr(-d), "<0")) is False


def holds_lt(A, a, b):
    d = Poly.of(a) - Poly.of(b)
    if d.is_const():
        return d.value() < 0
    return A.get(("poly", repr(d), "<0")) is True or A.get(("poly", repr(-d), "<=0")) is False


def check_validator(ix, modes, ordering):
    fn = ix.func(f"{OWN}.taco_structure_to_cffi").node
    order = len(modes)
    dims = tuple(Poly.atom(f"D{d}") for d in range(order))
    indices = [[] if m == 0 else [SymList(f"pos{l}"), SymList(f"crd{l}")] for l, m in enumerate(modes)]
    vals = SymList("vals")
    news = []

    def new(ctype, init=None):
        o = S.Obj("cdata", ctype=ctype, init=init)
        news.append(o)
        return o

    G = {
        "tensor_cdefs": S.Obj("ffi", new=new, cast=lambda t, x: x, NULL=S.Obj("NULL")),
        "tensor_lib": S.Obj("lib", taco_mode_dense=0, taco_mode_sparse=1),
        "allocate_taco_structure": lambda mt, d, mo: S.Obj("struct", order=len(mt), indices=[[None, None] for _ in mt]),
        "global_weakkeydict": _AnyHolder(),
        "pairwise": _pairwise,
    }
    for q, f in ix.funcs.items():
        if f.module == OWN and q == f"{OWN}.{f.name}":
            G.setdefault(f.name, f.node)
    problems = []
    ok_paths = []
    n_paths = 0
    for assume, (kind, val), ev in S.explore_ev(fn, [indices, vals], {"mode_types": tuple(modes), "dimensions": dims, "mode_ordering": tuple(ordering)}, G):
        n_paths += 1
        built = len(news)
        news.clear()
        if kind == "uninterpretable":
            problems.append(f"validator not interpretable: {val}")
        elif kind == "raise":
            if built:
                problems.append("arrays are built before all validation clauses ran (a rejected structure leaves cdata behind / is half-registered)")
            if val != "ValueError":
                problems.append(f"an invalid structure raises {val}, documented is ValueError")
        else:
            ok_paths.append((assume, ev))
    if not ok_paths and not problems:
        problems.append("no path accepts a structure")
    for A, ev in ok_paths:
        # the fresh variables of the abstract iterations, by array
        gen = {}
        for (k, lo, hi, what) in ev.facts:
            gen.setdefault(what, []).append((k, lo, hi))
        P = Poly.const(1)
        for l, m in enumerate(modes):
            if m == 0:
                P = P * dims[ordering[l]]
                continue
            lp, lc = Poly.atom(f"len(pos{l})"), Poly.atom(f"len(crd{l})")
            if not holds_eq(A, lp, P + 1):
                problems.append(f"a structure is accepted without len(pos{l}) == positions + 1 (positions = {P!r})")
            if not holds_eq(A, Poly.atom(f"pos{l}[0]"), 0):
                problems.append(f"a structure is accepted without pos{l}[0] == 0")
            mono = False
            for (k, lo, hi) in gen.get(f"pos{l}:pairs", []):
                a, b = Poly.atom(f"pos{l}[{k}]"), Poly.atom(f"pos{l}[{k}+1]")
                if holds_le(A, a, b) and lo == 0 and hi == lp - 1:
                    mono = True
            if not mono:
                problems.append(f"a structure is accepted without pos{l} being non-decreasing over all adjacent pairs")
            last = Poly.atom(f"pos{l}[{(lp - 1)!r}]")
            if not holds_eq(A, lc, last):
                problems.append(f"a structure is accepted without len(crd{l}) == last entry of pos{l}")
            rng = False
            D = dims[ordering[l]]
            for (k, lo, hi) in gen.get(f"crd{l}", []):
                x = Poly.atom(f"crd{l}[{k}]")
                if holds_le(A, 0, x) and holds_lt(A, x, D) and lo == 0 and hi == lc:
                    rng = True
            if not rng:
                problems.append(f"a structure is accepted without 0 <= crd{l}[k] < {D!r} for every k (a coordinate outside the dimension, or a negative one, gets in)")
            P = lc
        if not holds_eq(A, Poly.atom("len(vals)"), P):
            problems.append(f"a structure is accepted without len(vals) == positions of the last level ({P!r})")
    return problems, n_paths


class _AnyHolder(dict):
    """global_weakkeydict stand-in for the validator run: any key has a holder with every slot."""

    def __contains__(self, k):
        return True

    def __getitem__(self, k):
        if not dict.__contains__(self, id(k)):
            dict.__setitem__(self, id(k), _Slots())
        return dict.__getitem__(self, id(k))


class _Slots(dict):
    def __contains__(self, k):
        return True

    def __getitem__(self, k):
        if not dict.__contains__(self, k):
            dict.__setitem__(self, k, [[None, None] for _ in range(8)])
        return dict.__getitem__(self, k)


def _pairwise(xs):
    if isinstance(xs, SymList):
        return _Pairs(xs)
    return tuple(itertools.pairwise(xs))


class _Pairs:
    """pairwise(<array of unknown content>): one generic adjacent pair (a[k], a[k+1]), lo <= k < hi - 1."""

    def __init__(self, lst):
        self.lst = lst

    def symiter(self, ev):
        k = ev.fresh("k")
        ev.facts.append((k, self.lst.lo, self.lst.hi - 1, f"{self.lst.name}:pairs"))
        return [(Poly.atom(f"{self.lst.name}[{k}]"), Poly.atom(f"{self.lst.name}[{k}+1]"))]


def check_validator_shapes(ix):
    """Concrete probes of the level SHAPES (not contents): a dense level with arrays, a compressed level
    with one array, a wrong number of levels must raise ValueError."""
    fn = ix.func(f"{OWN}.taco_structure_to_cffi").node
    G = {
        "tensor_cdefs": S.Obj("ffi", new=lambda *a: S.Obj("cdata"), cast=lambda t, x: x, NULL=S.Obj("NULL")),
        "tensor_lib": S.Obj("lib", taco_mode_dense=0, taco_mode_sparse=1),
        "allocate_taco_structure": lambda mt, d, mo: S.Obj("struct", order=len(mt), indices=[[None, None] for _ in mt]),
        "global_weakkeydict": _AnyHolder(),
        "pairwise": _pairwise,
    }
    for q, f in ix.funcs.items():
        if f.module == OWN and q == f"{OWN}.{f.name}":
            G.setdefault(f.name, f.node)
    problems = []
    D = Poly.atom("D0")
    probes = [
        ("a dense level given index arrays", [[SymList("pos0"), SymList("crd0")]], (0,)),
        ("a compressed level given one array", [[SymList("pos0")]], (1,)),
        ("fewer levels than modes", [], (0,)),
    ]
    for what, indices, modes in probes:
        outs = list(S.explore_ev(fn, [indices, SymList("vals")], {"mode_types": modes, "dimensions": (D,), "mode_ordering": (0,)}, G))
        if not outs or any(k != "raise" or v != "ValueError" for _a, (k, v), _e in outs):
            problems.append(f"{what} is not rejected with ValueError on every path ({[o[1] for o in outs][:2]})")
    return problems


def rule_structure_semantics(ctx, ix):
    ctx.rule(
        "C09.structure-semantics",
        "readers and validator agree with the format's position recurrences on a symbolic structure (every format up to order 3)",
        min_instances=200,
    )
    fails = {}
    n = 0
    for modes, ordering in formats(4 if getattr(ctx, "tier", "quick") == "thorough" else 3):
        lab = label(modes, ordering)
        for what, fn in (("Tensor.taco_indices", check_taco_indices), ("Tensor.taco_vals", check_taco_vals), ("Tensor.items", check_items)):
            n += 1
            ctx.instance("C09.structure-semantics")
            try:
                problems = fn(ix, modes, ordering)
            except S.Uninterpretable as ex:
                problems = [f"not interpretable: {ex}"]
            for p_ in problems:
                fails.setdefault((f"tensor.py:{what}", p_.split(":")[0][:70] if what != "Tensor.items" else p_[:50]), (p_, lab))
            if not problems:
                ctx.ok("C09.structure-semantics")
        ctx.instance("C09.structure-semantics")
        try:
            problems, _np = check_validator(ix, modes, ordering)
        except S.Uninterpretable as ex:
            problems = [f"not interpretable: {ex}"]
        for p_ in problems:
            # one finding per clause kind (level numbers abstracted)
            import re as _re

            kind = _re.sub(r"[0-9]+", "N", p_)[:90]
            fails.setdefault(("compile/_cffi_ownership.py:taco_structure_to_cffi", kind), (p_, lab))
        if not problems:
            ctx.ok("C09.structure-semantics")
    ctx.instance("C09.structure-semantics")
    try:
        shape_problems = check_validator_shapes(ix)
    except S.Uninterpretable as ex:
        shape_problems = [f"not interpretable: {ex}"]
    for p_ in shape_problems:
        fails.setdefault(("compile/_cffi_ownership.py:taco_structure_to_cffi", p_[:70]), (p_, "probe"))
    if not shape_problems:
        ctx.ok("C09.structure-semantics")
    for (where, kind), (msg, lab) in fails.items():
        ctx.fail("C09.structure-semantics", f"{where}:{kind}", f"{msg} (e.g. format {lab})")


# ------------------------------------------------------------------------------------------------
# construction: from_aos over SYMBOLIC coordinates
# ------------------------------------------------------------------------------------------------
def reference_structure(modes, ordering, dims, entries):
    """Canonical taco structure of `entries` [(coordinate tuple of ints in dimension order, value Poly)]:
    (indices, vals).  Straight from the definition of the format: levels in storage order, a dense level
    enumerates its whole dimension, a compressed level stores the sorted distinct coordinates; duplicates
    are summed; absent cells of dense levels hold 0."""
    order = len(modes)
    lv_entries = [(tuple(c[ordering[l]] for l in range(order)), v) for c, v in entries]
    lv_dims = [dims[ordering[l]] for l in range(order)]
    indices = [[] if m == 0 else [[0], []] for m in modes]
    vals = []
    if order == 0:
        total = Poly.const(0)
        for _c, v in lv_entries:
            total = total + v
        return indices, [total]

    def rec(items, l):
        if modes[l] == 0:
            keys = list(range(lv_dims[l]))
        else:
            keys = sorted({c[l] for c, _ in items})
            indices[l][0].append(indices[l][0][-1] + len(keys))
            indices[l][1].extend(keys)
        for k in keys:
            sub = [(c, v) for c, v in items if c[l] == k]
            if l == order - 1:
                total = Poly.const(0)
                for _c, v in sub:
                    total = total + v
                vals.append(total)
            else:
                rec(sub, l + 1)

    rec(lv_entries, 0)
    return indices, vals


def _as_poly(x):
    if isinstance(x, Poly):
        return x
    if isinstance(x, float) and x == int(x):
        return Poly.const(int(x))
    if isinstance(x, int) and not isinstance(x, bool):
        return Poly.const(x)
    return x


def check_construction(ix, modes, ordering, n_entries, dim=2):
    """Tensor.from_aos with n symbolic coordinates: on every feasible path (= order type of the coordinates
    relative to each other and to the dimension bounds) the structure handed to taco_structure_to_cffi is
    the canonical structure of the entries; a coordinate outside the dimensions must not be accepted."""
    fn = ix.func(f"{T_MOD}.Tensor.from_aos").node
    order = len(modes)
    dims = tuple(dim + d for d in range(order))  # distinct sizes: a dimension taken from the wrong axis shows
    coords = [tuple(Poly.atom(f"c{e}_{d}") for d in range(order)) for e in range(n_entries)]
    values = [Poly.atom(f"v{e}") for e in range(n_entries)]
    fmt = S.make_format(tuple(S.DENSE if m == 0 else S.COMPRESSED for m in modes), tuple(ordering))
    atoms = [f"c{e}_{d}" for e in range(n_entries) for d in range(order)]
    problems = {}
    n_paths = 0
    n_feasible = 0
    calls = []

    def to_cffi(indexes, vals, mode_types=None, dimensions=None, mode_ordering=None, **kw):
        calls.append((indexes, vals, mode_types, dimensions, mode_ordering, kw))
        return S.Obj("struct")

    G = {f.name: f.node for q, f in ix.funcs.items() if f.module == T_MOD and q == f"{T_MOD}.{f.name}"}
    G.update({"taco_structure_to_cffi": to_cffi, "str": S.Obj("Class", name="str"), "Format": S.Obj("Class", name="Format")})
    for assume, (kind, val), ev in S.explore_ev(fn, [coords, values], {"dimensions": dims, "format": fmt}, G, limit=4000):
        n_paths += 1
        if kind == "uninterpretable":
            problems.setdefault(f"from_aos not interpretable: {val}"[:110], "")
            calls.clear()
            continue
        # the witnesses of this path: every assignment of integers (in range and out of range) to the coordinate
        # atoms that satisfies the path's assumptions - one per order type the path covers
        witnesses = []
        domains = [tuple(range(dims[int(a.rsplit("_", 1)[1])])) + (-1, dims[int(a.rsplit("_", 1)[1])]) for a in atoms]
        for cand in itertools.product(*domains):
            env = dict(zip(atoms, cand))
            good = True
            for key, truth in assume.items():
                if key[0] != "poly":
                    continue
                d = S.POLY_OF_KEY.get(key)
                if d is None or not (d.atoms() <= set(atoms)):
                    continue
                v = d.evaluate(env).value()
                holds = {"==0": v == 0, "<0": v < 0, "<=0": v <= 0}[key[2]]
                if holds != truth:
                    good = False
                    break
            if good:
                witnesses.append(env)
        my_calls = list(calls)
        calls.clear()
        if not witnesses:
            continue  # contradictory assumptions: not a path of any input
        n_feasible += 1
        for witness in witnesses:
            _judge(witness, kind, val, my_calls, modes, ordering, dims, dim, atoms, values, n_entries, problems)
    return problems, n_paths, n_feasible


def _judge(witness, kind, val, my_calls, modes, ordering, dims, dim, atoms, values, n_entries, problems):
    order = len(modes)
    for _once in (0,):
        entries = [(tuple(witness[f"c{e}_{d}"] for d in range(order)), values[e]) for e in range(n_entries)]
        out_of_range = [(e, d) for e in range(n_entries) for d in range(order) if not (0 <= witness[f"c{e}_{d}"] < dims[d])]
        shown = {a: witness[a] for a in atoms}
        if out_of_range:
            # (the validator, checked separately, rejects what reaches a compressed level's crd array; here the question
            # is whether from_aos hands the validator a structure that still CONTAINS the offending coordinate)
            if kind == "raise":
                continue
            bad_levels = {list(ordering).index(d) for _e, d in out_of_range}
            if not my_calls:
                problems.setdefault("from_aos returns without building a structure", shown)
                continue
            idx = my_calls[-1][0]
            kept = False
            for l in bad_levels:
                if modes[l] == 1:
                    try:
                        crd = [(_as_poly(x).evaluate(witness).value() if isinstance(_as_poly(x), Poly) else x) for x in idx[l][1]]
                    except Exception:  # noqa: BLE001
                        crd = []
                    if any(not (0 <= c < dims[ordering[l]]) for c in crd if isinstance(c, int)):
                        kept = True
            skip_flags = {k: v for k, v in my_calls[-1][5].items()}
            if all(modes[l] == 0 for l in bad_levels) or not kept:
                problems.setdefault("DROPPED", shown)
            elif skip_flags:
                problems.setdefault(
                    f"an out-of-range coordinate on a compressed level reaches the validator with {skip_flags} (validation switched off by the caller)", shown
                )
            continue
        if kind == "raise":
            problems.setdefault(f"in-range coordinates are rejected with {val}", shown)
            continue
        if len(my_calls) != 1:
            problems.setdefault(f"taco_structure_to_cffi is called {len(my_calls)} times", shown)
            continue
        idx, vals, mt, dd, mo, kw = my_calls[0]
        if kw:
            problems.setdefault(f"the validator is called with extra switches {sorted(kw)}", shown)
        want_idx, want_vals = reference_structure(modes, ordering, dims, entries)
        try:
            got_idx = [[[_as_poly(x).evaluate(witness).value() for x in arr] for arr in lvl] for lvl in idx]
            got_vals = [_as_poly(x).evaluate(witness) if isinstance(_as_poly(x), Poly) else x for x in vals]
        except Exception as ex:  # noqa: BLE001
            problems.setdefault(f"structure not evaluable: {ex}"[:100], shown)
            continue
        if got_idx != want_idx:
            problems.setdefault("level arrays differ from the canonical structure (sorted, duplicate-free, pos = running count)", f"coordinates {shown}: got {got_idx}, expected {want_idx}")
        elif got_vals != want_vals:
            problems.setdefault("values differ from the canonical structure (duplicates summed, stored order, zeros for absent dense cells)", f"coordinates {shown}: got {got_vals}, expected {want_vals}")
        if tuple(mt or ()) != tuple(modes) or tuple(mo or ()) != tuple(ordering) or tuple(dd or ()) != dims:
            problems.setdefault("modes / dimensions / ordering handed to the validator are not those of the request", f"{mt} {dd} {mo}")


def rule_construction_semantics(ctx, ix):
    ctx.rule(
        "C09.construction-semantics",
        "from_aos over symbolic coordinates: every order type of up to 3 entries gives the canonical structure (formats up to order 2)",
        min_instances=10,
    )
    ctx.rule("C09.mapping-consumption", "no coordinate is silently dropped when the tree is flattened", min_instances=1)
    dropped = None
    total_feasible = 0
    thorough = getattr(ctx, "tier", "quick") == "thorough"
    for modes, ordering in formats(2):
        n_entries = (4 if thorough else 3) if len(modes) <= 1 else 2
        lab = label(modes, ordering)
        ctx.instance("C09.construction-semantics")
        try:
            problems, n_paths, n_feasible = check_construction(ix, modes, ordering, n_entries)
        except S.Uninterpretable as ex:
            problems, n_paths, n_feasible = {f"not interpretable: {ex}": ""}, 0, 0
        total_feasible += n_feasible
        if "DROPPED" in problems:
            d_ = problems.pop("DROPPED")
            dropped = dropped or (lab, d_)
        if problems:
            for why, ex in problems.items():
                ctx.fail("C09.construction-semantics", f"tensor.py:Tensor.from_aos:{why[:90]}", f"{why}; e.g. format {lab}, {ex}")
        else:
            ctx.ok("C09.construction-semantics", f"tensor.py:Tensor.from_aos:{lab} [{n_feasible} order types]")
    ctx.extra["construction_order_types"] = total_feasible
    ctx.instance("C09.mapping-consumption")
    key = "tensor.py:Tensor.from_aos:out-of-range coordinate on a dense level"
    if dropped:
        ctx.fail(
            "C09.mapping-consumption",
            key,
            f"a coordinate outside the dimensions is accepted and silently dropped instead of rejected (e.g. format {dropped[0]}, coordinates {dropped[1]}): "
            "a dense level enumerates range(dimension) and never sees the key; nothing validates the range before the tree is built",
        )
    else:
        ctx.ok("C09.mapping-consumption", key)


# ------------------------------------------------------------------------------------------------
# the thin API around from_aos / the validator
# ------------------------------------------------------------------------------------------------
def _same(a, b):
    """Structural equality of nested lists/tuples of SymList / Poly / plain values."""
    if isinstance(a, SymList) or isinstance(b, SymList):
        return isinstance(a, SymList) and a.same(b)
    if isinstance(a, (list, tuple)) and isinstance(b, (list, tuple)):
        return len(a) == len(b) and all(_same(x, y) for x, y in zip(a, b))
    return a == b


def rule_api_semantics(ctx, ix):
    """Constructors, to_format, to_dok and pickling, evaluated abstractly: each must hand exactly the data it
    was given (in the given order, with the given dimensions and format) to from_aos / from_dok / the
    validator; allocate_taco_structure and Format reject an ordering that is not a permutation."""
    ctx.rule("C09.api-semantics", "constructors / to_format / to_dok / pickling pass the data on unchanged; orderings must be permutations", min_instances=8)

    def check(key, problems):
        ctx.instance("C09.api-semantics")
        if problems:
            ctx.fail("C09.api-semantics", key, "; ".join(sorted(set(problems)))[:500])
        else:
            ctx.ok("C09.api-semantics", key)

    def meth(name):
        return ix.func(f"{T_MOD}.Tensor.{name}").node

    TG = {f.name: f.node for q, f in ix.funcs.items() if f.module == T_MOD and q == f"{T_MOD}.{f.name}"}
    a, b, c, d = (Poly.atom(x) for x in "abcd")
    v0, v1 = Poly.atom("v0"), Poly.atom("v1")
    DIMS, FMT = (7, 9), S.Obj("FormatToken")

    def run_static(name, args, kwargs, target):
        calls = []

        def rec(*a_, **k_):
            calls.append((a_, k_))
            return S.Obj("TensorResult")

        T = S.Obj("Class", name="Tensor", **{target: rec})
        outs = list(S.explore_ev(meth(name), args, kwargs, {**TG, "Tensor": T, "Real": S.Obj("Class", name="Real")}))
        return outs, calls

    def passed(call, coords, values, dims=DIMS, fmt=FMT):
        a_, k_ = call
        pos = list(a_)
        got_c = list(pos[0]) if pos else None
        got_v = list(pos[1]) if len(pos) > 1 else list(k_.get("values", []))
        probs = []
        if got_c != coords:
            probs.append(f"coordinates handed on are {got_c}, given {coords}")
        if got_v != values:
            probs.append(f"values handed on are {got_v}, given {values}")
        if k_.get("dimensions", pos[2] if len(pos) > 2 else None) is not dims:
            probs.append("dimensions are not passed through")
        if k_.get("format", pos[3] if len(pos) > 3 else None) is not fmt:
            probs.append("format is not passed through")
        return probs

    # from_dok
    outs, calls = run_static("from_dok", [{(a, b): v0, (c, d): v1}], {"dimensions": DIMS, "format": FMT}, "from_aos")
    check("tensor.py:Tensor.from_dok", [f"{o[1]}" for o in outs if o[1][0] != "return"] + (passed(calls[0], [(a, b), (c, d)], [v0, v1]) if len(calls) == 1 else [f"from_aos called {len(calls)} times"]))
    # from_soa
    outs, calls = run_static("from_soa", [((a, c), (b, d)), [v0, v1]], {"dimensions": DIMS, "format": FMT}, "from_aos")
    check("tensor.py:Tensor.from_soa", [f"{o[1]}" for o in outs if o[1][0] != "return"] + (passed(calls[0], [(a, b), (c, d)], [v0, v1]) if len(calls) == 1 else [f"from_aos called {len(calls)} times"]))
    # from_lol (explicit zero dropped, row-major coordinates)
    outs, calls = run_static("from_lol", [[[1.5, 0.0], [2.5, 3.5]]], {"dimensions": DIMS, "format": FMT}, "from_aos")
    probs = [f"{o[1]}" for o in outs if o[1][0] != "return"]
    if len(calls) == 1:
        probs += passed(calls[0], [(0, 0), (1, 0), (1, 1)], [1.5, 2.5, 3.5])
    else:
        probs.append(f"from_aos called {len(calls)} times")
    check("tensor.py:Tensor.from_lol", probs)
    # to_format
    TOK = S.Obj("DokToken")
    me = S.Obj("Tensor", to_dok=lambda **k: TOK, dimensions=DIMS)
    outs, calls = run_static("to_format", [me, FMT], {}, "from_dok")
    probs = [f"{o[1]}" for o in outs if o[1][0] != "return"]
    if len(calls) == 1:
        a_, k_ = calls[0]
        if not (a_ and a_[0] is TOK):
            probs.append("to_format does not rebuild from self.to_dok()")
        if k_.get("dimensions", a_[1] if len(a_) > 1 else None) is not DIMS:
            probs.append("to_format does not keep self.dimensions")
        if k_.get("format", a_[2] if len(a_) > 2 else None) is not FMT:
            probs.append("to_format does not use the requested format")
    else:
        probs.append(f"from_dok called {len(calls)} times")
    check("tensor.py:Tensor.to_format", probs)
    # to_dok: every call reports the items() of the tensor, whatever a caller did with earlier results
    items = [((0, 1), 2.0), ((1, 1), 0.0), ((1, 0), -1.0)]
    probs = []
    init = ix.funcs.get(f"{T_MOD}.Tensor.__init__")
    for ez, want in ((False, {(0, 1): 2.0, (1, 0): -1.0}), (True, dict(items))):
        me = S.Obj("Tensor")
        if init is not None:
            list(S.explore_ev(init.node, [me, S.Obj("struct")], {}, TG))  # whatever state __init__ sets up
        me.attrs["items"] = lambda: list(items)
        first = None
        for attempt in (1, 2, 3):
            outs = list(S.explore_ev(meth("to_dok"), [me], {"explicit_zeros": ez}, TG))
            if len(outs) != 1 or outs[0][1][0] != "return" or outs[0][1][1] != want:
                probs.append(
                    f"to_dok(explicit_zeros={ez}), call {attempt}, gives {[o[1] for o in outs]}, expected every {'item' if ez else 'non-zero item'} of items()"
                    + (" (an earlier result that the caller modified leaks into this one: the tensor keeps a reference to what it handed out)" if attempt > 1 else "")
                )
                break
            got = outs[0][1][1]
            if first is not None and got is first:
                probs.append(f"to_dok(explicit_zeros={ez}) returns the same dict object on every call: a caller's edit changes what the tensor reports")
                break
            first = got
            got[(9, 9)] = 123.0  # the caller edits the dictionary it was given
            got.pop((0, 1), None)
    check("tensor.py:Tensor.to_dok", probs)
    # pickling: __setstate__(__getstate__()) hands the validator exactly what the readers read
    probs = []
    for modes, ordering in (((0, 1), (1, 0)), ((1, 1, 0), (1, 2, 0)), ((), ())):
        me, dims = reader_self(modes, ordering, ix)
        props = me.attrs["__methods__"]
        G = {**TG, **READER_G, "Format": lambda m, o: S.make_format(tuple(m), tuple(o))}
        outs = list(S.explore_ev(meth("__getstate__"), [me], {}, G))
        if len(outs) != 1 or outs[0][1][0] != "return" or not isinstance(outs[0][1][1], dict):
            probs.append(f"__getstate__: {[o[1] for o in outs][:1]}")
            continue
        state = outs[0][1][1]
        want_idx = list(S.explore_ev(props["taco_indices"], [me], {}, G))[0][1][1]
        want_vals = list(S.explore_ev(props["taco_vals"], [me], {}, G))[0][1][1]
        want = {"dimensions": dims, "mode_types": tuple(modes), "mode_ordering": tuple(ordering), "indices": want_idx, "vals": want_vals}
        for k, w in want.items():
            if k not in state or not _same(state[k], w):
                probs.append(f"__getstate__ writes {k}={state.get(k)!r}, the tensor's is {w!r}")
        calls = []

        def to_cffi(*a_, _c=calls, **k_):
            _c.append((a_, k_))
            return S.Obj("struct")

        new = S.Obj("Tensor")
        outs = list(S.explore_ev(meth("__setstate__"), [new, state], {}, {**G, "taco_structure_to_cffi": to_cffi}))
        if len(outs) != 1 or outs[0][1][0] != "return" or len(calls) != 1:
            probs.append(f"__setstate__ does not rebuild through taco_structure_to_cffi exactly once: {[o[1] for o in outs][:1]}")
            continue
        a_, k_ = calls[0]
        params = ["indices", "vals", "mode_types", "dimensions", "mode_ordering"]
        bound = dict(zip(params, a_))
        bound.update(k_)
        for k in params:
            if bound.get(k) is not state[k]:
                probs.append(f"__setstate__ binds parameter {k} to something other than state['{k}']")
        if not any(v is outs[0][2] for v in ()) and not (isinstance(new.attrs.get("cffi_tensor"), S.Obj) and new.attrs["cffi_tensor"].tag == "struct"):
            probs.append("__setstate__ does not store the rebuilt structure on the tensor")
    check("tensor.py:Tensor.__getstate__/__setstate__", probs)
    # orderings must be permutations
    from .ownsem import World

    probs = []
    for modes, ordering in (((0, 1), (0, 0)), ((0, 1), (1, 2)), ((0,), (1,)), ((1, 1, 0), (0, 1, 1))):
        w = World(ix)
        out = w.run("allocate_taco_structure", [list(modes), [2] * len(modes), list(ordering)])
        if out != ("raise", "ValueError"):
            probs.append(f"allocate_taco_structure accepts ordering {ordering} for {len(modes)} levels: {out}")
    w = World(ix)
    out = w.run("allocate_taco_structure", [[0, 1], [2, 3], [1, 0]])
    if out[0] != "return":
        probs.append(f"allocate_taco_structure rejects a valid request: {out}")
    check("compile/_cffi_ownership.py:allocate_taco_structure:ordering must be a permutation", probs)
    probs = []
    post = ix.funcs.get("tensora.format._format.Format.__post_init__")
    if post is None:
        probs.append("Format has no __post_init__ validation")
    else:
        G = {"InvalidModeOrderingError": lambda *a_: S.Obj("Exception", name="InvalidModeOrderingError")}
        for modes, ordering, ok in (((0, 1), (0, 0), False), ((0, 1), (1, 2), False), ((0,), (0, 1), False), ((0, 1), (1, 0), True), ((), (), True)):
            me = S.Obj("Format", modes=tuple(modes), ordering=tuple(ordering), order=len(modes))
            outs = list(S.explore_ev(post.node, [me], {}, G))
            got = [o[1][0] for o in outs]
            if ok and got != ["return"]:
                probs.append(f"Format rejects the valid ordering {ordering}: {[o[1] for o in outs]}")
            if not ok and got != ["raise"]:
                probs.append(f"Format accepts ordering {ordering} for {len(modes)} modes")
    check("format/_format.py:Format.__post_init__:ordering must be a permutation", probs)
