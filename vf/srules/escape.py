"""C08 S rules: exception-escape analysis over the call graph, discharge of every reachable raise
site, CLI result discipline, exhaustiveness of matches on Result / enums."""

from __future__ import annotations

import ast
import builtins
import dataclasses
import enum
import importlib
import sys

from ..common import AnalysisError
from .core import Func, SourceIndex, import_tensora

GEN_ENTRIES = [
    "tensora.generate._base.generate_code",
    "tensora.generate._tensora.generate_module_tensora",
]
DOCUMENTED_GENERATION = set()  # typed refusals must come back as Failure, never escape
INVARIANT_TABLE = {
    # (function qualname, exception): one line of reason
    ("tensora.iteration_graph.outputs._append.AppendOutput.write_assignment", "RuntimeError"): (
        "guards `next_layer == order`; discharged by engine K: every value store's address resolves through all "
        "output levels (C01.K-addr) - a terminal is only reached after every output layer was consumed or bucketed"
    ),
    ("tensora.ir._builder.Builder.finalize", "NotImplementedError"): "abstract; all Builder subclasses override (rule c)",
}


def dispatch_impls(ix: SourceIndex):
    """dispatcher qualname -> list of implementation qualnames (from @X.register decorators)."""
    out = {}
    for q, f in ix.funcs.items():
        for d in f.node.decorator_list:
            target = None
            if isinstance(d, ast.Call) and isinstance(d.func, ast.Attribute) and d.func.attr == "register":
                target = d.func.value
            elif isinstance(d, ast.Attribute) and d.attr == "register":
                target = d.value
            if isinstance(target, ast.Name):
                dq = ix.resolve_name(f.module, target.id)
                if dq:
                    out.setdefault(dq, []).append(q)
    return out


def is_singledispatch_base(f: Func):
    return any(ast.unparse(d) in ("singledispatch", "functools.singledispatch") for d in f.node.decorator_list)


def is_abstract(f: Func):
    return any(ast.unparse(d) in ("abstractmethod", "abc.abstractmethod") for d in f.node.decorator_list)


def exc_name(node: ast.Raise):
    e = node.exc
    if e is None:
        return "<reraise>"
    if isinstance(e, ast.Call):
        e = e.func
    if isinstance(e, ast.Attribute):
        return ast.unparse(e)
    if isinstance(e, ast.Name):
        return e.id
    return "<dynamic>"


def runtime_class(name: str, module_name: str):
    if hasattr(builtins, name):
        return getattr(builtins, name)
    try:
        m = importlib.import_module(module_name)
    except Exception:  # noqa: BLE001
        return None
    obj = m
    for part in name.split("."):
        obj = getattr(obj, part, None)
        if obj is None:
            return None
    return obj if isinstance(obj, type) else None


def handler_catches(handler: ast.ExceptHandler, exc: str, f: Func, raise_module: str) -> bool:
    if handler.type is None:
        return True
    types = handler.type.elts if isinstance(handler.type, ast.Tuple) else [handler.type]
    ec = runtime_class(exc, raise_module)
    for t in types:
        tn = ast.unparse(t)
        if tn == exc or tn.split(".")[-1] == exc.split(".")[-1]:
            return True
        hc = runtime_class(tn, f.module)
        if ec is not None and hc is not None and issubclass(ec, hc):
            return True
        if ec is None and tn in ("Exception", "BaseException"):
            return True
    return False


def enclosing_handlers(fnode, target):
    """Handlers of every try whose *body* contains target."""
    out = []

    def rec(node, acc):
        for ch in ast.iter_child_nodes(node):
            if isinstance(ch, (ast.FunctionDef, ast.AsyncFunctionDef, ast.Lambda)) and ch is not fnode:
                continue
            if ch is target:
                out.extend(acc)
                return True
            if isinstance(ch, ast.Try):
                in_body = any(any(x is target for x in ast.walk(s)) for s in ch.body)
                if in_body:
                    for s in ch.body:
                        if any(x is target for x in ast.walk(s)):
                            if s is target:
                                out.extend(acc + ch.handlers)
                                return True
                            return rec_container(s, acc + ch.handlers)
                if rec(ch, acc):
                    return True
            else:
                if rec(ch, acc):
                    return True
        return False

    def rec_container(node, acc):
        if node is target:
            out.extend(acc)
            return True
        return rec(node, acc)

    rec(fnode, [])
    return out


def raises_in(f: Func):
    out = []

    def rec(node):
        for ch in ast.iter_child_nodes(node):
            if isinstance(ch, (ast.FunctionDef, ast.AsyncFunctionDef, ast.Lambda, ast.ClassDef)):
                continue
            if isinstance(ch, ast.Raise):
                out.append(ch)
            rec(ch)

    rec(f.node)
    return out


class Escape:
    def __init__(self, ix: SourceIndex):
        self.ix = ix
        self.impls = dispatch_impls(ix)
        self.memo = {}
        self.active = set()

    def callees(self, f: Func, call: ast.Call):
        qs = self.ix.resolve_call(f, call)
        out = []
        for q in qs:
            out.append(q)
            out.extend(self.impls.get(q, []))
        # singledispatch register decorators and dataclass construction
        return [q for q in dict.fromkeys(out) if q in self.ix.funcs]

    def escapes(self, q: str):
        """set of (exception name, raise-site qualname, raise text)"""
        if q in self.memo:
            return self.memo[q]
        if q in self.active:
            return set()
        self.active.add(q)
        f = self.ix.funcs[q]
        res = set()
        for r in raises_in(f):
            name = exc_name(r)
            hs = enclosing_handlers(f.node, r)
            if any(handler_catches(h, name, f, f.module) for h in hs):
                continue
            res.add((name, q, " ".join(ast.unparse(r).split())[:100]))
        for call in self.ix.calls_in(f):
            hs = None
            for cq in self.callees(f, call):
                if cq == q:
                    continue
                for name, site, text in self.escapes(cq):
                    if hs is None:
                        hs = enclosing_handlers(f.node, call)
                    site_mod = self.ix.funcs[site].module
                    if any(handler_catches(h, name, f, site_mod) for h in hs):
                        continue
                    res.add((name, site, text))
        self.active.discard(q)
        self.memo[q] = res
        return res

    def reachable(self, entries):
        seen = set()
        work = list(entries)
        while work:
            q = work.pop()
            if q in seen or q not in self.ix.funcs:
                continue
            seen.add(q)
            f = self.ix.funcs[q]
            for call in self.ix.calls_in(f):
                work.extend(self.callees(f, call))
        return seen


def concrete_subclasses(base):
    out = []
    work = [base]
    while work:
        c = work.pop()
        for s in c.__subclasses__():
            if getattr(sys.modules.get(s.__module__), s.__name__, None) is not s:
                continue
            work.append(s)
            out.append(s)
    return sorted(set(out), key=lambda c: c.__name__)


def runtime_obj(ix, qual):
    parts = qual.split("#")[0].split(".")
    for i in range(len(parts), 0, -1):
        mod = ".".join(parts[:i])
        if mod in ix.modules:
            try:
                obj = importlib.import_module(mod)
            except Exception:  # noqa: BLE001
                return None
            for p in parts[i:]:
                obj = getattr(obj, p, None)
                if obj is None:
                    return None
            return obj
    return None


def discharge_site(ix: SourceIndex, esc: Escape, name: str, site: str, text: str, kernel_typing_ok=True):
    """Return (rule letter, reason) if the raise site is discharged, else (None, why not)."""
    f = ix.funcs[site]
    body = [s for s in f.node.body if not (isinstance(s, ast.Expr) and isinstance(s.value, ast.Constant))]
    # (a) singledispatch default
    if is_singledispatch_base(f) and len(body) == 1 and isinstance(body[0], ast.Raise) and name == "NotImplementedError":
        disp = runtime_obj(ix, site)
        if disp is None or not hasattr(disp, "registry"):
            return None, "singledispatch object not importable"
        regs = [c for c in disp.registry if c is not object]
        if not regs:
            return None, "no registered implementations"
        common = None
        for c in regs[0].__mro__:
            if c is object:
                continue
            if all(issubclass(r, c) for r in regs):
                common = c
                break
        if common is None:
            return None, "registered classes have no common base"
        default = disp.registry[object]
        missing = [
            c.__name__
            for c in concrete_subclasses(common)
            if disp.dispatch(c) is default and (dataclasses.is_dataclass(c) or not c.__subclasses__())
        ]
        if missing:
            return None, f"singledispatch default reachable for {missing} (subclasses of {common.__name__})"
        return "a", f"registry exhaustive over {common.__name__}"
    # (c) abstract method
    if is_abstract(f) and name == "NotImplementedError" and f.cls is not None:
        cls = runtime_obj(ix, site.rsplit(".", 1)[0])
        if cls is None:
            return None, "class not importable"
        bad = [s.__name__ for s in concrete_subclasses(cls) if not s.__subclasses__() and getattr(s, f.name) is getattr(cls, f.name)]
        real_subs = concrete_subclasses(cls)
        if bad:
            return None, f"abstract method not overridden by leaf subclass(es) {bad}"
        if (site, name) in INVARIANT_TABLE or real_subs:
            return "c", f"overridden by every leaf subclass of {cls.__name__}"
        return None, "abstract method of a class without subclasses"
    # the raise statement node
    rnode = None
    for r in raises_in(f):
        if " ".join(ast.unparse(r).split())[:100] == text:
            rnode = r
    if rnode is None:
        return None, "raise statement not found again"
    # (e) LLVM printer operand-type defaults
    if site.startswith("tensora.codegen._ir_to_llvm.") and name == "TypeError":
        for node in ast.walk(f.node):
            if isinstance(node, ast.Match):
                for case in node.cases:
                    if any(x is rnode for s in case.body for x in ast.walk(s)) and isinstance(case.pattern, ast.MatchAs) and case.pattern.pattern is None:
                        return "e", "operand-type default; discharged by C06.kernel-typing on the kernel family"
    # (b) case _: after an exhaustive match, or else: after an exhaustive if/elif chain over an enum
    for node in ast.walk(f.node):
        if isinstance(node, ast.Match):
            for case in node.cases:
                if any(x is rnode for s in case.body for x in ast.walk(s)) and isinstance(case.pattern, ast.MatchAs) and case.pattern.pattern is None:
                    why = match_exhaustive(ix, f, node)
                    if why is None:
                        return "b", "default arm of an exhaustive match"
                    return None, f"default arm reachable: {why}"
        if isinstance(node, ast.If):
            chain = []
            cur = node
            while True:
                chain.append(cur.test)
                if len(cur.orelse) == 1 and isinstance(cur.orelse[0], ast.If):
                    cur = cur.orelse[0]
                else:
                    break
            if any(x is rnode for s in cur.orelse for x in ast.walk(s)) and cur.orelse and isinstance(cur.orelse[0], ast.Raise):
                why = chain_exhaustive(ix, f, chain)
                if why is None:
                    return "b", "else arm of an if/elif chain comparing one expression with every member of an enum"
                return None, f"else arm reachable: {why}"
    # (d) invariant table
    if (site, name) in INVARIANT_TABLE:
        return "d", INVARIANT_TABLE[(site, name)]
    return None, "none of the discharge rules (a)-(e) applies"


def match_exhaustive(ix, f, node: ast.Match):
    """None if the non-default cases cover all constructors / enum members; else a reason."""
    classes = set()
    values = []
    for case in node.cases:
        p = case.pattern
        if isinstance(p, ast.MatchAs) and p.pattern is None:
            continue
        alts = p.patterns if isinstance(p, ast.MatchOr) else [p]
        for a in alts:
            if isinstance(a, ast.MatchAs) and a.pattern is not None:
                a = a.pattern
            if isinstance(a, ast.MatchClass):
                classes.add(ast.unparse(a.cls).split(".")[-1])
            elif isinstance(a, ast.MatchValue):
                values.append(ast.unparse(a.value))
            else:
                return f"pattern {ast.unparse(a)} not understood"
    if classes and not values:
        if classes >= {"Success", "Failure"}:
            return None
        # a match over a parameter whose annotation is a union of exactly the matched classes: the default arm
        # is unreachable for arguments of the declared type (internal callers; user input never reaches it untyped)
        if isinstance(node.subject, ast.Name):
            for a in f.node.args.posonlyargs + f.node.args.args + f.node.args.kwonlyargs:
                if a.arg == node.subject.id and a.annotation is not None:
                    ann = a.annotation
                    if isinstance(ann, ast.Constant) and isinstance(ann.value, str):
                        try:
                            ann = ast.parse(ann.value, mode="eval").body
                        except SyntaxError:
                            break
                    members = set()

                    def union(x):
                        if isinstance(x, ast.BinOp) and isinstance(x.op, ast.BitOr):
                            union(x.left)
                            union(x.right)
                        elif isinstance(x, ast.Subscript) and ast.unparse(x.value).split(".")[-1] in ("Union", "Optional"):
                            for e_ in x.slice.elts if isinstance(x.slice, ast.Tuple) else [x.slice]:
                                union(e_)
                        else:
                            members.add(ast.unparse(x).split(".")[-1])

                    union(ann)
                    if members and members <= classes:
                        return None
        return f"class patterns {sorted(classes)} are not the two constructors of Result"
    if values and not classes:
        enums = {v.rsplit(".", 1)[0] for v in values}
        if len(enums) != 1:
            return f"values of several enums {enums}"
        ec = runtime_class(enums.pop(), f.module)
        if ec is None or not issubclass(ec, enum.Enum):
            return "matched values are not members of an importable Enum"
        missing = [m.name for m in ec if f"{ec.__name__}.{m.name}" not in [v.split(".", v.count(".") - 1)[-1] if v.count(".") > 1 else v for v in values]]
        if missing:
            return f"enum members {missing} have no arm"
        return None
    return "mixed patterns"


def chain_exhaustive(ix, f, tests):
    subj = None
    members = []
    for t in tests:
        if not (isinstance(t, ast.Compare) and len(t.ops) == 1 and isinstance(t.ops[0], ast.Eq)):
            return f"test {ast.unparse(t)} is not an equality"
        l, r = ast.unparse(t.left), ast.unparse(t.comparators[0])
        if subj is None:
            subj = l
        if l != subj:
            return "tests compare different expressions"
        members.append(r)
    enums = {m.rsplit(".", 1)[0] for m in members}
    if len(enums) != 1:
        return "members of several enums"
    ec = runtime_class(enums.pop(), f.module)
    if ec is None or not issubclass(ec, enum.Enum):
        return "compared values are not members of an importable Enum"
    missing = [m.name for m in ec if f"{ec.__name__}.{m.name}" not in members]
    if missing:
        return f"enum members {missing} not compared"
    return None


def rule_escape(ctx, ix):
    import_tensora(ctx.src)
    esc = Escape(ix)
    ctx.rule(
        "C08.exception-escape",
        "every raise that can escape code generation is discharged (dispatch/match exhaustiveness, abstract overrides, frozen invariants, kernel typing)",
        min_instances=25,
    )
    for entry in GEN_ENTRIES:
        ix.func(entry)
    reach = esc.reachable(GEN_ENTRIES)
    ctx.extra["generation_reachable_functions"] = len(reach)
    if len(reach) < 120:
        raise AnalysisError(f"only {len(reach)} functions reachable from code generation (call graph broken?)")
    seen = set()
    for entry in GEN_ENTRIES:
        for name, site, text in sorted(esc.escapes(entry)):
            if (name, site, text) in seen:
                continue
            seen.add((name, site, text))
            ctx.instance("C08.exception-escape")
            f = ix.funcs[site]
            key = f"{ix.rel(f.module)}:{site.split(f.module + '.', 1)[-1]}:{text}"
            letter, why = discharge_site(ix, esc, name, site, text)
            if letter:
                ctx.ok("C08.exception-escape", key + f" [{letter}]")
            else:
                ctx.fail("C08.exception-escape", key, f"{name} can escape code generation: {why}")
    # matches without default on Result / enum subjects must be exhaustive (else they yield None)
    ctx.rule("C08.match-exhaustive", "matches on Result constructors / enum members without a default arm are exhaustive", min_instances=2)
    for q in sorted(reach | {"tensora.cli.tensora", "tensora.compile._tensor_method.TensorMethod.__init__"}):
        f = ix.funcs.get(q)
        if f is None:
            continue
        for node in ast.walk(f.node):
            if not isinstance(node, ast.Match):
                continue
            pats = []
            for case in node.cases:
                p = case.pattern
                pats.extend(p.patterns if isinstance(p, ast.MatchOr) else [p])
            relevant = any(
                (isinstance(p, ast.MatchClass) and ast.unparse(p.cls).split(".")[-1] in ("Success", "Failure")) or isinstance(p, ast.MatchValue)
                for p in pats
            )
            if not relevant:
                continue
            has_default = any(isinstance(c.pattern, ast.MatchAs) and c.pattern.pattern is None for c in node.cases)
            ctx.instance("C08.match-exhaustive")
            key = f"{ix.rel(f.module)}:{q.split(f.module + '.', 1)[-1]}:match {ast.unparse(node.subject)[:60]}"
            why = match_exhaustive(ix, f, node)
            if why is None:
                ctx.ok("C08.match-exhaustive", key)
            elif has_default:
                # the default raises; whether that raise is reachable is decided by exception-escape
                ctx.ok("C08.match-exhaustive", key + " [has default]")
            else:
                ctx.fail("C08.match-exhaustive", key, f"match without default is not exhaustive ({why}): falls through yielding None")
    return esc


def rule_tensor_method_escape(ctx, ix, esc):
    """TensorMethod.__init__ / tensor_method / evaluate_*: only documented refusals escape construction."""
    ctx.rule("C08.tensor-method-escape", "only documented refusals escape TensorMethod construction", min_instances=3)
    entry = "tensora.compile._tensor_method.TensorMethod.__init__"
    ix.func(entry)
    documented = {"BroadcastTargetIndexError"}
    for name, site, text in sorted(esc.escapes(entry)):
        ctx.instance("C08.tensor-method-escape")
        f = ix.funcs[site]
        key = f"{ix.rel(f.module)}:{site.split(f.module + '.', 1)[-1]}:{text}"
        if name in documented:
            ctx.ok("C08.tensor-method-escape", key + " [documented]")
            continue
        if name == "error" or name == "<dynamic>":
            # `raise error` where error is the payload of `case Failure(error)`
            ok = False
            for node in ast.walk(f.node):
                if isinstance(node, ast.match_case) and isinstance(node.pattern, ast.MatchClass) and ast.unparse(node.pattern.cls) == "Failure":
                    if any(isinstance(s, ast.Raise) and ast.unparse(s) == text for s in node.body):
                        ok = True
            if ok:
                ctx.ok("C08.tensor-method-escape", key + " [re-raises the documented Failure payload]")
                continue
        letter, why = discharge_site(ix, esc, name, site, text)
        if letter:
            ctx.ok("C08.tensor-method-escape", key + f" [{letter}]")
        else:
            ctx.fail("C08.tensor-method-escape", key, f"{name} can escape TensorMethod construction: {why}")


def _inline_cli_helpers(ix, f, case):
    """A Failure arm may delegate to a module-level helper (`fail(message)`): statements that are a bare call of a
    function of the CLI module are replaced by that function's body (one level), so that the arm is judged by what
    it does."""
    body = []
    for st in case.body:
        callee = None
        if isinstance(st, ast.Expr) and isinstance(st.value, ast.Call) and isinstance(st.value.func, ast.Name):
            callee = ix.funcs.get(f"{f.module}.{st.value.func.id}")
        if callee is not None:
            body.extend(b for b in callee.node.body if not (isinstance(b, ast.Expr) and isinstance(b.value, ast.Constant)))
        else:
            body.append(st)
    return ast.match_case(pattern=case.pattern, guard=case.guard, body=body)


def rule_cli(ctx, ix):
    """Every Result-returning call in cli.tensora is matched with a Failure arm that echoes to stderr
    and raises typer.Exit(1); the success path ends in echo / write_text; no other exit."""
    ctx.rule("C08.cli-discipline", "CLI: every Failure echoes to stderr and exits 1; success prints the code", min_instances=4)
    f = ix.func("tensora.cli.tensora")
    result_calls = {"parse_assignment", "parse_named_format", "make_problem", "generate_code"}
    found = set()
    for node in ast.walk(f.node):
        if isinstance(node, ast.Match) and isinstance(node.subject, ast.Call) and isinstance(node.subject.func, ast.Name):
            callee = node.subject.func.id
            if callee not in result_calls:
                continue
            found.add(callee)
            ctx.instance("C08.cli-discipline")
            key = f"cli.py:tensora:match {callee}(...)"
            fails = [c for c in node.cases if isinstance(c.pattern, ast.MatchClass) and ast.unparse(c.pattern.cls) == "Failure"]
            succ = [c for c in node.cases if isinstance(c.pattern, ast.MatchClass) and ast.unparse(c.pattern.cls) == "Success"]
            problems = []
            if not fails:
                problems.append("no Failure arm")
            if not succ:
                problems.append("no Success arm")
            # the last Failure arm must be generic (catch every failure payload)
            if fails:
                last = fails[-1].pattern
                generic = len(last.patterns) == 1 and isinstance(last.patterns[0], ast.MatchAs) and last.patterns[0].pattern is None
                if not generic:
                    problems.append("no Failure arm that matches every payload")
            for c in fails:
                c = _inline_cli_helpers(ix, f, c)
                txt = ast.unparse(ast.Module(body=c.body, type_ignores=[]))
                echo = any(
                    isinstance(n, ast.Call) and ast.unparse(n.func) == "typer.echo" and any(k.arg == "err" and ast.unparse(k.value) == "True" for k in n.keywords)
                    for s in c.body
                    for n in ast.walk(s)
                )
                last_stmt = c.body[-1]
                exit1 = isinstance(last_stmt, ast.Raise) and ast.unparse(last_stmt.exc) == "typer.Exit(1)"
                if not echo:
                    problems.append("Failure arm does not echo to stderr")
                if not exit1:
                    problems.append("Failure arm does not end in raise typer.Exit(1)")
            if problems:
                ctx.fail("C08.cli-discipline", key, "; ".join(sorted(set(problems))))
            else:
                ctx.ok("C08.cli-discipline", key)
    for callee in sorted(result_calls - found):
        ctx.instance("C08.cli-discipline")
        ctx.fail("C08.cli-discipline", f"cli.py:tensora:match {callee}(...)", "Result-returning call is not matched on Success/Failure")
    # calls to result functions outside a match subject
    for node in ast.walk(f.node):
        if isinstance(node, ast.Call) and isinstance(node.func, ast.Name) and node.func.id in result_calls:
            is_subject = any(isinstance(m, ast.Match) and m.subject is node for m in ast.walk(f.node))
            if not is_subject:
                ctx.fail("C08.cli-discipline", f"cli.py:tensora:{ast.unparse(node)[:60]}", "Result value used without matching on Failure")
    # exits
    ctx.instance("C08.cli-discipline")
    bad = []
    for r in raises_in(f):
        t = ast.unparse(r.exc) if r.exc is not None else ""
        if t not in ("typer.Exit(1)", "NotImplementedError()"):
            bad.append(t)
    for node in ast.walk(f.node):
        if isinstance(node, ast.Call) and ast.unparse(node.func) in ("sys.exit", "exit", "quit", "os._exit"):
            bad.append(ast.unparse(node))
    last = f.node.body[-1]
    ends_ok = isinstance(last, ast.If) and all(
        any(isinstance(n, ast.Call) and ast.unparse(n.func) in ("typer.echo", "output_path.write_text") for n in ast.walk(s)) for s in (last.body[-1], last.orelse[-1])
    ) if isinstance(last, ast.If) and last.orelse else False
    if bad:
        ctx.fail("C08.cli-discipline", "cli.py:tensora:exits", f"exits other than typer.Exit(1): {bad}")
    elif not ends_ok:
        ctx.fail("C08.cli-discipline", "cli.py:tensora:success path", "success path does not end in echo(code) / write_text(code)")
    else:
        ctx.ok("C08.cli-discipline", "cli.py:tensora:exits and success path")
