"""C13 (ownership structure of kernel-allocated storage) and C14 (lock / shared-state discipline)."""

from __future__ import annotations

import ast
import re

from ..common import AnalysisError
from .core import SourceIndex, enclosing_chain

TM = "tensora.compile._tensor_method.TensorMethod"
OWN = "tensora.compile._cffi_ownership"


def u(e):
    return ast.unparse(e)


# ------------------------------------------------------------------------------------------------
# C13
# ------------------------------------------------------------------------------------------------
def rule_handover(ctx, ix):
    """Typestate of cffi_output in TensorMethod.__call__: Fresh (allocate_taco_structure) -> kernel
    call -> take_ownership_of_arrays exactly once, before any exit."""
    ctx.rule("C13.hand-over", "kernel output is handed to the ownership layer exactly once on every path out of the kernel call", min_instances=3)
    f = ix.func(f"{TM}.__call__")
    body = f.node.body
    alloc = [s for s in body if isinstance(s, ast.Assign) and isinstance(s.value, ast.Call) and u(s.value.func) == "allocate_taco_structure"]
    ctx.instance("C13.hand-over")
    key = "compile/_tensor_method.py:TensorMethod.__call__:output is freshly allocated per call"
    if len(alloc) != 1 or not isinstance(alloc[0].targets[0], ast.Name):
        ctx.fail("C13.hand-over", key, "output struct is not bound once from allocate_taco_structure(...) at the top level of __call__")
        return
    out = alloc[0].targets[0].id
    # not aliased to an input: the name is bound once, and Tensor(out) is the only other holder
    rebinds = [n for n in ast.walk(f.node) if isinstance(n, ast.Name) and n.id == out and isinstance(n.ctx, ast.Store)]
    if len(rebinds) != 1:
        ctx.fail("C13.hand-over", key, f"{out} is rebound")
    else:
        ctx.ok("C13.hand-over", key)
    kernel_stmt = None
    for i, s in enumerate(body):
        if any(isinstance(n, ast.Call) and u(n.func) == "self._evaluate" for n in ast.walk(s)):
            kernel_stmt = i
    if kernel_stmt is None:
        raise AnalysisError("anchor vanished: kernel call statement in TensorMethod.__call__")
    takes = [n for n in ast.walk(f.node) if isinstance(n, ast.Call) and u(n.func) == "take_ownership_of_arrays"]
    ctx.instance("C13.hand-over")
    key = "compile/_tensor_method.py:TensorMethod.__call__:take_ownership_of_arrays exactly once"
    if len(takes) == 1 and [u(a) for a in takes[0].args] == [out] and not takes[0].keywords:
        ctx.ok("C13.hand-over", key)
    elif len(takes) == 0:
        ctx.fail("C13.hand-over", key, "the arrays the kernel malloc'ed are never given a finaliser (leak on every call)")
    elif len(takes) > 1:
        ctx.fail("C13.hand-over", key, "ownership is taken more than once: two ffi.gc finalisers on the same pointer free it twice")
    else:
        ctx.fail("C13.hand-over", key, f"ownership is taken of {[u(a) for a in takes[0].args]} instead of the kernel's output {out}")
    ctx.instance("C13.hand-over")
    key = "compile/_tensor_method.py:TensorMethod.__call__:hand-over post-dominates the kernel call"
    ok = False
    why = "take_ownership_of_arrays is not a top-level statement following the kernel call"
    for j in range(kernel_stmt + 1, len(body)):
        s = body[j]
        if isinstance(s, ast.Expr) and isinstance(s.value, ast.Call) and u(s.value.func) == "take_ownership_of_arrays":
            ok = True
            break
        if any(isinstance(n, (ast.Raise, ast.Return)) for n in ast.walk(s)):
            why = f"`{u(s)[:60]}` can leave __call__ between the kernel call and take_ownership_of_arrays: the output's arrays leak"
            break
        if isinstance(s, (ast.If, ast.For, ast.While, ast.Try, ast.With)) and any(isinstance(n, ast.Call) and u(n.func) == "take_ownership_of_arrays" for n in ast.walk(s)):
            why = "take_ownership_of_arrays is conditional: some path out of the kernel call skips it"
            break
    # the kernel call itself must not be inside a try whose handler swallows the path
    ch = enclosing_chain(f.node, body[kernel_stmt])
    if len(ch) != 1:
        ok = False
        why = "kernel call is nested under control flow"
    if ok:
        ctx.ok("C13.hand-over", key)
    else:
        ctx.fail("C13.hand-over", key, why)
    # inputs never flow into ownership / free functions
    ctx.instance("C13.hand-over")
    key = "compile/_tensor_method.py:TensorMethod.__call__:inputs are never handed to the ownership layer"
    bad = []
    for n in ast.walk(f.node):
        if isinstance(n, ast.Call) and re.search(r"take_ownership|\.gc$|\.free$|\brelease\b", u(n.func)):
            for a in n.args:
                if u(a) != out:
                    bad.append(u(n))
    if bad:
        ctx.fail("C13.hand-over", key, f"{bad}")
    else:
        ctx.ok("C13.hand-over", key)


def rule_owned_slots(ctx, ix):
    """Slots take_ownership_of_arrays wraps with ffi.gc(..., free) = both arrays of every sparse level and
    vals (the K rule C13.slots shows kernels fill exactly these with malloc'ed memory)."""
    ctx.rule("C13.owned-slots", "the slots wrapped with ffi.gc(ptr, free) are pos and crd of every sparse level, and vals", min_instances=3)
    f = ix.func(f"{OWN}.take_ownership_of_arrays").node
    gcs = []
    for n in ast.walk(f):
        if isinstance(n, ast.Assign) and isinstance(n.value, ast.Call) and u(n.value.func).endswith(".gc"):
            gcs.append(n)
    # resolve simple local aliases (x = expr, assigned once) in the arguments
    assigned = {}
    for n in ast.walk(f):
        if isinstance(n, ast.Assign) and len(n.targets) == 1 and isinstance(n.targets[0], ast.Name):
            assigned.setdefault(n.targets[0].id, []).append(n.value)

    def resolve(a):
        seen = set()
        while isinstance(a, ast.Name) and a.id in assigned and len(assigned[a.id]) == 1 and a.id not in seen:
            seen.add(a.id)
            a = assigned[a.id][0]
        return u(a)

    slots = {}
    for n in gcs:
        tgt = u(n.targets[0])
        args = [resolve(a) for a in n.value.args]  # keyword arguments (e.g. size hints) do not matter
        slots[tgt] = args
    loop = [n for n in ast.walk(f) if isinstance(n, ast.For) and "enumerate(modes)" in u(n.iter)]
    lv = u(loop[0].target.elts[0]) if loop and isinstance(loop[0].target, ast.Tuple) else "i_dimension"
    want = {
        f"memory_holder['**indices'][{lv}][0]": [f"cffi_levels[{lv}][0]", "tensor_lib.free"],
        f"memory_holder['**indices'][{lv}][1]": [f"cffi_levels[{lv}][1]", "tensor_lib.free"],
        "memory_holder['vals']": ["cffi_tensor.vals", "tensor_lib.free"],
    }
    for tgt, args in want.items():
        ctx.instance("C13.owned-slots")
        key = f"compile/_cffi_ownership.py:take_ownership_of_arrays:{tgt}"
        if slots.get(tgt) == args:
            ctx.ok("C13.owned-slots", key)
        else:
            ctx.fail("C13.owned-slots", key, f"slot is wrapped as {slots.get(tgt)}; the kernel mallocs it, so it must be {args} (leak or free of the wrong pointer)")
    for tgt in sorted(set(slots) - set(want)):
        ctx.instance("C13.owned-slots")
        ctx.fail("C13.owned-slots", f"compile/_cffi_ownership.py:take_ownership_of_arrays:{tgt}", "a slot the kernel does not allocate gets a free() finaliser")
    # the two level slots are wrapped only under the sparse-mode test, once per level
    ctx.instance("C13.owned-slots")
    key = "compile/_cffi_ownership.py:take_ownership_of_arrays:sparse levels only"
    ok = False
    if loop:
        for s in loop[0].body:
            if isinstance(s, ast.If) and u(s.test) == "mode == tensor_lib.taco_mode_sparse":
                inside = [u(x.targets[0]) for x in ast.walk(s) if isinstance(x, ast.Assign) and isinstance(x.value, ast.Call) and u(x.value.func).endswith(".gc")]
                if sorted(inside) == sorted(k for k in want if "indices" in k):
                    ok = True
        if "cffi_tensor.mode_types[0:order]" not in u(f) or "order = cffi_tensor.order" not in u(f):
            ok = False
    if ok:
        ctx.ok("C13.owned-slots", key)
    else:
        ctx.fail("C13.owned-slots", key, "pos/crd finalisers are not attached exactly for the sparse levels of the tensor")
    # iteration coverage: every level is visited (no break / continue / early exit in the level loop)
    ctx.instance("C13.owned-slots")
    key = "compile/_cffi_ownership.py:take_ownership_of_arrays:every level visited"
    if not loop:
        ctx.fail("C13.owned-slots", key, "no loop over all levels")
    else:
        exits = [type(x).__name__.lower() for x in ast.walk(loop[0]) if isinstance(x, (ast.Break, ast.Continue, ast.Return, ast.Raise))]
        vals_gc = [n for n in gcs if u(n.targets[0]) == "memory_holder['vals']"]
        vals_unconditional = bool(vals_gc) and any(s_ is vals_gc[0] for s_ in f.body)
        if exits:
            ctx.fail("C13.owned-slots", key, f"the level loop contains {sorted(set(exits))}: the arrays of the remaining sparse levels never get a finaliser (leak)")
        elif not vals_unconditional:
            ctx.fail("C13.owned-slots", key, "the finaliser of vals is conditional")
        else:
            ctx.ok("C13.owned-slots", key)


def rule_anchoring(ctx, ix):
    ctx.rule("C13.anchoring", "finalisers live in the holder registered for the struct; the Tensor keeps the struct alive", min_instances=4)
    f = ix.func(f"{OWN}.take_ownership_of_arrays").node
    ctx.instance("C13.anchoring")
    if "memory_holder = global_weakkeydict[cffi_tensor]" in u(f):
        ctx.ok("C13.anchoring", "compile/_cffi_ownership.py:take_ownership_of_arrays:holder of this struct")
    else:
        ctx.fail("C13.anchoring", "compile/_cffi_ownership.py:take_ownership_of_arrays:holder of this struct", "gc objects are not stored in the holder registered for this struct: the arrays are freed early or never")
    a = ix.func(f"{OWN}.allocate_taco_structure").node
    ctx.instance("C13.anchoring")
    s = u(a)
    if "global_weakkeydict[cffi_tensor] = memory_holder" in s and "memory_holder['**indices'] = memory_holder_levels_arrays" in s and "return cffi_tensor" in s:
        ctx.ok("C13.anchoring", "compile/_cffi_ownership.py:allocate_taco_structure:registers holder")
    else:
        ctx.fail("C13.anchoring", "compile/_cffi_ownership.py:allocate_taco_structure:registers holder", "the holder (with its '**indices' slots) is not registered under the struct it belongs to")
    ctx.instance("C13.anchoring")
    mod = ix.module(OWN)
    wk = [s_ for s_ in mod.body if isinstance(s_, ast.Assign) and u(s_.targets[0]) == "global_weakkeydict"]
    if wk and u(wk[0].value) == "WeakKeyDictionary()":
        ctx.ok("C13.anchoring", "compile/_cffi_ownership.py:global_weakkeydict is weak-keyed")
    else:
        ctx.fail("C13.anchoring", "compile/_cffi_ownership.py:global_weakkeydict is weak-keyed", "holder table is not a WeakKeyDictionary: holders (and arrays) are never released, or die with unrelated keys")
    t = ix.func("tensora.tensor.Tensor.__init__").node
    ctx.instance("C13.anchoring")
    if "self.cffi_tensor = cffi_tensor" in u(t):
        ctx.ok("C13.anchoring", "tensor.py:Tensor.__init__ keeps a strong reference to the struct")
    else:
        ctx.fail("C13.anchoring", "tensor.py:Tensor.__init__ keeps a strong reference to the struct", "Tensor does not hold the struct: arrays may be freed while the Tensor is alive")
    c = ix.func(f"{TM}.__call__").node
    ctx.instance("C13.anchoring")
    s = u(c)
    m = re.search(r"(\w+) = Tensor\((\w+)\)", s)
    if m and f"return {m.group(1)}" in s and f"{m.group(2)} = allocate_taco_structure(" in s:
        ctx.ok("C13.anchoring", "compile/_tensor_method.py:TensorMethod.__call__ returns the Tensor wrapping the output struct")
    else:
        ctx.fail("C13.anchoring", "compile/_tensor_method.py:TensorMethod.__call__ returns the Tensor wrapping the output struct", "returned object does not own the kernel's output struct")


def rule_weak_table(ctx, ix):
    """The holder table is weak-keyed (so a holder dies with its structure and with nothing else)."""
    ctx.rule("C13.anchoring", "the holder table is a WeakKeyDictionary", min_instances=1)
    ctx.instance("C13.anchoring")
    mod = ix.module(OWN)
    wk = [s_ for s_ in mod.body if isinstance(s_, (ast.Assign, ast.AnnAssign)) and u(s_.targets[0] if isinstance(s_, ast.Assign) else s_.target) == "global_weakkeydict"]
    val = u(wk[0].value) if wk and wk[0].value is not None else None
    if val in ("WeakKeyDictionary()", "weakref.WeakKeyDictionary()"):
        ctx.ok("C13.anchoring", "compile/_cffi_ownership.py:global_weakkeydict is weak-keyed")
    else:
        ctx.fail("C13.anchoring", "compile/_cffi_ownership.py:global_weakkeydict is weak-keyed", f"holder table is `{val}`, not a WeakKeyDictionary: holders (and arrays) are never released, or die with unrelated keys")


def rule_borrowed_pointers(ctx, ix):
    """Non-owning pointers obtained from self.cffi_tensor (ffi.cast of its fields) must not escape a
    Tensor method's activation without `self`: a nested generator/closure that captures them may only
    be driven from a frame that holds self (`yield from` in a generator method), and such a pointer is
    never returned or stored."""
    ctx.rule("C13.borrowed-pointers", "raw pointers into a tensor's storage never outlive a reference to the tensor", min_instances=3)
    cls = "tensora.tensor.Tensor"
    n_methods = 0
    for q, f in ix.funcs.items():
        if q.rsplit(".", 1)[0] != cls:
            continue
        node = f.node
        # names bound to borrowed pointers
        tainted = set()
        for n in ast.walk(node):
            if isinstance(n, ast.Assign) and isinstance(n.targets[0], ast.Name):
                v = n.value
                if isinstance(v, ast.Call) and u(v.func).endswith(".cast") and "self.cffi_tensor" in u(v):
                    tainted.add(n.targets[0].id)
        if not tainted:
            continue
        n_methods += 1
        ctx.instance("C13.borrowed-pointers")
        key = f"tensor.py:Tensor.{f.name}"
        problems = []
        is_generator = any(isinstance(x, (ast.Yield, ast.YieldFrom)) for x in _own_nodes(node))
        nested = [x for x in ast.walk(node) if isinstance(x, (ast.FunctionDef, ast.Lambda)) and x is not node]
        capturing = []
        for g in nested:
            names = {x.id for x in ast.walk(g) if isinstance(x, ast.Name) and isinstance(x.ctx, ast.Load)}
            if names & tainted and "self" not in names:
                capturing.append(g)
        for g in capturing:
            gname = getattr(g, "name", "<lambda>")
            lazy = isinstance(g, ast.Lambda) or any(isinstance(x, (ast.Yield, ast.YieldFrom)) for x in ast.walk(g))
            for r in _own_nodes(node):
                if isinstance(r, ast.Return) and r.value is not None and any(isinstance(x, ast.Name) and x.id == gname for x in ast.walk(r.value)):
                    if lazy and not is_generator:
                        problems.append(
                            f"returns the lazily evaluated `{gname}(...)`, which captures borrowed pointers {sorted(names_of(g) & tainted)} but not self: "
                            "the tensor can be collected (and its arrays freed) while the iterator still reads them"
                        )
                if isinstance(r, ast.Assign) and any(isinstance(x, ast.Name) and x.id == gname for x in ast.walk(r.value)) and any(isinstance(t, ast.Attribute) for t in r.targets):
                    problems.append(f"stores `{gname}` (capturing borrowed pointers) on an object")
        for r in _own_nodes(node):
            if isinstance(r, ast.Return) and r.value is not None:
                v = r.value
                base = v
                sliced = False
                while isinstance(base, ast.Subscript):
                    if isinstance(base.slice, ast.Slice):
                        sliced = True
                    base = base.value
                if isinstance(base, ast.Name) and base.id in tainted and not sliced and not isinstance(v, ast.Subscript):
                    problems.append(f"returns the borrowed pointer {base.id}")
        if problems:
            ctx.fail("C13.borrowed-pointers", key, "; ".join(sorted(set(problems))))
        else:
            ctx.ok("C13.borrowed-pointers", key)
    if n_methods < 3:
        raise AnalysisError(f"only {n_methods} Tensor methods borrow pointers from self.cffi_tensor (expected items, taco_indices, taco_vals, __float__)")


def names_of(g):
    return {x.id for x in ast.walk(g) if isinstance(x, ast.Name)}


def _own_nodes(fnode):
    """Nodes of a function excluding nested function bodies."""
    out = []

    def rec(n):
        for ch in ast.iter_child_nodes(n):
            if isinstance(ch, (ast.FunctionDef, ast.AsyncFunctionDef, ast.Lambda)):
                continue
            out.append(ch)
            rec(ch)

    rec(fnode)
    return out


def rule_who_may_free(ctx, ix):
    ctx.rule("C13.who-may-free", "free / ffi.gc occur only in _cffi_ownership.py; ownership functions are called only on kernel outputs", min_instances=3)
    n_sites = 0
    for q, f in ix.funcs.items():
        for call in ix.calls_in(f):
            t = u(call.func)
            if t.endswith(".gc") or t.endswith(".free") or t == "free" or t.endswith(".release"):
                n_sites += 1
                ctx.instance("C13.who-may-free")
                key = f"{ix.rel(f.module)}:{q.split(f.module + '.', 1)[-1]}:{t}"
                if f.module == OWN:
                    ctx.ok("C13.who-may-free", key)
                else:
                    ctx.fail("C13.who-may-free", key, "memory is freed / given a finaliser outside the ownership module")
            if t in ("take_ownership_of_arrays", "take_ownership_of_tensor", "take_ownership_of_tensor_members") or t.endswith((".take_ownership_of_arrays", ".take_ownership_of_tensor", ".take_ownership_of_tensor_members")):
                ctx.instance("C13.who-may-free")
                key = f"{ix.rel(f.module)}:{q.split(f.module + '.', 1)[-1]}:{u(call)}"
                if f.module == OWN or q == f"{TM}.__call__":
                    ctx.ok("C13.who-may-free", key)
                else:
                    ctx.fail("C13.who-may-free", key, "ownership taken outside TensorMethod.__call__ / the ownership module (an input or a second finaliser)")
    # references to tensor_lib.free as a value
    for m, tree in ix.modules.items():
        for n in ast.walk(tree):
            if isinstance(n, ast.Attribute) and n.attr == "free" and m != OWN:
                ctx.instance("C13.who-may-free")
                ctx.fail("C13.who-may-free", f"{ix.rel(m)}:{u(n)}", "free referenced outside the ownership module")
    if n_sites < 1:
        raise AnalysisError("no gc/free site found in the package (expected the ones of _cffi_ownership.py)")


def rule_lifetime(ctx, ix):
    """The arrays live exactly as long as the C structure: the only way memory is ever returned is the
    destructor of an `ffi.gc(ptr, free)` wrapper that is stored in the holder reachable from the weak-key
    entry of the structure.  Anything that frees eagerly (`ffi.release`, a direct `free(...)` call, `del`
    / pop / clear of the holder's wrappers) or ties the release to another object's death
    (`weakref.finalize`, `__del__`, `atexit`) frees while the structure can still be referenced."""
    ctx.rule("C13.lifetime", "memory is released only by gc-wrapper destructors: no eager release, no finaliser tied to another object", min_instances=1)
    pk = [m for m in ix.modules if m.startswith("tensora.compile") or m == "tensora.tensor"]
    n_gc = 0
    for q, f in ix.funcs.items():
        if f.module not in pk:
            continue
        rel = f"{ix.rel(f.module)}:{q.split(f.module + '.', 1)[-1]}"
        if f.name in ("__del__",):
            ctx.instance("C13.lifetime")
            ctx.fail("C13.lifetime", f"{rel}", "a __del__ method in the tensor layer: release tied to this object's death, not the structure's")
        for call in ix.calls_in(f):
            t = u(call.func)
            last = t.split(".")[-1]
            if last == "gc":
                n_gc += 1
                ctx.instance("C13.lifetime")
                key = f"{rel}:{u(call)[:70]}"
                # that the wrapper ends up in the holder registered under the structure is decided on the object
                # graph by C13.ownership-semantics (helpers and temporaries do not matter there)
                if len(call.args) >= 2 and u(call.args[1]).split(".")[-1] == "free":
                    ctx.ok("C13.lifetime", key)
                else:
                    ctx.fail("C13.lifetime", key, "gc wrapper whose destructor is not `free`")
            elif last in ("release", "free") and not t.startswith(("lock", "self.lock")) and "lock" not in t.lower():
                ctx.instance("C13.lifetime")
                ctx.fail("C13.lifetime", f"{rel}:{u(call)[:70]}", "memory is released eagerly here: a structure (or a second Tensor built on it) that is still referenced is left with dangling / NULL arrays")
            elif last in ("finalize",) and ("weakref" in t or t == "finalize"):
                ctx.instance("C13.lifetime")
                ctx.fail("C13.lifetime", f"{rel}:{u(call)[:70]}", "a weakref.finalize callback ties a release to another object's death instead of the structure's")
            elif t in ("atexit.register",):
                ctx.instance("C13.lifetime")
                ctx.fail("C13.lifetime", f"{rel}:{u(call)[:70]}", "an exit hook in the tensor layer")
        # the holder's wrappers are never dropped early
        for st in ast.walk(f.node):
            drops = []
            if isinstance(st, ast.Delete):
                drops = [u(x) for x in st.targets if "memory_holder" in u(x) or "global_weakkeydict" in u(x)]
            if isinstance(st, ast.Call) and isinstance(st.func, ast.Attribute) and st.func.attr in ("pop", "clear", "popitem") and ("memory_holder" in u(st.func.value) or "global_weakkeydict" in u(st.func.value)):
                drops = [u(st)]
            for d in drops:
                ctx.instance("C13.lifetime")
                ctx.fail("C13.lifetime", f"{rel}:{d[:70]}", "a gc wrapper is dropped from the holder: its destructor frees the array while the structure lives")
    # nothing but the Tensor (and the frames using it) may hold the structure strongly: a memoised function called with
    # the structure, or a module-level table keyed by it that is not the weak-key table, keeps it - and with it the
    # holder and every array - alive after the last Tensor is gone
    cached = {}
    for q, f in ix.funcs.items():
        if any(re.match(r"(functools\.)?(lru_cache|cache)\b", u(d)) for d in f.node.decorator_list):
            cached[f.name] = q
    for q, f in ix.funcs.items():
        rel = f"{ix.rel(f.module)}:{q.split(f.module + '.', 1)[-1]}"
        for call in ix.calls_in(f):
            name = u(call.func).split(".")[-1]
            if name in cached:
                args = [u(a) for a in call.args] + [u(k.value) for k in call.keywords]
                if any(re.search(r"cffi_tensor|cffi_output", a) for a in args):
                    ctx.instance("C13.lifetime")
                    ctx.fail(
                        "C13.lifetime",
                        f"{rel}:{u(call)[:70]}",
                        f"the memoised function {cached[name].split('tensora.', 1)[-1]} is called with a tensor's C structure: its cache keeps the structure "
                        "(the weak key of the holder) alive, so the arrays are not released when the last Tensor goes away",
                    )
    for m, tree in ix.modules.items():
        tables = {}
        for st in tree.body:
            if isinstance(st, (ast.Assign, ast.AnnAssign)) and st.value is not None:
                tgt = st.targets[0] if isinstance(st, ast.Assign) else st.target
                if isinstance(tgt, ast.Name) and isinstance(st.value, (ast.Dict, ast.Call)) and u(st.value).split("(")[0] in ("{}", "dict", "OrderedDict", "defaultdict", "{"):
                    tables[tgt.id] = st
        if not tables:
            continue
        for q, f in ix.funcs.items():
            if f.module != m:
                continue
            for n in ast.walk(f.node):
                if isinstance(n, ast.Assign):
                    for t in n.targets:
                        if isinstance(t, ast.Subscript) and isinstance(t.value, ast.Name) and t.value.id in tables and re.search(r"cffi_tensor|cffi_output", u(t.slice)):
                            ctx.instance("C13.lifetime")
                            ctx.fail("C13.lifetime", f"{ix.rel(m)}:{f.name}:{u(t)[:60]}", "a module-level table that is not weak-keyed is keyed by a tensor's C structure: the structure is never released")
    if n_gc < 1:
        raise AnalysisError("no ffi.gc site found (anchor vanished)")


# ------------------------------------------------------------------------------------------------
# C14
# ------------------------------------------------------------------------------------------------
def rule_compile_lock(ctx, ix):
    ctx.rule("C14.compile-under-lock", "every FFI.compile call lies inside `with <module-level threading.Lock>`", min_instances=1)
    found = 0
    for q, f in ix.funcs.items():
        for call in ix.calls_in(f):
            if isinstance(call.func, ast.Attribute) and call.func.attr == "compile" and "ffi" in u(call.func.value).lower():
                found += 1
                ctx.instance("C14.compile-under-lock")
                key = f"{ix.rel(f.module)}:{q.split(f.module + '.', 1)[-1]}:{u(call)[:60]}"
                withs = []
                for lst, i in enclosing_chain(f.node, call):
                    s = lst[i]
                    if isinstance(s, ast.With):
                        withs.extend(u(it.context_expr) for it in s.items)
                locks = []
                for s in ix.module(f.module).body:
                    if isinstance(s, ast.Assign) and isinstance(s.value, ast.Call) and u(s.value.func) in ("threading.Lock", "threading.RLock", "Lock", "RLock"):
                        locks.append(u(s.targets[0]))
                if any(w in locks for w in withs):
                    ctx.ok("C14.compile-under-lock", key)
                else:
                    ctx.fail("C14.compile-under-lock", key, f"FFI.compile (not thread-safe) is called outside the module-level lock (enclosing with-items: {withs}, module locks: {locks})")
    if found == 0:
        raise AnalysisError("anchor vanished: no FFI.compile call found")


def rule_shared_state(ctx, ix):
    """Module-level objects mutated after import are exactly global_weakkeydict (single item operations)
    and the lru_cache; any other module-level container mutated from a function, or a global statement,
    is a violation."""
    ctx.rule("C14.shared-state", "shared mutable state inventory: only global_weakkeydict and the lru_cache", min_instances=3)
    allowed = {(OWN, "global_weakkeydict")}
    for m, tree in ix.modules.items():
        containers = set()
        for s in tree.body:
            if isinstance(s, (ast.Assign, ast.AnnAssign)) and s.value is not None:
                tg = s.targets if isinstance(s, ast.Assign) else [s.target]
                for t in tg:
                    if isinstance(t, ast.Name) and isinstance(s.value, (ast.Dict, ast.List, ast.Set, ast.ListComp, ast.DictComp)):
                        containers.add(t.id)
                    if isinstance(t, ast.Name) and isinstance(s.value, ast.Call) and u(s.value.func) in ("dict", "list", "set", "WeakKeyDictionary", "WeakValueDictionary", "defaultdict", "OrderedDict", "deque", "collections.defaultdict"):
                        containers.add(t.id)
        for q, f in ix.funcs.items():
            if f.module != m:
                continue
            local = {n.id for n in ast.walk(f.node) if isinstance(n, ast.Name) and isinstance(n.ctx, ast.Store)} | {a.arg for a in f.node.args.args + f.node.args.kwonlyargs}
            for n in ast.walk(f.node):
                if isinstance(n, ast.Global):
                    ctx.instance("C14.shared-state")
                    ctx.fail("C14.shared-state", f"{ix.rel(m)}:{q.split(m + '.', 1)[-1]}:global {','.join(n.names)}", "module-level state rebound from a function (unsynchronised shared state)")
                name = None
                op = None
                if isinstance(n, ast.Call) and isinstance(n.func, ast.Attribute) and isinstance(n.func.value, ast.Name) and n.func.attr in ("append", "add", "update", "setdefault", "pop", "clear", "extend", "insert", "remove", "popitem", "discard"):
                    name, op = n.func.value.id, n.func.attr
                if isinstance(n, (ast.Assign, ast.AugAssign, ast.Delete)):
                    tg = n.targets if isinstance(n, (ast.Assign, ast.Delete)) else [n.target]
                    for t in tg:
                        if isinstance(t, ast.Subscript) and isinstance(t.value, ast.Name):
                            name, op = t.value.id, "__setitem__"
                if name and name in containers and name not in local:
                    ctx.instance("C14.shared-state")
                    key = f"{ix.rel(m)}:{q.split(m + '.', 1)[-1]}:{name}.{op}"
                    if (m, name) in allowed and op == "__setitem__":
                        ctx.ok("C14.shared-state", key + " [single item store, atomic under the GIL]")
                    else:
                        ctx.fail("C14.shared-state", key, "module-level container mutated from a function: check-then-act on it is a race between concurrent evaluations")
    # process-global interpreter / library state changed from a function of the package: a save-change-restore of such a
    # setting in one thread is seen (and undone) under the feet of every other thread
    PROCESS_GLOBAL = re.compile(
        r"^(sys\.(setrecursionlimit|setswitchinterval|settrace|setprofile|set_int_max_str_digits)|os\.(chdir|umask|putenv|unsetenv)|"
        r"locale\.setlocale|signal\.signal|random\.seed|warnings\.(simplefilter|filterwarnings|resetwarnings)|threading\.(settrace|setprofile)|"
        r"gc\.(disable|enable|set_threshold|freeze)|decimal\.setcontext|faulthandler\.\w+|"
        r"(llvm|llvmlite\.binding)\.(set_option|initialize\w*|shutdown))$"
    )
    for q, f in ix.funcs.items():
        rel = f"{ix.rel(f.module)}:{q.split(f.module + '.', 1)[-1]}"
        for n in ast.walk(f.node):
            if isinstance(n, ast.Call) and PROCESS_GLOBAL.match(u(n.func)):
                ctx.instance("C14.shared-state")
                ctx.fail("C14.shared-state", f"{rel}:{u(n.func)}", f"process-global state is changed from a function ({u(n)[:60]}): concurrent evaluations see and undo each other's setting")
            if isinstance(n, (ast.Assign, ast.AugAssign, ast.Delete)):
                tg = n.targets if isinstance(n, (ast.Assign, ast.Delete)) else [n.target]
                for t in tg:
                    if isinstance(t, ast.Subscript) and u(t.value) == "os.environ":
                        ctx.instance("C14.shared-state")
                        ctx.fail("C14.shared-state", f"{rel}:os.environ[...]", "the process environment is modified from a function")
    # check-then-insert caches: `if key not in X: X[key] = ...` on module-level containers is covered above.
    # lru_cache is the only cache
    ctx.instance("C14.shared-state")
    from .core import cached_factory

    try:
        cf = cached_factory(ix)
        ctx.ok("C14.shared-state", f"compile/_porcelain.py:{cf.name} uses functools.lru_cache (documented thread-safe)")
    except AnalysisError:
        ctx.fail("C14.shared-state", "compile/_porcelain.py:kernel cache uses functools.lru_cache (documented thread-safe)", "kernel cache is not functools.lru_cache")


def rule_fresh_engine(ctx, ix):
    ctx.rule("C14.fresh-engine", "execution engine, target machine and backing module are created per compile_module activation", min_instances=3)
    f = ix.func("tensora.compile._compile_llvm.compile_module").node
    assigns = {}
    for s in f.body:
        if isinstance(s, ast.Assign) and isinstance(s.targets[0], ast.Name):
            assigns[s.targets[0].id] = s.value
    calls = [n for n in ast.walk(f) if isinstance(n, ast.Call) and u(n.func).endswith("create_mcjit_compiler")]
    ctx.instance("C14.fresh-engine")
    key = "compile/_compile_llvm.py:compile_module:create_mcjit_compiler"
    if len(calls) != 1:
        ctx.fail("C14.fresh-engine", key, "no single create_mcjit_compiler call in compile_module")
        return
    bad = []
    for a in calls[0].args:
        if not (isinstance(a, ast.Name) and a.id in assigns and isinstance(assigns[a.id], ast.Call)):
            bad.append(u(a))
    if bad:
        ctx.fail("C14.fresh-engine", key, f"arguments {bad} are not objects created in this activation (an engine takes ownership of its target machine; sharing it across threads/modules is a use-after-free)")
    else:
        ctx.ok("C14.fresh-engine", key)
    ctx.instance("C14.fresh-engine")
    key = "compile/_compile_llvm.py:compile_module:engine is local and returned"
    eng = [k for k, v in assigns.items() if v is calls[0]]
    params = {a.arg for a in f.args.args}

    def from_this_module(e, depth=0):
        """Does the expression derive (through local single assignments) from ir_to_llvm(<parameter>)?"""
        if depth > 6:
            return False
        for n in ast.walk(e):
            if isinstance(n, ast.Call) and u(n.func).split(".")[-1] == "ir_to_llvm" and n.args and isinstance(n.args[0], ast.Name) and n.args[0].id in params:
                return True
            if isinstance(n, ast.Name) and n.id in assigns and n.id not in params and from_this_module(assigns[n.id], depth + 1):
                return True
        return False

    added = [
        n
        for n in ast.walk(f)
        if isinstance(n, ast.Call) and isinstance(n.func, ast.Attribute) and n.func.attr == "add_module" and eng and u(n.func.value) == eng[0] and n.args and from_this_module(n.args[0])
    ]
    returned = [n for n in ast.walk(f) if isinstance(n, ast.Return) and n.value is not None and eng and any(isinstance(x, ast.Name) and x.id == eng[0] for x in ast.walk(n.value))]
    if eng and added and returned:
        ctx.ok("C14.fresh-engine", key)
    else:
        ctx.fail("C14.fresh-engine", key, "the module is not added to the engine created in this activation, or a different engine is returned")
    ctx.instance("C14.fresh-engine")
    key = "compile/_compile_llvm.py:module-level engines"
    tree = ix.module("tensora.compile._compile_llvm")
    glob = [u(s_) for s_ in tree.body if isinstance(s_, ast.Assign) and isinstance(s_.value, ast.Call) and re.search(r"create_mcjit_compiler|create_target_machine|ExecutionEngine", u(s_.value))]
    if glob:
        ctx.fail("C14.fresh-engine", key, f"module-level engine/target machine {glob}: kernels of different problems share one engine")
    else:
        ctx.ok("C14.fresh-engine", key)


def rule_reentrancy(ctx, ix):
    ctx.rule("C14.re-entrancy", "TensorMethod.__call__ mutates no attribute of self and allocates its output per call", min_instances=2)
    f = ix.func(f"{TM}.__call__").node
    ctx.instance("C14.re-entrancy")
    bad = []
    # __call__ and every method it reaches through self.<method>(...) (transitively)
    reach = [("__call__", f)]
    seen_m = {"__call__"}
    work = [f]
    while work:
        g = work.pop()
        for n in ast.walk(g):
            if isinstance(n, ast.Call) and isinstance(n.func, ast.Attribute) and isinstance(n.func.value, ast.Name) and n.func.value.id == "self":
                q = f"{TM}.{n.func.attr}"
                if q in ix.funcs and n.func.attr not in seen_m:
                    seen_m.add(n.func.attr)
                    reach.append((n.func.attr, ix.funcs[q].node))
                    work.append(ix.funcs[q].node)
    for mname, g in reach:
        for n in ast.walk(g):
            if isinstance(n, (ast.Assign, ast.AugAssign, ast.AnnAssign)):
                tg = n.targets if isinstance(n, ast.Assign) else [n.target]
                for t in tg:
                    for x in ast.walk(t):
                        if isinstance(x, ast.Attribute) and isinstance(x.value, ast.Name) and x.value.id == "self":
                            bad.append(f"{mname}: {u(t)}")
            if isinstance(n, ast.Call) and isinstance(n.func, ast.Attribute) and n.func.attr in ("append", "add", "update", "setdefault", "pop", "clear", "extend") and u(n.func.value).startswith("self."):
                bad.append(f"{mname}: {u(n.func)}")
            if isinstance(n, ast.Call) and u(n.func) in ("setattr", "object.__setattr__") and n.args and u(n.args[0]) == "self":
                bad.append(f"{mname}: {u(n)}")
    if bad:
        ctx.fail("C14.re-entrancy", "compile/_tensor_method.py:TensorMethod.__call__:self is read-only", f"__call__ (or a method it calls on self) mutates {bad}: concurrent calls of one cached TensorMethod interfere (e.g. a lazily created engine replaced while another thread runs its code)")
    else:
        ctx.ok("C14.re-entrancy", "compile/_tensor_method.py:TensorMethod.__call__:self is read-only")
    ctx.instance("C14.re-entrancy")
    allocs = [s for s in f.body if isinstance(s, ast.Assign) and isinstance(s.value, ast.Call) and u(s.value.func) == "allocate_taco_structure"]
    if len(allocs) == 1:
        ctx.ok("C14.re-entrancy", "compile/_tensor_method.py:TensorMethod.__call__:output allocated per call")
    else:
        ctx.fail("C14.re-entrancy", "compile/_tensor_method.py:TensorMethod.__call__:output allocated per call", "output struct is not allocated inside every call")
    # TensorMethod.__init__ stores only into self; module-level compiled objects are not shared
    ctx.instance("C14.re-entrancy")
    init = ix.func(f"{TM}.__init__").node
    glob = [n for n in ast.walk(init) if isinstance(n, ast.Global)]
    if glob:
        ctx.fail("C14.re-entrancy", "compile/_tensor_method.py:TensorMethod.__init__", "uses global state")
    else:
        ctx.ok("C14.re-entrancy", "compile/_tensor_method.py:TensorMethod.__init__")
