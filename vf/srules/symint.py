"""Symbolic integers for the abstract evaluator: polynomials over opaque atoms, in normal form.

An atom is a string (a dimension size `D1`, an array length `len(pos0)`, an array element `pos0[P]`
whose index is itself a polynomial printed in normal form, a loop variable `r3`).  Two expressions are
the same quantity iff their normal forms are equal; no solver is involved.  SymList models an array (or
a slice of one) of unknown content: a name and symbolic bounds."""

from __future__ import annotations


class Poly:
    __slots__ = ("terms",)

    def __init__(self, terms=None):
        self.terms = {k: v for k, v in (terms or {}).items() if v != 0}

    # ---- construction ---------------------------------------------------------------------------
    @staticmethod
    def const(c):
        return Poly({(): c})

    @staticmethod
    def atom(name):
        return Poly({(name,): 1})

    @staticmethod
    def of(x):
        if isinstance(x, Poly):
            return x
        if isinstance(x, bool):
            raise TypeError("bool is not a symbolic integer")
        if isinstance(x, int):
            return Poly.const(x)
        raise TypeError(f"not a symbolic integer: {x!r}")

    # ---- arithmetic -----------------------------------------------------------------------------
    def __add__(self, o):
        o = Poly.of(o)
        t = dict(self.terms)
        for k, v in o.terms.items():
            t[k] = t.get(k, 0) + v
        return Poly(t)

    __radd__ = __add__

    def __neg__(self):
        return Poly({k: -v for k, v in self.terms.items()})

    def __sub__(self, o):
        return self + (-Poly.of(o))

    def __rsub__(self, o):
        return Poly.of(o) + (-self)

    def __mul__(self, o):
        o = Poly.of(o)
        t = {}
        for k1, v1 in self.terms.items():
            for k2, v2 in o.terms.items():
                k = tuple(sorted(k1 + k2))
                t[k] = t.get(k, 0) + v1 * v2
        return Poly(t)

    __rmul__ = __mul__

    # ---- inspection -----------------------------------------------------------------------------
    def atoms(self):
        return {a for k in self.terms for a in k}

    def evaluate(self, env):
        """Value under an assignment of atoms (atoms missing from env stay symbolic: result is a Poly)."""
        out = Poly.const(0)
        for k, c in self.terms.items():
            t = Poly.const(c)
            for a in k:
                t = t * (Poly.const(env[a]) if a in env else Poly.atom(a))
            out = out + t
        return out

    def is_const(self):
        return all(k == () for k in self.terms)

    def value(self):
        return self.terms.get((), 0)

    def __eq__(self, o):
        if isinstance(o, (int, Poly)) and not isinstance(o, bool):
            return self.terms == Poly.of(o).terms
        return NotImplemented

    def __hash__(self):
        return hash(tuple(sorted(self.terms.items())))

    def __repr__(self):
        if not self.terms:
            return "0"
        parts = []
        for k in sorted(self.terms, key=lambda k: (len(k), k)):
            c = self.terms[k]
            mono = "*".join(k)
            if not k:
                parts.append(str(c))
            elif c == 1:
                parts.append(mono)
            elif c == -1:
                parts.append("-" + mono)
            else:
                parts.append(f"{c}*{mono}")
        return "+".join(parts).replace("+-", "-")


def is_num(x):
    return isinstance(x, Poly) or (isinstance(x, int) and not isinstance(x, bool))


class SymList:
    """Elements name[lo], ..., name[hi-1] of an array of unknown content (bounds are Poly)."""

    def __init__(self, name, lo=0, hi=None):
        self.name = name
        self.lo = Poly.of(lo)
        self.hi = Poly.atom(f"len({name})") if hi is None else Poly.of(hi)

    def length(self):
        return self.hi - self.lo

    def elem(self, i):
        if isinstance(i, int) and not isinstance(i, bool) and i < 0:
            idx = self.hi + i
        else:
            idx = self.lo + Poly.of(i)
        return Poly.atom(f"{self.name}[{idx!r}]")

    def slice(self, a, b):
        lo = self.lo if a is None else self.lo + Poly.of(a)
        hi = self.hi if b is None else self.lo + Poly.of(b)
        return SymList(self.name, lo, hi)

    def __repr__(self):
        return f"{self.name}[{self.lo!r}:{self.hi!r}]"

    def same(self, o):
        return isinstance(o, SymList) and self.name == o.name and self.lo == o.lo and self.hi == o.hi


class SymRange:
    def __init__(self, lo, hi):
        self.lo = Poly.of(lo)
        self.hi = Poly.of(hi)
