"""C15: generated code is a pure function of the request; caching is invisible."""

from __future__ import annotations

import ast
import re

from ..common import AnalysisError
from .core import Func, SourceIndex, import_tensora
from .escape import Escape

GEN_ENTRIES = [
    "tensora.generate._base.generate_code",
    "tensora.generate._tensora.generate_module_tensora",
    "tensora.problem.make_problem",
    "tensora.problem.Problem.__post_init__",
    "tensora.problem.Problem.__eq__",
    "tensora.problem.Problem.__hash__",
    "tensora.expression._parser.parse_assignment",
    "tensora.format._parser.parse_format",
    "tensora.format._parser.parse_named_format",
    "tensora.expression.ast.Assignment.__post_init__",
    "tensora.compile._tensor_method.TensorMethod.__init__",
    "tensora.compile._tensor_method.TensorMethod.__call__",
    "tensora.cli.tensora",
]


def u(e):
    return ast.unparse(e)


def ann_is_set(a):
    if a is None:
        return False
    t = u(a)
    return t.startswith(("set[", "frozenset[")) or t in ("set", "frozenset")


class OrderInfer(ast.NodeVisitor):
    """Enumerate constructs that observe the iteration order of a builtin set/frozenset (or of a
    dict built by iterating one)."""

    def __init__(self, ix, f: Func, ret_set, ret_tdict, attr_set, attr_nonset=frozenset(), ct=None):
        from .axis import Typer

        self.attr_nonset = attr_nonset
        self.typer = Typer(ix, ct, f, lambda *a, **k: None) if ct is not None else None
        self.ix = ix
        self.f = f
        self.ret_set = ret_set
        self.ret_tdict = ret_tdict
        self.attr_set = attr_set
        self.env = {}
        self.sites = []
        self.returns_tdict = False
        self.returns_set = False
        for a in f.node.args.args + f.node.args.kwonlyargs:
            if ann_is_set(a.annotation):
                self.env[a.arg] = "set"

    def is_set(self, e):
        if isinstance(e, (ast.Set, ast.SetComp)):
            return True
        if isinstance(e, ast.Call):
            fn = e.func
            if isinstance(fn, ast.Name) and fn.id in ("set", "frozenset"):
                return True
            if isinstance(fn, ast.Attribute):
                if fn.attr in ("intersection", "union", "difference", "symmetric_difference", "copy") and self.is_set(fn.value):
                    return True
                if u(fn) == "frozenset.union":
                    return True
                if fn.attr in self.ret_set:
                    return True
            if isinstance(fn, ast.Name) and fn.id in self.ret_set:
                return True
            if isinstance(fn, ast.Attribute) and fn.attr == "get" and len(e.args) == 2 and self.is_set(e.args[1]):
                return True
        if isinstance(e, ast.BinOp) and isinstance(e.op, (ast.BitOr, ast.BitAnd, ast.Sub, ast.BitXor)):
            # set algebra on sets, and on dict key/item views (d.keys() | other is a plain set)
            def view(x):
                return isinstance(x, ast.Call) and isinstance(x.func, ast.Attribute) and x.func.attr in ("keys", "items") and not x.args

            if view(e.left) or view(e.right):
                # dict | dict (PEP 584) is a dict merge, not a set: both sides must not be plain names of dicts
                return True
            return self.is_set(e.left) or self.is_set(e.right)
        if isinstance(e, ast.Name):
            return self.env.get(e.id) == "set"
        if isinstance(e, ast.Attribute) and e.attr in self.attr_set:
            # attribute annotated as a set on some class: decide by the receiver's class (annotation-driven);
            # an untypable receiver counts as a set only if no class annotates the attribute otherwise
            rc = self.typer.cls_of(e.value) if self.typer is not None else None
            if rc is not None:
                ann = self.typer.ct.fields.get(rc, {}).get(e.attr)
                return ann_is_set(ann)
            return e.attr not in self.attr_nonset
        return False

    def is_tdict(self, e):
        if isinstance(e, ast.DictComp):
            return any(self.unordered(g.iter) for g in e.generators)
        if isinstance(e, ast.Call) and u(e.func) in ("dict.fromkeys", "dict", "OrderedDict", "collections.OrderedDict") and e.args and self.unordered(e.args[0]):
            return True
        if isinstance(e, ast.Call) and u(e.func) == "dict" and e.args and isinstance(e.args[0], ast.Call) and u(e.args[0].func) == "zip" and any(self.unordered(a) for a in e.args[0].args):
            return True
        if isinstance(e, ast.Name):
            return self.env.get(e.id) == "tdict"
        if isinstance(e, ast.Call):
            fn = e.func
            name = fn.attr if isinstance(fn, ast.Attribute) else fn.id if isinstance(fn, ast.Name) else None
            if name in self.ret_tdict:
                return True
            if isinstance(fn, ast.Attribute) and fn.attr in ("items", "keys", "values", "copy") and self.is_tdict(fn.value):
                return True
        return False

    def unordered(self, e):
        return self.is_set(e) or self.is_tdict(e)

    def site(self, node, what):
        self.sites.append((what, " ".join(u(node).split())[:100], node))

    def is_ksetdict(self, e):
        """A dict whose KEYS are builtin sets (ordered itself, but each key is an unordered collection)."""
        if isinstance(e, ast.Dict):
            return any(k is not None and self.is_set(k) for k in e.keys)
        if isinstance(e, ast.Name):
            return self.env.get(e.id) == "ksetdict"
        if isinstance(e, ast.Call) and isinstance(e.func, ast.Attribute) and e.func.attr == "copy":
            return self.is_ksetdict(e.func.value)
        return False

    def visit_Assign(self, n):
        self.generic_visit(n)
        for t in n.targets:
            if isinstance(t, ast.Name):
                if self.is_set(n.value):
                    self.env[t.id] = "set"
                elif self.is_tdict(n.value):
                    self.env[t.id] = "tdict"
                elif self.is_ksetdict(n.value):
                    self.env[t.id] = "ksetdict"
                elif self.env.get(t.id) == "ksetdict" and isinstance(n.value, ast.Dict) and not n.value.keys:
                    pass  # re-initialised to {} and filled again below: keep the key type (flow-insensitive)
                else:
                    self.env.pop(t.id, None)
            elif isinstance(t, ast.Subscript) and isinstance(t.value, ast.Name) and self.is_set(t.slice):
                self.env[t.value.id] = "ksetdict"

    def visit_AnnAssign(self, n):
        self.generic_visit(n)
        if isinstance(n.target, ast.Name) and (ann_is_set(n.annotation) or (n.value is not None and self.is_set(n.value))):
            self.env[n.target.id] = "set"

    def visit_For(self, n):
        if self.unordered(n.iter):
            self.site(n.iter, "for")
        # keys of a dict keyed by sets are sets
        it = n.iter
        if isinstance(it, ast.Call) and isinstance(it.func, ast.Attribute) and it.func.attr in ("items", "keys") and not it.args and self.is_ksetdict(it.func.value):
            k = n.target.elts[0] if it.func.attr == "items" and isinstance(n.target, ast.Tuple) and n.target.elts else n.target if it.func.attr == "keys" else None
            if isinstance(k, ast.Name):
                self.env[k.id] = "set"
        elif self.is_ksetdict(it) and isinstance(n.target, ast.Name):
            self.env[n.target.id] = "set"
        self.generic_visit(n)

    def comp(self, n):
        for g in n.generators:
            if self.unordered(g.iter) and not isinstance(n, ast.SetComp):
                self.site(g.iter, "comprehension:" + type(n).__name__)
        self.generic_visit(n)

    visit_ListComp = visit_GeneratorExp = visit_DictComp = visit_SetComp = comp

    def visit_Call(self, n):
        fn = n.func
        if isinstance(fn, ast.Name) and fn.id in ("list", "tuple", "next", "iter", "enumerate", "zip", "reversed", "sorted", "min", "max") and n.args and self.unordered(n.args[0]):
            if fn.id not in ("sorted", "min", "max"):  # order-insensitive consumers
                self.site(n, "call:" + fn.id)
        if isinstance(fn, ast.Attribute) and fn.attr == "pop" and not n.args and self.is_set(fn.value):
            self.site(n, "pop")
        if isinstance(fn, ast.Attribute) and fn.attr == "join" and n.args and self.unordered(n.args[0]):
            self.site(n, "join")
        for a in n.args:
            if isinstance(a, ast.Starred) and self.unordered(a.value) and not (isinstance(fn, ast.Name) and fn.id in ("set", "frozenset")):
                self.site(a, "star-arg")
        self.generic_visit(n)

    def visit_Return(self, n):
        if n.value is not None and self.is_tdict(n.value):
            self.returns_tdict = True
        if n.value is not None and self.is_set(n.value):
            self.returns_set = True  # whatever the annotation says
        self.generic_visit(n)

    def visit_FunctionDef(self, n):
        if n is self.f.node:
            self.generic_visit(n)


def order_sites(ix: SourceIndex, reach):
    ret_set = set()
    attr_set = set()
    for q, f in ix.funcs.items():
        if ann_is_set(f.node.returns):
            ret_set.add(f.name)
    for cq, node in ix.classes.items():
        for s in node.body:
            if isinstance(s, ast.AnnAssign) and isinstance(s.target, ast.Name) and ann_is_set(s.annotation):
                attr_set.add(s.target.id)
    from .axis import ClassTypes

    ct = ClassTypes(ix)
    attr_nonset = set()
    for cq, node in ix.classes.items():
        for s_ in node.body:
            if isinstance(s_, ast.AnnAssign) and isinstance(s_.target, ast.Name) and not ann_is_set(s_.annotation):
                attr_nonset.add(s_.target.id)
    ret_tdict = set()
    sites = []
    for _ in range(5):
        before = set(ret_tdict) | {"set:" + x for x in ret_set}
        sites = []
        for q in sorted(reach):
            f = ix.funcs[q]
            inf = OrderInfer(ix, f, ret_set, ret_tdict, attr_set, attr_nonset, ct)
            inf.visit(f.node)
            if inf.returns_tdict:
                ret_tdict.add(f.name)
            if inf.returns_set:
                ret_set.add(f.name)
            for what, text, node in inf.sites:
                sites.append((q, what, text, node))
        if set(ret_tdict) | {"set:" + x for x in ret_set} == before:
            break
    return sites, ret_tdict


# ---- side conditions of the confirmed-benign table ------------------------------------------------
def cond_contract_index_unread(ix, f, node):
    """Contract nesting order is unobservable: no reader of desugar.Contract.index exists."""
    for q, g in ix.funcs.items():
        if not g.module.startswith("tensora.desugar") and not g.module.startswith("tensora.generate"):
            continue
        args = g.node.args.args
        if args and args[0].annotation is not None and u(args[0].annotation).split(".")[-1] == "Contract":
            for n in ast.walk(g.node):
                if isinstance(n, ast.Attribute) and n.attr == "index" and isinstance(n.value, ast.Name) and n.value.id == args[0].arg:
                    return f"{q} reads Contract.index"
        for n in ast.walk(g.node):
            if isinstance(n, ast.MatchClass) and u(n.cls).split(".")[-1] == "Contract":
                if n.patterns or any(k == "index" for k in n.kwd_attrs):
                    return f"{q} destructures Contract.index in a match"
    # the loop body only wraps: output = desugar.Contract(index, output)
    loop = None
    for n in ast.walk(f.node):
        if isinstance(n, ast.For) and n.iter is node:
            loop = n
    m = re.fullmatch(r"(\w+) = (?:desugar\.)?Contract\((\w+), (\w+)\)", u(loop.body[0])) if loop is not None and len(loop.body) == 1 else None
    if m is None or m.group(1) != m.group(3) or not isinstance(loop.target, ast.Name) or m.group(2) != loop.target.id:
        return "loop body is not `acc = desugar.Contract(<loop variable>, acc)`"
    return None


def cond_merge_consumers(ix, f, node):
    """The dict built in hash order is only consumed through set(...)/membership/get on the generation path."""
    bad = []
    for q, g in ix.funcs.items():
        for n in ast.walk(g.node):
            if isinstance(n, ast.Call) and isinstance(n.func, ast.Attribute) and n.func.attr == "index_participants":
                # find how the result is used: parent expression
                use = usage_of(g.node, n)
                if use in ("set(keys)", "get", "keys-into-set", "return", "merge"):
                    continue
                if g.module == EVALUATE_LAYER:
                    continue  # order-observing uses there are sites of their own (cond_evaluate_layer)
                bad.append(f"{q}: {use}")
    if bad:
        return f"order-observing consumers of index_participants(): {bad}"
    return None


def _parent_map(fnode):
    pm = {}
    for n in ast.walk(fnode):
        for ch in ast.iter_child_nodes(n):
            pm[ch] = n
    return pm


def usage_of(fnode, call):
    """How the mapping returned by index_participants() is consumed here.  Order-free uses: membership,
    .get, conversion into a set (set(x), set(x.keys()), {*x}, {*x.keys()}), being returned or merged.
    Anything else (iteration, list(), .items() loops) observes the order."""
    pm = _parent_map(fnode)

    def classify(node, depth=0):
        parent = pm.get(node)
        if parent is None or depth > 6:
            return "?"
        if isinstance(parent, ast.Attribute) and parent.attr in ("keys",):
            gp = pm.get(parent)  # the call x.keys()
            return classify(gp, depth + 1) if isinstance(gp, ast.Call) else "keys used bare"
        if isinstance(parent, ast.Attribute) and parent.attr in ("get", "__contains__"):
            return "get"
        if isinstance(parent, ast.Attribute) and parent.attr == "items":
            return "items"
        if isinstance(parent, ast.Call) and isinstance(parent.func, ast.Name) and parent.func.id in ("set", "frozenset") and node in parent.args:
            return "set(keys)"
        if isinstance(parent, ast.Starred):
            gp = pm.get(parent)
            return "keys-into-set" if isinstance(gp, ast.Set) else f"starred into {type(gp).__name__}"
        if isinstance(parent, ast.Compare) and any(isinstance(o, (ast.In, ast.NotIn)) for o in parent.ops) and node in parent.comparators:
            return "get"
        if isinstance(parent, ast.Return):
            return "return"
        if isinstance(parent, ast.Assign):
            # local variable: every load of it must itself be an order-free use
            if len(parent.targets) != 1 or not isinstance(parent.targets[0], ast.Name):
                return "assigned to a non-local"
            name = parent.targets[0].id
            uses = []
            for n in ast.walk(fnode):
                if isinstance(n, ast.Name) and n.id == name and isinstance(n.ctx, ast.Load):
                    uses.append(classify(n, depth + 1))
            bad = sorted({x for x in uses if x not in ("get", "set(keys)", "keys-into-set", "return", "merge")})
            if not bad:
                return "merge"
            return f"local {name} used as {bad}"
        return type(parent).__name__

    return classify(call)


def cond_pop_into_exception(ix, f, node):
    parent = None
    for n in ast.walk(f.node):
        for ch in ast.iter_child_nodes(n):
            if ch is node:
                parent = n
    gp = None
    for n in ast.walk(f.node):
        for ch in ast.iter_child_nodes(n):
            if ch is parent:
                gp = n
    if isinstance(parent, ast.Call) and isinstance(gp, ast.Raise):
        return None
    return "popped element does not flow only into an exception argument"


def cond_call_index_loop(ix, f, node):
    """Per-index loop of TensorMethod.__call__ (evaluate path, not text generation): its body only writes
    index_sizes[index], local lists and raises."""
    loop = None
    for n in ast.walk(f.node):
        if isinstance(n, ast.For) and n.iter is node:
            loop = n
    if loop is None:
        return "not a for loop"
    for s in ast.walk(loop):
        if isinstance(s, ast.Call) and isinstance(s.func, ast.Attribute) and s.func.attr in ("append", "extend", "add", "write", "echo"):
            return f"body calls {u(s.func)}"
        if isinstance(s, ast.Assign):
            for t in s.targets:
                tt = u(t)
                names_only = isinstance(t, ast.Name) or (isinstance(t, (ast.Tuple, ast.List)) and all(isinstance(x, (ast.Name, ast.Starred)) for x in t.elts))
                sub_local = isinstance(t, ast.Subscript) and isinstance(t.value, ast.Name)  # a local table such as index_sizes[index]
                if not (names_only or sub_local):
                    return f"body assigns {tt}"
    return None


TEXT_SINKS = ("generate_code", "generate_module_tensora", "make_problem", "Problem", "cachable_tensor_method", "TensorMethod", "write_text", "echo")
EVALUATE_LAYER = "tensora.compile._tensor_method"


def cond_evaluate_layer(ix, f, node):
    """A site in the argument-validation layer of evaluate (TensorMethod): generated text is a function of the
    Problem handed to generate_*; the order observed here matters only if a value computed from it reaches such a
    call (module-wide taint over locals and self attributes) or the loop body writes output directly.  The order in
    which kernel ARGUMENTS are passed is C10.call-semantics' obligation."""
    pm = _parent_map(f.node)
    stmt = node
    while stmt in pm and not isinstance(stmt, ast.stmt):
        stmt = pm[stmt]
    tainted = set()

    def targets_of(s):
        out = set()
        for n in ast.walk(s):
            if isinstance(n, (ast.Assign, ast.AugAssign, ast.AnnAssign)):
                for t in n.targets if isinstance(n, ast.Assign) else [n.target]:
                    for x in ast.walk(t):
                        if isinstance(x, ast.Name):
                            out.add(x.id)
                        elif isinstance(x, ast.Attribute) and isinstance(x.value, ast.Name) and x.value.id == "self":
                            out.add(u(x))
            if isinstance(n, ast.Call) and isinstance(n.func, ast.Attribute) and n.func.attr in ("append", "extend", "add", "update", "setdefault", "insert") and isinstance(n.func.value, (ast.Name, ast.Attribute)):
                out.add(u(n.func.value))
            if isinstance(n, ast.Call) and isinstance(n.func, ast.Attribute) and n.func.attr in ("write", "write_text", "echo"):
                out.add("<output>")
        return out

    tainted |= targets_of(stmt)
    if "<output>" in tainted:
        return "the loop writes output directly"
    module_funcs = [g for g in ix.funcs.values() if g.module == f.module]
    changed = True
    while changed:
        changed = False
        for g in module_funcs:
            for n in ast.walk(g.node):
                if isinstance(n, (ast.Assign, ast.AugAssign, ast.AnnAssign)) and getattr(n, "value", None) is not None:
                    mentioned = {u(x) for x in ast.walk(n.value) if isinstance(x, ast.Name) or (isinstance(x, ast.Attribute) and isinstance(x.value, ast.Name) and x.value.id == "self")}
                    if mentioned & tainted:
                        new = targets_of(n) - tainted
                        if new:
                            tainted |= new
                            changed = True
    for g in module_funcs:
        for n in ast.walk(g.node):
            if isinstance(n, ast.Call) and u(n.func).split(".")[-1] in TEXT_SINKS:
                for a in list(n.args) + [k.value for k in n.keywords]:
                    mentioned = {u(x) for x in ast.walk(a) if isinstance(x, ast.Name) or (isinstance(x, ast.Attribute) and isinstance(x.value, ast.Name) and x.value.id == "self")}
                    hit = sorted(mentioned & tainted)
                    if hit:
                        return f"{hit[0]}, computed in hash order, reaches {u(n.func)}(...) in {g.name}"
    return None


BENIGN = {
    # (function, kind) -> (reason, side-condition checker).  The site's own text is not part of the key
    # (renaming a local must not matter): the side condition decides, per site, from the construct's shape.
    ("tensora.desugar._desugar_expression.desugar_tensor", "for"): ("nesting order of Contract nodes is never inspected", cond_contract_index_unread),
    ("tensora.desugar._desugar_expression.desugar_add", "for"): ("nesting order of Contract nodes is never inspected", cond_contract_index_unread),
    ("tensora.desugar._desugar_expression.desugar_subtract", "for"): ("nesting order of Contract nodes is never inspected", cond_contract_index_unread),
    ("tensora.desugar._desugar_expression.desugar_multiply", "for"): ("nesting order of Contract nodes is never inspected", cond_contract_index_unread),
    ("tensora.expression.ast.merge_index_participants", "comprehension:DictComp"): (
        "every consumer on the generation path wraps the result in set(...) or uses membership/get",
        cond_merge_consumers,
    ),
    ("tensora.expression.ast.Assignment.__post_init__", "pop"): ("flows only into an exception argument", cond_pop_into_exception),
}


def rule_hash_order(ctx, ix, reach):
    ctx.rule("C15.hash-order-sites", "every construct observing set/frozenset iteration order is in the confirmed-benign table and its side condition holds", min_instances=5)
    sites, _ = order_sites(ix, reach)
    seen = set()
    for q, what, text, node in sites:
        k3 = (q, what, text)
        if (k3, id(node)) in seen:
            continue
        seen.add((k3, id(node)))
        ctx.instance("C15.hash-order-sites")
        f = ix.funcs[q]
        key = f"{ix.rel(f.module)}:{q.split(f.module + '.', 1)[-1]}:{what}:{text}"
        entry = BENIGN.get((q, what))
        if entry is None and f.module == EVALUATE_LAYER:
            entry = ("argument validation of evaluate, not text generation: nothing computed from it reaches a generate_*/Problem call", cond_evaluate_layer)
        if entry is None:
            ctx.fail(
                "C15.hash-order-sites",
                key,
                "iteration order of a builtin set/frozenset (hash-seed dependent for strings) is observed here and the site is "
                "not in the confirmed-benign table: generated text may differ between processes",
            )
            continue
        reason, chk = entry
        why = chk(ix, f, node)
        if why is None:
            ctx.ok("C15.hash-order-sites", key + f" [benign: {reason}]")
        else:
            ctx.fail("C15.hash-order-sites", key, f"confirmed-benign site whose side condition no longer holds: {why}")
    missing = [k for k in BENIGN if not any((q, w) == k for q, w, t, _ in sites) and k[0] in ix.funcs]
    ctx.extra["benign_table_entries_not_seen"] = [":".join(k) for k in missing]


def rule_stable_sets(ctx, ix):
    """StableSet / StableFrozenSet are evaluated abstractly (symeval) on item sequences covering every
    equality pattern up to length 4 (the classes touch items only through hash/equality, so the pattern is
    all that matters); item values are chosen so that a builtin set would iterate them in another order
    than they were inserted.  Iteration, reversed() and | must follow first-insertion order."""
    import itertools

    from . import symeval as S

    ctx.rule("C15.stable-sets", "StableSet/StableFrozenSet iterate in first-insertion order (abstract evaluation over all equality patterns up to length 4)", min_instances=4)
    vals = (5, 3, 4, 1, 2, 0)  # a builtin set of these iterates in ascending order

    def patterns(n):
        # restricted growth strings = equality patterns
        def rec(prefix, mx):
            if len(prefix) == n:
                yield tuple(prefix)
                return
            for k in range(mx + 2):
                yield from rec(prefix + [k], max(mx, k))

        if n == 0:
            yield ()
        else:
            yield from rec([0], 0)

    def first_occurrence(seq):
        out = []
        for x in seq:
            if x not in out:
                out.append(x)
        return out

    G = {"dict": S.Obj("dictclass", fromkeys=lambda it, v=None: dict.fromkeys(it, v))}
    all_meths = {}
    for cls in ("StableSet", "StableFrozenSet"):
        all_meths[cls] = {f.name: f.node for q, f in ix.funcs.items() if q.rsplit(".", 1)[0] == f"tensora._stable_set.{cls}"}
        if "__init__" not in all_meths[cls] or "__iter__" not in all_meths[cls]:
            raise AnalysisError(f"anchor vanished: {cls}.__init__/__iter__")

        def make(*items, _cls=cls, _meths=all_meths[cls], _G=G):
            o = S.Obj(_cls, __methods__=_meths)
            outs = list(S.explore(_meths["__init__"], [o, *items], globals_=_G))
            if len(outs) != 1 or outs[0][1][0] != "return":
                raise S.Uninterpretable(f"{_cls}.__init__: {outs[0][1] if outs else 'no outcome'}")
            return o

        # the class: callable (constructor) and usable in isinstance; each class may mention the other
        G[cls] = S.CallableObj("Class", make, name=cls)
    for cls in ("StableSet", "StableFrozenSet"):
        meths = all_meths[cls]
        make = G[cls]

        def run(o, m, *args, _meths=meths, _G=G):
            outs = list(S.explore(_meths[m], [o, *args], globals_=_G))
            if len(outs) != 1 or outs[0][1][0] != "return":
                raise S.Uninterpretable(f"{m}: {outs[0][1] if outs else 'no outcome'}")
            return outs[0][1][1]

        def listing(o):
            it = run(o, "__iter__")
            if isinstance(it, S.Obj) and it.tag == "iterator":
                return list(it.attrs["items"])
            return list(it)

        problems = {}
        n = 0
        for ln in range(0, 7 if getattr(ctx, "tier", "quick") == "thorough" else 5):
            for pat in patterns(ln):
                items = [vals[k] for k in pat]
                n += 1
                try:
                    o = make(*items)
                    got = listing(o)
                    if got != first_occurrence(items):
                        problems.setdefault("iteration order is not first-insertion order (hash order of a builtin set shows through)", (items, got))
                    if "__reversed__" in meths:
                        r_ = listing(run(o, "__reversed__"))
                        if r_ != list(reversed(first_occurrence(items))):
                            problems.setdefault("reversed() is not the reverse of the insertion order", (items, r_))
                    if "__or__" in meths and ln <= 3:
                        for pat2 in patterns(min(ln, 2)):
                            items2 = [vals[(k + 1) % len(vals)] for k in pat2]
                            u_ = listing(run(o, "__or__", make(*items2)))
                            if u_ != first_occurrence(items + items2):
                                problems.setdefault("a | b does not keep left-then-right insertion order", (items, items2, u_))
                except S.Uninterpretable as ex:
                    problems.setdefault(f"not interpretable: {ex}"[:120], items)
        ctx.instance("C15.stable-sets", n)
        for why, ex in problems.items():
            ctx.fail("C15.stable-sets", f"_stable_set.py:{cls}:{why[:80]}", f"{why}; e.g. {ex}")
        ctx.ok("C15.stable-sets", f"_stable_set.py:{cls}", n=max(0, n - len(problems)))


IMPURE_CALLS = re.compile(
    r"^(time\.|datetime\.|random\.|secrets\.|uuid\.|os\.environ|os\.getenv|os\.urandom|os\.getpid|id$|hash$|input$|open$|"
    r"socket\.|platform\.node|getpass\.)"
)


def rule_purity(ctx, ix, reach):
    ctx.rule("C15.purity", "no function on the generation path reads clock, environment, randomness, id()/hash(), files or mutable module state", min_instances=100)
    module_level_mutables = {}
    for m, tree in ix.modules.items():
        names = set()
        for s in tree.body:
            if isinstance(s, (ast.Assign, ast.AnnAssign)) and s.value is not None:
                for t in s.targets if isinstance(s, ast.Assign) else [s.target]:
                    if isinstance(t, ast.Name) and isinstance(s.value, (ast.Dict, ast.List, ast.Set, ast.Call, ast.DictComp, ast.ListComp, ast.SetComp)) and not t.id.startswith("__"):
                        if isinstance(s.value, ast.Call) and u(s.value.func) in ("reg", "lit", "typer.Typer", "FFI", "threading.Lock", "TypeVar", "llvm.IntType", "llvm.DoubleType", "Multiply", "Boolean", "Integer", "Float", "Tensor", "Mode"):
                            continue
                        names.add(t.id)
        module_level_mutables[m] = names
    gen_reach = {q for q in reach if not q.startswith("tensora.cli.") and not q.startswith("tensora.compile.")}
    for q in sorted(gen_reach):
        f = ix.funcs[q]
        ctx.instance("C15.purity")
        key = f"{ix.rel(f.module)}:{q.split(f.module + '.', 1)[-1]}"
        problems = []
        for n in ast.walk(f.node):
            if isinstance(n, ast.Call):
                t = u(n.func)
                if IMPURE_CALLS.match(t) and not (t == "hash" and f.name == "__hash__"):
                    problems.append(f"calls {t}")
            if isinstance(n, ast.Global):
                problems.append(f"global {n.names}")
            if isinstance(n, ast.Attribute) and u(n) in ("os.environ", "sys.argv"):
                problems.append(f"reads {u(n)}")
            if isinstance(n, ast.FormattedValue) and n.conversion == 114:  # !r
                pass
            # mutation of module-level containers
            muts = module_level_mutables.get(f.module, set())
            if isinstance(n, ast.Call) and isinstance(n.func, ast.Attribute) and isinstance(n.func.value, ast.Name):
                if n.func.value.id in muts and n.func.attr in ("append", "add", "update", "setdefault", "pop", "clear", "extend", "insert", "remove"):
                    problems.append(f"mutates module-level {n.func.value.id}")
            if isinstance(n, (ast.Assign, ast.AugAssign)):
                tg = n.targets if isinstance(n, ast.Assign) else [n.target]
                for t in tg:
                    if isinstance(t, ast.Subscript) and isinstance(t.value, ast.Name) and t.value.id in muts:
                        # local shadowing?
                        local = any(isinstance(x, ast.Name) and x.id == t.value.id and isinstance(x.ctx, ast.Store) for x in ast.walk(f.node))
                        if not local:
                            problems.append(f"writes module-level {t.value.id}[...]")
        if problems:
            ctx.fail("C15.purity", key, "; ".join(sorted(set(problems))))
        else:
            ctx.ok("C15.purity", key)
    # counters are created per request
    ctx.rule("C15.counters", "id/sum counters are created inside the request, not at module level", min_instances=2)
    for m, tree in ix.modules.items():
        for s in tree.body:
            if isinstance(s, (ast.Assign, ast.AnnAssign)) and s.value is not None and isinstance(s.value, ast.Call) and u(s.value.func) in ("count", "itertools.count", "iter"):
                ctx.instance("C15.counters")
                ctx.fail("C15.counters", f"{ix.rel(m)}:{u(s)[:60]}", "module-level counter: generated names depend on what was generated before")
    # every counter that numbers tensors / sum nodes is created inside a function of the request (a local bound to
    # count(...)), in the functions that start a request's numbering
    for q in ("tensora.desugar._desugar_expression.desugar_assignment", "tensora.desugar._to_iteration_graphs.to_iteration_graphs"):
        ctx.instance("C15.counters")
        f = ix.funcs.get(q)
        key = f"{q.split('tensora.', 1)[1]}:per-request counter"
        if f is None:
            ctx.fail("C15.counters", key, "function not found")
            continue
        made = [
            n
            for n in ast.walk(f.node)
            if isinstance(n, ast.Call) and u(n.func) in ("count", "itertools.count")
        ]
        if made:
            ctx.ok("C15.counters", key)
        else:
            ctx.fail("C15.counters", key, "no counter is created per request in this function (ids would continue from earlier requests, or repeat)")


def rule_cache_key(ctx, ix):
    import dataclasses
    import enum

    import_tensora(ctx.src)
    ctx.rule("C15.cache-key", "cache key (Problem, backend) distinguishes every pair of different problems", min_instances=8)
    # lru_cache on cachable_tensor_method(problem, backend)
    from .core import cached_factory

    cf = cached_factory(ix)
    f = cf.node
    ctx.instance("C15.cache-key")
    params = [a.arg for a in f.args.args]
    # everything the cached function reads is a parameter (= part of the key): its body builds a
    # TensorMethod from its parameters only
    import builtins

    free = {n.id for n in ast.walk(f) if isinstance(n, ast.Name) and isinstance(n.ctx, ast.Load)} - set(params) - {n.id for n in ast.walk(f) if isinstance(n, ast.Name) and isinstance(n.ctx, ast.Store)}
    free = {n for n in free if not hasattr(builtins, n) and n not in ("TensorMethod", "BackendCompiler", "lru_cache", "cache", "functools", "Problem")}
    builds = [c for c in ast.walk(f) if isinstance(c, ast.Call) and u(c.func) == "TensorMethod"]
    uses_all = all(any(isinstance(n, ast.Name) and n.id == p_ for b_ in builds for n in ast.walk(b_)) for p_ in params)
    if len(params) == 2 and builds and uses_all and not free and not f.args.kwonlyargs and not f.args.vararg and not f.args.kwarg:
        ctx.ok("C15.cache-key", f"compile/_porcelain.py:{cf.name}")
    else:
        ctx.fail("C15.cache-key", f"compile/_porcelain.py:{cf.name}", f"cached function takes {params} and reads {sorted(free)}: something that influences the kernel is not part of the key")
    # all callers pass (problem, backend) positionally
    for q, g in ix.funcs.items():
        for call in ix.calls_in(g):
            if u(call.func) == cf.name:
                ctx.instance("C15.cache-key")
                key = f"{ix.rel(g.module)}:{g.name}:{u(call)}"
                if len(call.args) == 2 and not call.keywords:
                    ctx.ok("C15.cache-key", key)
                else:
                    ctx.fail("C15.cache-key", key, "cache is not keyed by (problem, backend)")
    # Problem.__eq__ / __hash__, evaluated abstractly: equal iff same assignment and the same formats IN THE SAME ORDER
    # (the kernel's parameter order follows the order of the format table); equal problems hash equally
    from . import symeval as S

    eqn = ix.func("tensora.problem.Problem.__eq__").node
    hsn = ix.func("tensora.problem.Problem.__hash__").node
    ctx.instance("C15.cache-key")
    A1 = S.Obj("Assignment", __structural__=True, text="a")
    A1b = S.Obj("Assignment", __structural__=True, text="a")
    A2 = S.Obj("Assignment", __structural__=True, text="b")
    F1, F2 = S.Obj("Format", __structural__=True, text="ds"), S.Obj("Format", __structural__=True, text="sd")

    def P(a, items):
        return S.Obj("Problem", assignment=a, formats=dict(items))

    G = {"Problem": S.Obj("Class", name="Problem"), "hash": lambda x: ("HASH", x)}
    cases = [
        ("identical content", P(A1, [("x", F1), ("y", F2)]), P(A1b, [("x", F1), ("y", F2)]), True),
        ("same formats in another order", P(A1, [("x", F1), ("y", F2)]), P(A1, [("y", F2), ("x", F1)]), False),
        ("different assignment", P(A1, [("x", F1)]), P(A2, [("x", F1)]), False),
        ("different format of one tensor", P(A1, [("x", F1)]), P(A1, [("x", F2)]), False),
        ("one more format", P(A1, [("x", F1)]), P(A1, [("x", F1), ("y", F2)]), False),
    ]
    problems = []
    for label, p1, p2, want in cases:
        outs = list(S.explore(eqn, [p1, p2], globals_=G))
        if len(outs) != 1 or outs[0][1][0] != "return":
            problems.append(f"__eq__ not interpretable ({label}): {outs[0][1] if outs else None}")
            continue
        got = outs[0][1][1]
        if bool(got) != want or got is S.NOT_IMPLEMENTED:
            problems.append(f"{label}: __eq__ gives {got!r}, expected {want}" + (" (plain dict equality ignores order: kernels with different parameter orders would share a cache entry)" if "order" in label else ""))
        if want:
            h = [list(S.explore(hsn, [p_], globals_=G)) for p_ in (p1, p2)]
            if any(len(x) != 1 or x[0][1][0] != "return" for x in h):
                problems.append("__hash__ not interpretable")
            else:
                ev_ = S.Evaluator(hsn, {}, G)
                if not ev_.truth(ev_.equal(h[0][0][1][1], h[1][0][1][1])):
                    problems.append("equal problems hash differently (cache misses; a second kernel for the same problem)")
    outs = list(S.explore(eqn, [P(A1, [("x", F1)]), S.Obj("Other")], globals_=G))
    if not (len(outs) == 1 and outs[0][1][0] == "return" and (outs[0][1][1] is S.NOT_IMPLEMENTED or outs[0][1][1] is False)):
        problems.append("comparison with a non-Problem is not NotImplemented/False")
    if not problems:
        ctx.ok("C15.cache-key", "problem.py:Problem.__eq__/__hash__")
    else:
        ctx.fail("C15.cache-key", "problem.py:Problem.__eq__/__hash__", "; ".join(problems))
    # classes reachable through the key: dataclass eq over all fields, or Enum
    from tensora.compile._tensor_method import BackendCompiler
    from tensora.expression import ast as sugar
    from tensora.format import Format, Mode
    from tensora.problem import Problem

    reach_cls = [sugar.Assignment, sugar.Tensor, sugar.Add, sugar.Subtract, sugar.Multiply, sugar.Integer, sugar.Float, Format, Mode, BackendCompiler]
    for c in reach_cls:
        ctx.instance("C15.cache-key")
        key = f"{c.__module__.split('tensora.', 1)[-1]}:{c.__name__}"
        if issubclass(c, enum.Enum):
            ctx.ok("C15.cache-key", key + " [Enum]")
            continue
        node = ix.classes.get(f"{c.__module__}.{c.__name__}")
        problems = []
        if node is None:
            problems.append("class definition not found")
        else:
            if not dataclasses.is_dataclass(c):
                problems.append("not a dataclass")
            for s in node.body:
                if isinstance(s, ast.FunctionDef) and s.name in ("__eq__", "__hash__"):
                    problems.append(f"hand-written {s.name}")
            for d in node.decorator_list:
                if isinstance(d, ast.Call):
                    for k in d.keywords:
                        if k.arg == "eq" and u(k.value) == "False":
                            problems.append("eq=False")
            if dataclasses.is_dataclass(c):
                for fld in dataclasses.fields(c):
                    if not fld.compare:
                        problems.append(f"field {fld.name} excluded from comparison")
                ann = [s.target.id for s in node.body if isinstance(s, ast.AnnAssign) and isinstance(s.target, ast.Name)]
                if set(ann) != {fld.name for fld in dataclasses.fields(c)}:
                    problems.append("annotated attributes differ from dataclass fields")
        if problems:
            ctx.fail("C15.cache-key", key, "; ".join(problems))
        else:
            ctx.ok("C15.cache-key", key)
    # TensorMethod.__init__ reads nothing but its parameters
    init = ix.func("tensora.compile._tensor_method.TensorMethod.__init__")
    ctx.instance("C15.cache-key")
    params = {a.arg for a in init.node.args.args}
    stores = {n.id for n in ast.walk(init.node) if isinstance(n, ast.Name) and isinstance(n.ctx, ast.Store)}
    for n in ast.walk(init.node):
        if isinstance(n, ast.match_case):
            for p in ast.walk(n.pattern):
                if isinstance(p, ast.MatchAs) and p.name:
                    stores.add(p.name)
        if isinstance(n, (ast.Import, ast.ImportFrom)):
            for a in n.names:
                stores.add(a.asname or a.name)
        if isinstance(n, ast.comprehension):
            for t in ast.walk(n.target):
                if isinstance(t, ast.Name):
                    stores.add(t.id)
    import builtins

    free = set()
    for n in ast.walk(init.node):
        if isinstance(n, ast.Name) and isinstance(n.ctx, ast.Load) and n.id not in params and n.id not in stores and not hasattr(builtins, n.id):
            free.add(n.id)
    # a module-level `logging.getLogger(...)` object only emits records: it carries nothing into the kernel
    loggers = set()
    for st in ix.module(init.module).body:
        if isinstance(st, ast.Assign) and isinstance(st.value, ast.Call) and ast.unparse(st.value.func) in ("logging.getLogger", "getLogger"):
            loggers.update(t.id for t in st.targets if isinstance(t, ast.Name))
    bad = []
    for name in sorted(free):
        if name in loggers:
            continue
        tgt = ix.resolve_name(init.module, name)
        if tgt is None and name not in ix.imports.get(init.module, {}):
            bad.append(name)
        elif tgt is not None and not tgt.startswith("tensora"):
            continue  # imported from an external library: a constant of the environment
        elif tgt is not None and tgt not in ix.funcs and tgt not in ix.classes:
            # module-level object of the package: must be immutable-looking (tensor_cdefs is the shared FFI)
            if name not in ("tensor_cdefs",) and name not in loggers:
                bad.append(name)
    if bad:
        ctx.fail("C15.cache-key", "compile/_tensor_method.py:TensorMethod.__init__:free variables", f"reads {bad}, which are not part of the cache key")
    else:
        ctx.ok("C15.cache-key", "compile/_tensor_method.py:TensorMethod.__init__:free variables")


def rule_cli_names(ctx, ix):
    """The CLI names tensors in `-f NAME:FORMAT`; the library takes them from the assignment.  Every tensor name the
    assignment grammar accepts must be accepted by the named-format grammar, otherwise there are requests the library
    answers and the CLI cannot express.  Decided on the two interpreted grammars over every string of length <= 3 from an
    alphabet with two members of each character class the identifier rules can distinguish."""
    import itertools

    from .grammar import Grammar
    from .parsing import FP_MOD, P_MOD, module_env

    key = "cli.py:tensora:tensor names of the assignment are expressible in -f NAME:FORMAT"
    ctx.instance("C15.cli-dataflow")
    try:
        cons = {k: (lambda *a, _k=k: (_k, *a)) for k in ("Tensor", "Integer", "Float", "Add", "Subtract", "Multiply", "Assignment")}
        cons.update(int=int, float=float)
        g = Grammar(ix, P_MOD, "TensorExpressionParsers", cons, extra_globals={k: v for k, v in module_env(ix, P_MOD, cons).items() if k not in cons and k != "re"})
        fcons = {"Format": lambda modes, ordering: ("Format", tuple(modes), tuple(ordering)), "int": int}
        fg = Grammar(ix, FP_MOD, "FormatParsers", fcons, extra_globals={k: v for k, v in module_env(ix, FP_MOD, fcons).items() if k not in fcons and k != "re"})
        missing = []
        n_names = 0
        for n in (1, 2, 3):
            for chars in itertools.product("azAZ09_", repeat=n):
                name = "".join(chars)
                if g.parse("assignment", f"{name}() = 1")[0] != "ok":
                    continue
                n_names += 1
                if fg.parse("named_format", f"{name}:")[0] != "ok":
                    missing.append(name)
        if n_names < 20:
            raise S_Unint(f"only {n_names} candidate names are accepted by the assignment grammar")
    except Exception as ex:  # noqa: BLE001
        ctx.fail("C15.cli-dataflow", key, f"grammars not interpretable: {type(ex).__name__}: {ex}")
        return
    if missing:
        ctx.fail("C15.cli-dataflow", key, f"the assignment grammar accepts tensor names the named-format grammar rejects, e.g. {missing[:4]}: the CLI cannot give these tensors a format while the library can")
    else:
        ctx.ok("C15.cli-dataflow", key)


class S_Unint(Exception):
    pass


def rule_cli_dataflow(ctx, ix):
    ctx.rule("C15.cli-dataflow", "the CLI prints exactly the text the library returns for the same request", min_instances=4)
    rule_cli_names(ctx, ix)
    f = ix.func("tensora.cli.tensora").node

    def payload_var(callee):
        for n in ast.walk(f):
            if isinstance(n, ast.Match) and isinstance(n.subject, ast.Call) and u(n.subject.func) == callee:
                for c in n.cases:
                    if isinstance(c.pattern, ast.MatchClass) and u(c.pattern.cls) == "Success" and len(c.pattern.patterns) == 1:
                        p = c.pattern.patterns[0]
                        return n, c, p
        return None, None, None

    def single_binding(name, allowed_nodes):
        """name is bound only by the given pattern nodes (no reassignment)"""
        for n in ast.walk(f):
            if isinstance(n, ast.Name) and n.id == name and isinstance(n.ctx, ast.Store):
                return False
            if isinstance(n, (ast.AugAssign,)) and u(n.target) == name:
                return False
        cnt = 0
        for n in ast.walk(f):
            if isinstance(n, ast.MatchAs) and n.name == name:
                cnt += 1
        return cnt == 1

    # generate_code(problem, kernel_types, language) -> code -> echo / write_text
    m, c, p = payload_var("generate_code")
    ctx.instance("C15.cli-dataflow")
    key = "cli.py:tensora:generate_code -> output"
    problems = []
    if m is None or not isinstance(p, ast.MatchAs):
        problems.append("Success payload of generate_code not bound")
    else:
        code = p.name
        if [u(a) for a in m.subject.args] != ["problem", "kernel_types", "language"] or m.subject.keywords:
            problems.append(f"generate_code called with {[u(a) for a in m.subject.args]}")
        if not single_binding(code, [p]):
            problems.append(f"{code} is rebound after generation")
        outs = [n for n in ast.walk(f) if isinstance(n, ast.Call) and u(n.func) in ("typer.echo", "output_path.write_text") and not any(k.arg == "err" for k in n.keywords)]
        texts = {u(n.func): [u(a) for a in n.args] for n in outs}
        if texts != {"typer.echo": [code], "output_path.write_text": [code]}:
            problems.append(f"output statements are {texts}: the text is modified on its way out")
    if problems:
        ctx.fail("C15.cli-dataflow", key, "; ".join(problems))
    else:
        ctx.ok("C15.cli-dataflow", key)
    # problem <- make_problem(parsed_assignment, parsed_formats)
    m, c, p = payload_var("make_problem")
    ctx.instance("C15.cli-dataflow")
    key = "cli.py:tensora:make_problem -> problem"
    if m is not None and isinstance(p, ast.MatchAs) and p.name == "problem" and [u(a) for a in m.subject.args] == ["parsed_assignment", "parsed_formats"] and single_binding("problem", [p]):
        ctx.ok("C15.cli-dataflow", key)
    else:
        ctx.fail("C15.cli-dataflow", key, "problem is not exactly the payload of make_problem(parsed_assignment, parsed_formats)")
    m, c, p = payload_var("parse_assignment")
    ctx.instance("C15.cli-dataflow")
    key = "cli.py:tensora:parse_assignment -> parsed_assignment"
    if m is not None and isinstance(p, ast.MatchAs) and p.name == "parsed_assignment" and [u(a) for a in m.subject.args] == ["assignment"] and single_binding("parsed_assignment", [p]):
        ctx.ok("C15.cli-dataflow", key)
    else:
        ctx.fail("C15.cli-dataflow", key, "parsed_assignment is not exactly the payload of parse_assignment(assignment)")
    ctx.instance("C15.cli-dataflow")
    key = "cli.py:tensora:formats"
    s = u(f)
    if (
        "for target_format_string in target_format_strings:" in s
        and "match parse_named_format(target_format_string):" in s
        and "case Success([target, format]):" in s
        and "parsed_formats[target] = format" in s
        and "if target in parsed_formats:" in s
    ):
        ctx.ok("C15.cli-dataflow", key)
    else:
        ctx.fail("C15.cli-dataflow", key, "formats are not collected one per --format option from parse_named_format")
    # defaults: kernel type compute, language c are CLI defaults only (library takes them explicitly)


def run(ctx):
    ix = SourceIndex(ctx.src)
    esc = Escape(ix)
    for e in GEN_ENTRIES:
        ix.func(e)
    reach = esc.reachable(GEN_ENTRIES)
    ctx.extra["reachable_functions"] = len(reach)
    if len(reach) < 150:
        raise AnalysisError(f"only {len(reach)} functions reachable from the generation entry points")
    rule_hash_order(ctx, ix, reach)
    rule_stable_sets(ctx, ix)
    rule_purity(ctx, ix, reach)
    rule_cache_key(ctx, ix)
    rule_cli_dataflow(ctx, ix)
    return ix
