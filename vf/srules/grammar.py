"""Interpretation of a parsita `ParserContext` class from its source (no parsita, no import of the repo).

The class body is read as a combinator tree (reg, lit, string constants, `&`, `|`, `>>`, `<<`, rep, rep1,
repsep, rep1sep, opt, `> converter`) and run on a string with parsita's documented semantics:
whitespace (the class keyword) is skipped before every terminal and at the end; `a | b` is the LONGEST
alternative; repetition is greedy; `a & b & c` yields a flat list; `.parse` must consume everything.
Converters (semantic actions) are evaluated by vf.srules.symeval with model constructors, so the value
of a parse is a model tree.  Anything outside this fragment raises Uninterpretable: the caller reports
it rather than guessing.

This decides what the grammar in the source MEANS, independent of how its nonterminals are named or
factored; the C12 rules compare that meaning with the reference reading of the property (precedence,
left association, literal kinds) on a corpus that contains every printer output of the round-trip rule.
"""

from __future__ import annotations

import ast
import functools
import re

from . import symeval as S
from .symeval import Uninterpretable


class NoParse(Exception):
    def __init__(self, pos):
        self.pos = pos


class Grammar:
    def __init__(self, ix, module: str, cls_name: str, constructors: dict, extra_globals: dict | None = None):
        self.ix = ix
        self.module = module
        cls = ix.cls(f"{module}.{cls_name}")
        self.rules = {
            s.targets[0].id: s.value for s in cls.body if isinstance(s, ast.Assign) and len(s.targets) == 1 and isinstance(s.targets[0], ast.Name)
        }
        self.ws = None
        for k in cls.keywords:
            if k.arg == "whitespace" and isinstance(k.value, ast.Constant) and isinstance(k.value.value, str):
                self.ws = re.compile(k.value.value)
            elif k.arg == "whitespace" and not (isinstance(k.value, ast.Constant) and k.value.value is None):
                raise Uninterpretable(f"whitespace option {ast.unparse(k.value)}")
        self.constructors = constructors
        self.globals = {"reduce": functools.reduce, **constructors, **(extra_globals or {})}
        # module-level functions are available to converters
        for q, f in ix.funcs.items():
            if f.module == module and "." not in q[len(module) + 1 :]:
                self.globals.setdefault(f.name, f.node)
        self.depth = 0

    # ---- terminals ------------------------------------------------------------------------------
    def skip(self, text, pos):
        if self.ws is not None:
            m = self.ws.match(text, pos)
            if m:
                return m.end()
        return pos

    def literal(self, lits, text, pos):
        pos = self.skip(text, pos)
        best = None
        for l in lits:
            if text.startswith(l, pos) and (best is None or len(l) > len(best)):
                best = l
        if best is None:
            raise NoParse(pos)
        return best, pos + len(best)

    # ---- combinators ----------------------------------------------------------------------------
    def run(self, e, text, pos):
        self.depth += 1
        try:
            if self.depth > 200:
                raise Uninterpretable("grammar recursion too deep (left recursion?)")
            return self._run(e, text, pos)
        finally:
            self.depth -= 1

    def _run(self, e, text, pos):
        if isinstance(e, ast.Constant) and isinstance(e.value, str):
            return self.literal([e.value], text, pos)
        if isinstance(e, ast.Name):
            if e.id in self.rules:
                return self.run(self.rules[e.id], text, pos)
            raise Uninterpretable(f"parser name {e.id}")
        if isinstance(e, ast.Compare) and all(isinstance(o, ast.Gt) for o in e.ops):
            v, pos = self.run(e.left, text, pos)
            for conv in e.comparators:
                v = self.apply(conv, v)
            return v, pos
        if isinstance(e, ast.BinOp):
            if isinstance(e.op, ast.BitOr):
                alts = []
                work = [e]
                while work:
                    x = work.pop()
                    if isinstance(x, ast.BinOp) and isinstance(x.op, ast.BitOr):
                        work += [x.right, x.left]
                    else:
                        alts.append(x)
                best = None
                far = pos
                for a in alts:
                    try:
                        r = self.run(a, text, pos)
                    except NoParse as n:
                        far = max(far, n.pos)
                        continue
                    if best is None or r[1] > best[1]:
                        best = r
                if best is None:
                    raise NoParse(far)
                return best
            if isinstance(e.op, ast.BitAnd):
                parts = []
                work = [e]
                seq = []
                while work:
                    x = work.pop()
                    if isinstance(x, ast.BinOp) and isinstance(x.op, ast.BitAnd):
                        work += [x.right, x.left]
                    else:
                        seq.append(x)
                for x in seq:
                    v, pos = self.run(x, text, pos)
                    parts.append(v)
                return parts, pos
            if isinstance(e.op, ast.RShift):
                _, pos = self.run(e.left, text, pos)
                return self.run(e.right, text, pos)
            if isinstance(e.op, ast.LShift):
                v, pos = self.run(e.left, text, pos)
                _, pos = self.run(e.right, text, pos)
                return v, pos
        if isinstance(e, ast.Call) and isinstance(e.func, ast.Name) and not e.keywords:
            f = e.func.id
            if f == "reg" and len(e.args) == 1 and isinstance(e.args[0], ast.Constant):
                p0 = self.skip(text, pos)
                m = re.compile(e.args[0].value).match(text, p0)
                if not m:
                    raise NoParse(p0)
                return m.group(0), m.end()
            if f == "lit" and e.args and all(isinstance(a, ast.Constant) and isinstance(a.value, str) for a in e.args):
                return self.literal([a.value for a in e.args], text, pos)
            if f in ("rep", "rep1") and len(e.args) == 1:
                out = []
                while True:
                    try:
                        v, p2 = self.run(e.args[0], text, pos)
                    except NoParse as n:
                        if f == "rep1" and not out:
                            raise NoParse(n.pos) from None
                        break
                    if p2 == pos:
                        raise Uninterpretable("repetition of a parser that consumes nothing")
                    out.append(v)
                    pos = p2
                return out, pos
            if f in ("repsep", "rep1sep") and len(e.args) == 2:
                out = []
                try:
                    v, pos = self.run(e.args[0], text, pos)
                    out.append(v)
                except NoParse as n:
                    if f == "rep1sep":
                        raise NoParse(n.pos) from None
                    return out, pos
                while True:
                    try:
                        _, p2 = self.run(e.args[1], text, pos)
                        v, p3 = self.run(e.args[0], text, p2)
                    except NoParse:
                        break
                    out.append(v)
                    pos = p3
                return out, pos
            if f == "opt" and len(e.args) == 1:
                try:
                    v, pos = self.run(e.args[0], text, pos)
                    return [v], pos
                except NoParse:
                    return [], pos
        raise Uninterpretable(f"parser expression {ast.unparse(e)[:60]}")

    # ---- semantic actions -------------------------------------------------------------------------
    def apply(self, conv, value):
        if isinstance(conv, ast.Call) and isinstance(conv.func, ast.Name) and conv.func.id == "splat" and len(conv.args) == 1:
            if not isinstance(value, (list, tuple)):
                raise Uninterpretable("splat of a non-sequence")
            return self.call(conv.args[0], list(value))
        if isinstance(conv, ast.Call) and isinstance(conv.func, ast.Name) and conv.func.id == "constant" and len(conv.args) == 1:
            return ("const", ast.unparse(conv.args[0]))
        return self.call(conv, [value])

    def call(self, fn, args):
        if isinstance(fn, ast.Name):
            n = fn.id
            if n in ("tuple", "list"):
                return (tuple if n == "tuple" else list)(args[0])
            if n in ("int", "float", "str"):
                try:
                    return {"int": int, "float": float, "str": str}[n](args[0])
                except (ValueError, TypeError) as ex:
                    raise S.Raised(type(ex).__name__) from None
            g = self.globals.get(n)
            if isinstance(g, ast.FunctionDef):
                return self.eval_function(g, args)
            if callable(g):
                return g(*args)
            raise Uninterpretable(f"converter {n}")
        if isinstance(fn, ast.Lambda):
            node = ast.FunctionDef(
                name="<lambda>", args=fn.args, body=[ast.Return(value=fn.body)], decorator_list=[], returns=None, type_comment=None, type_params=[]
            )
            ast.fix_missing_locations(node)
            return self.eval_function(node, args)
        if isinstance(fn, ast.Attribute) and isinstance(fn.value, ast.Name):
            # Class.staticmethod / Class.classmethod of a class this module imports or defines
            for q, f in self.ix.funcs.items():
                if q.endswith(f".{fn.value.id}.{fn.attr}"):
                    node = f.node
                    if any(ast.unparse(d) == "classmethod" for d in node.decorator_list):
                        return self.eval_function(node, [S.Obj("Class", name=fn.value.id), *args])
                    return self.eval_function(node, args)
        raise Uninterpretable(f"converter {ast.unparse(fn)[:60]}")

    def eval_function(self, node, args):
        outs = list(S.explore(node, args, globals_=self.globals))
        if len(outs) != 1:
            raise Uninterpretable(f"converter {node.name} forks on symbolic values")
        kind, val = outs[0][1]
        if kind == "return":
            return val
        if kind == "raise":
            raise S.Raised(val)
        raise Uninterpretable(f"converter {node.name}: {val}")

    # ---- entry ----------------------------------------------------------------------------------
    def parse(self, start: str, text: str):
        """('ok', value) | ('fail', position) | ('raise', exception name)."""
        self.depth = 0
        try:
            v, pos = self.run(ast.Name(id=start), text, 0)
            pos = self.skip(text, pos)
            if pos != len(text):
                return ("fail", pos)
            return ("ok", v)
        except NoParse as n:
            return ("fail", n.pos)
        except S.Raised as r:
            return ("raise", r.exc)
