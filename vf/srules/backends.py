"""C06 (and parts of C08): the C printer and the LLVM printer are the same function of the IR.

Sibling agreement in Engler's sense: per IR class the C token / LLVM opcode, operand order,
predicate, conversions; C precedence vs the parenthesisation the printer applies; struct layout;
allocation-size width; identifiers the C printer can emit; dispatch exhaustiveness; call arity;
hoisting totality.
"""

from __future__ import annotations

import ast
import dataclasses
import inspect
import re
import sys

from ..common import AnalysisError
from .core import SourceIndex, import_tensora

C_MOD = "tensora.codegen._ir_to_c"
L_MOD = "tensora.codegen._ir_to_llvm"


def concrete_subclasses(base):
    out = []
    work = [base]
    while work:
        c = work.pop()
        for s in c.__subclasses__():
            work.append(s)
            if dataclasses.is_dataclass(s) and getattr(sys.modules.get(s.__module__), s.__name__, None) is s:
                out.append(s)
    return sorted(set(out), key=lambda c: c.__name__)


def registered_impl(ix: SourceIndex, module: str, dispatcher: str):
    """{class name: FunctionDef} from `@dispatcher.register(Cls)` / annotation-based register."""
    out = {}
    tree = ix.module(module)
    for fn in tree.body:
        if not isinstance(fn, ast.FunctionDef):
            continue
        for d in fn.decorator_list:
            if isinstance(d, ast.Call) and isinstance(d.func, ast.Attribute) and d.func.attr == "register":
                if isinstance(d.func.value, ast.Name) and d.func.value.id == dispatcher and d.args:
                    out[ast.unparse(d.args[0]).split(".")[-1]] = fn
            elif isinstance(d, ast.Attribute) and d.attr == "register" and isinstance(d.value, ast.Name) and d.value.id == dispatcher:
                if fn.args.args and fn.args.args[0].annotation is not None:
                    out[ast.unparse(fn.args.args[0].annotation).split(".")[-1]] = fn
    return out


# ------------------------------------------------------------------------------------------------
# 1. dispatch exhaustiveness
# ------------------------------------------------------------------------------------------------
def rule_dispatch(ctx, ix):
    import_tensora(ctx.src)
    import tensora.codegen._hoist_declarations as H
    import tensora.codegen._ir_to_c as C
    import tensora.codegen._ir_to_llvm as L
    import tensora.codegen._type_to_c as TC
    import tensora.codegen._type_to_llvm as TL
    import tensora.ir.ast as IR
    import tensora.ir.types as T

    table = [
        ("codegen/_ir_to_c.py", "ir_to_c_expression", C.ir_to_c_expression, IR.Expression),
        ("codegen/_ir_to_c.py", "ir_to_c_statement", C.ir_to_c_statement, IR.Statement),
        ("codegen/_ir_to_llvm.py", "ir_to_llvm_expression", L.ir_to_llvm_expression, IR.Expression),
        ("codegen/_ir_to_llvm.py", "ir_to_llvm_statement", L.ir_to_llvm_statement, IR.Statement),
        ("codegen/_ir_to_llvm.py", "get_element_pointer", L.get_element_pointer, IR.Assignable),
        ("codegen/_type_to_c.py", "type_to_c", TC.type_to_c, T.Type),
        ("codegen/_type_to_llvm.py", "type_to_llvm", TL.type_to_llvm, T.Type),
        ("codegen/_hoist_declarations.py", "hoist_declarations_statement", H.hoist_declarations_statement, IR.Statement),
    ]
    ctx.rule("C06.dispatch", "every concrete IR class/type resolves to a registered printer implementation in both back ends", min_instances=150)
    for path, name, disp, base in table:
        default = disp.registry[object]
        for c in concrete_subclasses(base):
            ctx.instance("C06.dispatch")
            key = f"{path}:{name}:{c.__name__}"
            if disp.dispatch(c) is default:
                ctx.fail("C06.dispatch", key, f"{c.__name__} falls through to the raising default of {name}: the two back ends do not accept the same IR")
            else:
                ctx.ok("C06.dispatch", key)


# ------------------------------------------------------------------------------------------------
# 2. resolved call arity
# ------------------------------------------------------------------------------------------------
def rule_call_arity(ctx, ix):
    """Every call whose callee resolves to exactly one module-level function (or to a singledispatch
    function: all registered implementations) must bind to the callee's signature."""
    import importlib

    import_tensora(ctx.src)
    ctx.rule("C06.call-arity", "resolved calls bind to their callee's signature (all singledispatch implementations)", min_instances=300)

    def runtime(qual):
        qual = qual.split("#")[0]
        parts = qual.split(".")
        for i in range(len(parts), 0, -1):
            mod = ".".join(parts[:i])
            if mod in ix.modules:
                try:
                    obj = importlib.import_module(mod)
                except Exception:  # noqa: BLE001
                    return None
                for p in parts[i:]:
                    if p == "<locals>":
                        return None
                    obj = getattr(obj, p, None)
                    if obj is None:
                        return None
                return obj
        return None

    for f in ix.funcs.values():
        for call in ix.calls_in(f):
            fn = call.func
            if any(isinstance(a, ast.Starred) for a in call.args) or any(k.arg is None for k in call.keywords):
                continue
            if isinstance(fn, ast.Name):
                tgt = ix.resolve_name(f.module, fn.id)
                # local shadowing: parameter or local variable of the same name
                if tgt is None or tgt not in ix.funcs:
                    continue
                local_names = {a.arg for a in f.node.args.args + f.node.args.kwonlyargs}
                for n in ast.walk(f.node):
                    if isinstance(n, ast.Name) and isinstance(n.ctx, ast.Store):
                        local_names.add(n.id)
                if fn.id in local_names:
                    continue
            elif isinstance(fn, ast.Attribute) and isinstance(fn.value, ast.Name) and fn.value.id in ix.imports.get(f.module, {}):
                base = ix.imports[f.module][fn.value.id]
                tgt = ix.canonical(f"{base}.{fn.attr}")
                if tgt not in ix.funcs:
                    continue
            else:
                continue
            obj = runtime(tgt)
            if obj is None or not callable(obj):
                continue
            impls = [obj]
            if hasattr(obj, "registry") and hasattr(obj, "dispatch"):
                impls = list({id(v): v for v in obj.registry.values()}.values())
            ctx.instance("C06.call-arity")
            key = f"{ix.rel(f.module)}:{f.qual.split(f.module + '.', 1)[-1]}:{' '.join(ast.unparse(call).split())[:120]}"
            bad = None
            for impl in impls:
                try:
                    sig = inspect.signature(impl)
                    sig.bind(*[None] * len(call.args), **{k.arg: None for k in call.keywords})
                except TypeError as e:
                    bad = f"{getattr(impl, '__name__', impl)}: {e}"
                    break
                except ValueError:
                    continue
            if bad:
                ctx.fail("C06.call-arity", key, f"call does not bind to its callee: {bad}")
            else:
                ctx.ok("C06.call-arity", key)


# ------------------------------------------------------------------------------------------------
# 3. operator tables
# ------------------------------------------------------------------------------------------------
C_TOKENS = {
    "Add": ("bin", "+"),
    "Subtract": ("bin", "-"),
    "Multiply": ("bin", "*"),
    "Equal": ("bin", "=="),
    "NotEqual": ("bin", "!="),
    "GreaterThan": ("bin", ">"),
    "LessThan": ("bin", "<"),
    "GreaterThanOrEqual": ("bin", ">="),
    "LessThanOrEqual": ("bin", "<="),
    "And": ("bin", "&&"),
    "Or": ("bin", "||"),
    "Max": ("call", "TACO_MAX"),
    "Min": ("call", "TACO_MIN"),
}
LLVM_ARITH = {
    "Add": {"int": "add", "float": "fadd"},
    "Subtract": {"int": "sub", "float": "fsub"},
    "Multiply": {"int": "mul", "float": "fmul"},
}
LLVM_CMP = {
    "Equal": "==",
    "NotEqual": "!=",
    "GreaterThan": ">",
    "LessThan": "<",
    "GreaterThanOrEqual": ">=",
    "LessThanOrEqual": "<=",
}


def fstring_shape(fn: ast.FunctionDef):
    """For a printer function whose single return is an f-string: list of ('lit', text) /
    ('field', name, wrap-set or None)."""
    rets = [n for n in ast.walk(fn) if isinstance(n, ast.Return)]
    if len(rets) != 1 or not isinstance(rets[0].value, ast.JoinedStr):
        return None
    out = []
    for v in rets[0].value.values:
        if isinstance(v, ast.Constant):
            out.append(("lit", v.value))
        elif isinstance(v, ast.FormattedValue):
            e = v.value
            fld, wrap = operand_field(e)
            out.append(("field", fld, wrap, ast.unparse(e)))
    return out


C_TUPLES: dict = {}  # module-level tuples of IR classes of the C printer module: name -> [class names]


def collect_c_tuples(ix):
    C_TUPLES.clear()
    for st in ix.module(C_MOD).body:
        if isinstance(st, (ast.Assign, ast.AnnAssign)) and st.value is not None and isinstance(st.value, (ast.Tuple, ast.List)):
            tgt = st.targets[0] if isinstance(st, ast.Assign) else st.target
            if isinstance(tgt, ast.Name):
                C_TUPLES[tgt.id] = [ast.unparse(x) for x in st.value.elts]


def wrap_names(w):
    """Class names of a wrap-set argument: a tuple display, a single class, or a module-level tuple."""
    if isinstance(w, ast.Tuple):
        out = []
        for x in w.elts:
            out.extend(wrap_names(x))
        return out
    if isinstance(w, ast.Starred):
        return wrap_names(w.value)
    if isinstance(w, ast.Name) and w.id in C_TUPLES:
        return list(C_TUPLES[w.id])
    if isinstance(w, ast.BinOp) and isinstance(w.op, ast.Add):
        return wrap_names(w.left) + wrap_names(w.right)
    return [ast.unparse(w)]


def operand_field(e):
    """ir_to_c_expression(self.f) -> (f, None); parens(self.f, X) -> (f, {class names})."""
    if isinstance(e, ast.Call) and isinstance(e.func, ast.Name) and e.args:
        a = e.args[0]
        if isinstance(a, ast.Attribute) and isinstance(a.value, ast.Name) and a.value.id == "self":
            if e.func.id == "ir_to_c_expression" and len(e.args) == 1:
                return a.attr, frozenset()
            if e.func.id == "parens" and len(e.args) == 2:
                return a.attr, frozenset(wrap_names(e.args[1]))
            if e.func.id == "type_to_c":
                return "type:" + a.attr, frozenset()
    if isinstance(e, ast.Name):
        return "local:" + e.id, frozenset()
    return None, None


def eval_for_class(e, cls, local):
    """Evaluate a small expression for an IR node of class `cls`: constants, local aliases, and
    conditional expressions testing the class of self. Returns the value or raises ValueError."""
    if isinstance(e, ast.Constant):
        return e.value
    if isinstance(e, ast.Name) and e.id in local:
        return eval_for_class(local[e.id], cls, local)
    if isinstance(e, ast.IfExp):
        return eval_for_class(e.body if class_test(e.test, cls) else e.orelse, cls, local)
    raise ValueError(ast.unparse(e))


def class_test(t, cls):
    txt = ast.unparse(t)
    m = re.fullmatch(r"isinstance\(self, (\w+)\)", txt)
    if m:
        return cls == m.group(1)
    m = re.fullmatch(r"(type\(self\)|self\.__class__) (is|==) (\w+)", txt)
    if m:
        return cls == m.group(3)
    m = re.fullmatch(r"self (is|==) (\w+)", txt)
    if m:
        return False  # an instance is never its class
    m = re.fullmatch(r"not (.+)", txt)
    if m:
        return not class_test(ast.parse(m.group(1), mode="eval").body, cls)
    raise ValueError(txt)


def matches_with_helpers(ix, module, fn):
    """`match` statements of fn, and of module-level helpers it calls with the helper's parameters replaced by the
    call's arguments (a shared lowering such as helper("add", builder.add, builder.fadd, left, right, builder))."""
    import copy

    tree = ix.module(module)
    helpers = {f.name: f for f in tree.body if isinstance(f, ast.FunctionDef) and not f.decorator_list}
    out = [n for n in ast.walk(fn) if isinstance(n, ast.Match)]
    for call in [n for n in ast.walk(fn) if isinstance(n, ast.Call) and isinstance(n.func, ast.Name) and n.func.id in helpers]:
        h = helpers[call.func.id]
        params = [a.arg for a in h.args.posonlyargs + h.args.args]
        binding = dict(zip(params, call.args))
        binding.update({k.arg: k.value for k in call.keywords if k.arg})

        class Subst(ast.NodeTransformer):
            def visit_Name(self, n):
                if isinstance(n.ctx, ast.Load) and n.id in binding and not isinstance(binding[n.id], ast.Name):
                    return copy.deepcopy(binding[n.id])
                return n

        body = Subst().visit(copy.deepcopy(ast.Module(body=h.body, type_ignores=[])))
        out.extend(n for n in ast.walk(body) if isinstance(n, ast.Match))
    return out


def rule_operator_tables(ctx, ix):
    ctx.rule("C06.operator-table", "C token / LLVM opcode, operand order, predicates and conversions agree per IR class", min_instances=30)
    cimpl = registered_impl(ix, C_MOD, "ir_to_c_expression")
    limpl = registered_impl(ix, L_MOD, "ir_to_llvm_expression")
    # --- C side: the printer is evaluated abstractly on Cls(a, b) and the printed text is read back
    from . import symeval as S

    try:
        _G, dispatch = c_printer_env(ix)
    except S.Uninterpretable as ex:
        raise AnalysisError(f"C printer environment not interpretable: {ex}") from ex

    def var(n):
        return S.Obj("Variable", name=n, __bases__=("Assignable", "Expression"))

    for cls, (kind, tok) in C_TOKENS.items():
        ctx.instance("C06.operator-table")
        key = f"codegen/_ir_to_c.py:ir_to_c_expression:{cls}"
        if cls not in cimpl:
            ctx.fail("C06.operator-table", key, "no C printer registered for the class")
            continue
        try:
            text = dispatch(S.Obj(cls, left=var("a"), right=var("b"), __bases__=("Expression",)))
            if not isinstance(text, str):
                raise ValueError(f"printer returned {text!r}")
            if kind == "bin":
                got = c_parse(text)
                good = got == (tok, "a", "b")
            else:
                got = re.sub(r"\s+", "", text)
                good = got == f"{tok}(a,b)"
        except (S.Uninterpretable, S.Raised, S.Fork, ValueError) as ex:
            ctx.fail("C06.operator-table", key, f"C printer not interpretable on {cls}(a, b): {ex}")
            continue
        if good:
            ctx.ok("C06.operator-table", key)
        elif kind == "bin":
            ctx.fail("C06.operator-table", key, f"{cls}(a, b) prints `{text}`; its C meaning needs `left {tok} right`")
        else:
            ctx.fail("C06.operator-table", key, f"{cls}(a, b) prints `{text}`; expected {tok}(left, right)")
    # BooleanToInteger
    ctx.instance("C06.operator-table")
    key = f"codegen/_ir_to_c.py:ir_to_c_expression:BooleanToInteger"
    try:
        text = dispatch(S.Obj("BooleanToInteger", expression=var("a"), __bases__=("Expression",)))
        good = isinstance(text, str) and re.sub(r"\s+", "", text) in ("(int32_t)(a)", "(int32_t)a", "((int32_t)(a))", "((int32_t)a)")
        if good:
            ctx.ok("C06.operator-table", key)
        else:
            ctx.fail("C06.operator-table", key, f"boolean cast printed as `{text}`")
    except (S.Uninterpretable, S.Raised, S.Fork, ValueError) as ex:
        ctx.fail("C06.operator-table", key, f"C printer not interpretable on BooleanToInteger(a): {ex}")
    # macros: tie goes to the right operand: ((_a) < (_b) ? (_a) : (_b))
    hdr = module_string(ix, "tensora.compile._compile_cffi", "taco_define_header")
    for name, op in (("TACO_MIN", "<"), ("TACO_MAX", ">")):
        ctx.instance("C06.operator-table")
        key = f"compile/_compile_cffi.py:taco_define_header:{name}"
        m = re.search(rf"#define\s+{name}\(_a,\s*_b\)\s*\(\(_a\)\s*([<>]=?)\s*\(_b\)\s*\?\s*\(_a\)\s*:\s*\(_b\)\)", hdr)
        if m and m.group(1) == op:
            ctx.ok("C06.operator-table", key)
        else:
            ctx.fail("C06.operator-table", key, f"macro {name} is not ((_a) {op} (_b) ? (_a) : (_b))")
    # --- LLVM side
    for cls, pred in LLVM_CMP.items():
        ctx.instance("C06.operator-table")
        key = f"codegen/_ir_to_llvm.py:ir_to_llvm_expression:{cls}"
        fn = limpl.get(cls)
        calls = [n for n in ast.walk(fn) if isinstance(n, ast.Call) and isinstance(n.func, ast.Attribute) and n.func.attr.startswith("icmp")] if fn else []
        if len(calls) != 1:
            ctx.fail("C06.operator-table", key, "no single icmp call")
            continue
        c = calls[0]
        args = c.args
        ok = (
            c.func.attr == "icmp_signed"
            and len(args) == 3
            and isinstance(args[0], ast.Constant)
            and args[0].value == pred
            and "self.left" in ast.unparse(args[1])
            and "self.right" in ast.unparse(args[2])
            and "self.right" not in ast.unparse(args[1])
        )
        if ok:
            ctx.ok("C06.operator-table", key)
        else:
            ctx.fail("C06.operator-table", key, f"{cls} emits {ast.unparse(c)[:100]}; C prints `left {C_TOKENS[cls][1]} right` on signed ints")
    for cls, ops in LLVM_ARITH.items():
        fn = limpl.get(cls)
        key0 = f"codegen/_ir_to_llvm.py:ir_to_llvm_expression:{cls}"
        if fn is None:
            ctx.fail("C06.operator-table", key0, "no implementation")
            continue
        n_cases = 0
        for node in matches_with_helpers(ix, L_MOD, fn):
            for case in node.cases:
                p = case.pattern
                if not (isinstance(p, ast.MatchSequence) and len(p.patterns) == 2 and all(isinstance(q, ast.MatchClass) for q in p.patterns)):
                    continue
                n_cases += 1
                kinds = tuple({"IntType": "int", "DoubleType": "float", "PointerType": "ptr"}.get(q.cls.attr, "?") for q in p.patterns)
                ctx.instance("C06.operator-table")
                key = f"{key0}:{kinds}"
                conv = {}
                ret = None
                for st in case.body:
                    if isinstance(st, ast.Assign) and isinstance(st.value, ast.Call) and isinstance(st.value.func, ast.Attribute):
                        if isinstance(st.targets[0], ast.Name) and st.value.args and isinstance(st.value.args[0], ast.Name):
                            conv[st.targets[0].id] = (st.value.func.attr, st.value.args[0].id)
                    if isinstance(st, ast.Return):
                        ret = st.value
                if not (isinstance(ret, ast.Call) and isinstance(ret.func, ast.Attribute)):
                    ctx.fail("C06.operator-table", key, "case does not return a builder call")
                    continue
                op = ret.func.attr
                argn = [ast.unparse(a) for a in ret.args]
                if kinds == ("ptr", "int"):
                    good = cls == "Add" and op == "gep" and argn[0] == "left"
                else:
                    want = ops["float" if "float" in kinds else "int"]
                    good = op == want and argn == ["left", "right"]
                    for side, kd in zip(("left", "right"), kinds):
                        if "float" in kinds and kd == "int":
                            good = good and conv.get(side) == ("sitofp", side)
                        else:
                            good = good and side not in conv
                if good:
                    ctx.ok("C06.operator-table", key)
                else:
                    ctx.fail("C06.operator-table", key, f"{cls} on {kinds} emits {ast.unparse(ret)} with conversions {conv}; C computes left {C_TOKENS[cls][1]} right with the int side converted to double")
        if n_cases == 0:
            ctx.instance("C06.operator-table")
            ctx.fail("C06.operator-table", key0, f"lowering of {cls} not interpretable: no operand-type cases found in the function or the helpers it calls")
    # And / Or short circuit
    for cls, const, order in (("And", 0, ("right_block", "end_block")), ("Or", 1, ("end_block", "right_block"))):
        ctx.instance("C06.operator-table")
        key = f"codegen/_ir_to_llvm.py:ir_to_llvm_expression:{cls}"
        fn = limpl.get(cls)
        src = ast.unparse(fn) if fn else ""
        cb = [n for n in ast.walk(fn) if isinstance(n, ast.Call) and isinstance(n.func, ast.Attribute) and n.func.attr == "cbranch"] if fn else []
        inc = [n for n in ast.walk(fn) if isinstance(n, ast.Call) and isinstance(n.func, ast.Attribute) and n.func.attr == "add_incoming"] if fn else []
        good = len(cb) == 1 and [ast.unparse(a) for a in cb[0].args] == ["left", order[0], order[1]]
        consts = [ast.unparse(i.args[0]) for i in inc if "Constant" in ast.unparse(i.args[0])]
        good = good and len(inc) == 2 and consts == [f"llvm.Constant(llvm_boolean_type, {const})"]
        good = good and any(ast.unparse(i.args[0]) == "right" and ast.unparse(i.args[1]) == "right_end_block" for i in inc)
        good = good and any("Constant" in ast.unparse(i.args[0]) and ast.unparse(i.args[1]) == "left_end_block" for i in inc)
        if good:
            ctx.ok("C06.operator-table", key)
        else:
            ctx.fail("C06.operator-table", key, f"short-circuit {cls}: cbranch targets / phi constant do not implement C's `{C_TOKENS[cls][1]}`")
    # Max / Min
    for cls, pred in (("Max", ">"), ("Min", "<")):
        ctx.instance("C06.operator-table")
        key = f"codegen/_ir_to_llvm.py:ir_to_llvm_expression:{cls}"
        fn = limpl.get(cls)
        local = {}
        for st in (fn.body if fn else []):
            if isinstance(st, ast.Assign) and isinstance(st.targets[0], ast.Name):
                local[st.targets[0].id] = st.value
        ic = [n for n in ast.walk(fn) if isinstance(n, ast.Call) and isinstance(n.func, ast.Attribute) and n.func.attr.startswith("icmp")] if fn else []
        sel = [n for n in ast.walk(fn) if isinstance(n, ast.Call) and isinstance(n.func, ast.Attribute) and n.func.attr == "select"] if fn else []
        why = None
        if len(ic) != 1 or len(sel) != 1 or ic[0].func.attr != "icmp_signed" or len(ic[0].args) != 3:
            why = "not a single signed icmp + select"
        else:
            try:
                got = eval_for_class(ic[0].args[0], cls, local)
            except ValueError as ex:
                got = f"? {ex}"
            if got != pred:
                why = f"comparison predicate for {cls} is `{got}`"
            elif [ast.unparse(a) for a in ic[0].args[1:]] != ["left", "right"]:
                why = "icmp operands are not (left, right)"
            else:
                cond_name = next((k for k, v in local.items() if v is ic[0]), None)
                if [ast.unparse(a) for a in sel[0].args] != [cond_name or "?", "left", "right"]:
                    why = f"select operands are {[ast.unparse(a) for a in sel[0].args]}"
        if why is None:
            ctx.ok("C06.operator-table", key)
        else:
            ctx.fail("C06.operator-table", key, f"{cls}: {why}; C prints TACO_{cls.upper()} = ((a) {pred} (b) ? (a) : (b))")
    # BooleanToInteger: zext
    ctx.instance("C06.operator-table")
    key = "codegen/_ir_to_llvm.py:ir_to_llvm_expression:BooleanToInteger"
    fn = limpl.get("BooleanToInteger")
    casts = [n.func.attr for n in ast.walk(fn) if isinstance(n, ast.Call) and isinstance(n.func, ast.Attribute) and n.func.attr in ("zext", "sext", "trunc", "bitcast")] if fn else []
    if casts == ["zext"]:
        ctx.ok("C06.operator-table", key)
    else:
        ctx.fail("C06.operator-table", key, f"bool -> int cast uses {casts}; C's (int32_t)(bool) is 0/1, i.e. zero extension")
    # assignments: int -> double stores convert with sitofp
    simpl = registered_impl(ix, L_MOD, "ir_to_llvm_statement")
    for cls in ("Assignment", "DeclarationAssignment"):
        ctx.instance("C06.operator-table")
        key = f"codegen/_ir_to_llvm.py:ir_to_llvm_statement:{cls}"
        fn = simpl.get(cls)
        good = False
        if fn is not None:
            for node in ast.walk(fn):
                if isinstance(node, ast.Match):
                    for case in node.cases:
                        p = case.pattern
                        if isinstance(p, ast.MatchSequence) and [getattr(q.cls, "attr", None) for q in p.patterns if isinstance(q, ast.MatchClass)] == ["IntType", "DoubleType"]:
                            good = "value = builder.sitofp(value, llvm_float_type)" in ast.unparse(case)
            st = [n for n in ast.walk(fn) if isinstance(n, ast.Call) and isinstance(n.func, ast.Attribute) and n.func.attr == "store"]
            good = good and len(st) == 1 and [ast.unparse(a) for a in st[0].args] == ["value", "target"]
        if good:
            ctx.ok("C06.operator-table", key)
        else:
            ctx.fail("C06.operator-table", key, "integer value stored into a double without signed conversion (C converts implicitly)")


def module_string(ix, module, name):
    for node in ix.module(module).body:
        if isinstance(node, ast.Assign) and any(isinstance(t, ast.Name) and t.id == name for t in node.targets):
            if isinstance(node.value, ast.Constant) and isinstance(node.value.value, str):
                return node.value.value
    raise AnalysisError(f"anchor vanished: string constant {module}.{name}")


# ------------------------------------------------------------------------------------------------
# 4. C precedence / associativity
# ------------------------------------------------------------------------------------------------
PREC = {
    "Add": 12,
    "Subtract": 12,
    "Multiply": 13,
    "Equal": 9,
    "NotEqual": 9,
    "GreaterThan": 10,
    "LessThan": 10,
    "GreaterThanOrEqual": 10,
    "LessThanOrEqual": 10,
    "And": 5,
    "Or": 4,
}
ARITH_CLASSES = {"Add", "Subtract", "Multiply"}
CMP_CLASSES = {"Equal", "NotEqual", "GreaterThan", "LessThan", "GreaterThanOrEqual", "LessThanOrEqual"}
BOOL_CLASSES = {"And", "Or"}


def operand_kind(parent):
    """Static type the IR requires of the operands of `parent` (what child classes are well-typed)."""
    if parent in ARITH_CLASSES or parent in CMP_CLASSES:
        return ARITH_CLASSES  # arithmetic operands (atoms never need wrapping)
    if parent in BOOL_CLASSES:
        return BOOL_CLASSES | CMP_CLASSES
    return set()



C_SYMBOL = {"Add": "+", "Subtract": "-", "Multiply": "*", "Equal": "==", "NotEqual": "!=", "GreaterThan": ">", "LessThan": "<",
            "GreaterThanOrEqual": ">=", "LessThanOrEqual": "<=", "And": "&&", "Or": "||"}
C_LEVEL = {"||": 4, "&&": 5, "==": 9, "!=": 9, "<": 10, ">": 10, "<=": 10, ">=": 10, "+": 12, "-": 12, "*": 13}


def c_parse(text):
    """The tree C reads from an expression of identifiers, parentheses and the binary operators the printer
    emits (all left-associative): nested tuples (op, left, right)."""
    toks = re.findall(r"\|\||&&|==|!=|<=|>=|[<>+\-*()]|[A-Za-z_]\w*", text)
    if "".join(toks) != re.sub(r"\s+", "", text):
        raise ValueError(f"unexpected characters in {text!r}")
    pos = 0

    def atom():
        nonlocal pos
        t = toks[pos]
        pos += 1
        if t == "(":
            e = expr(0)
            if pos >= len(toks) or toks[pos] != ")":
                raise ValueError("unbalanced parentheses")
            pos += 1
            return e
        if not re.fullmatch(r"[A-Za-z_]\w*", t):
            raise ValueError(f"operand expected at {t!r}")
        return t

    def expr(minlevel):
        nonlocal pos
        left = atom()
        while pos < len(toks) and toks[pos] in C_LEVEL and C_LEVEL[toks[pos]] >= minlevel:
            op = toks[pos]
            pos += 1
            right = expr(C_LEVEL[op] + 1)
            left = (op, left, right)
        return left

    e = expr(0)
    if pos != len(toks):
        raise ValueError(f"trailing text in {text!r}")
    return e


def c_printer_env(ix):
    """Globals for evaluating the C expression printer abstractly: its own module-level functions and constants,
    the IR classes as class objects, and the singledispatch entry point dispatching on the model object's class."""
    from . import symeval as S
    from .parsing import module_env

    cimpl = registered_impl(ix, C_MOD, "ir_to_c_expression")
    G = {}
    tree = ix.module(C_MOD)
    for st in tree.body:
        if isinstance(st, ast.FunctionDef) and not any("register" in ast.unparse(d) for d in st.decorator_list):
            G[st.name] = st
    import_tensora(ix.src if hasattr(ix, "src") else None) if False else None
    for name in list(C_SYMBOL) + ["Max", "Min", "Variable", "IntegerLiteral", "FloatLiteral", "BooleanLiteral", "ArrayIndex", "AttributeAccess", "BooleanToInteger", "ArrayAllocate", "ArrayReallocate", "Expression"]:
        G[name] = S.class_obj(name)

    def dispatch(x, *rest):
        if not isinstance(x, S.Obj):
            raise S.Uninterpretable("printer applied to a non-IR value")
        fn = cimpl.get(x.tag)
        if fn is None:
            raise S.Uninterpretable(f"no C printer registered for {x.tag}")
        outs = list(S.explore(fn, [x, *rest], globals_=G))
        if len(outs) != 1:
            raise S.Uninterpretable(f"printer of {x.tag} forks")
        kind, val = outs[0][1]
        if kind == "raise":
            raise S.Raised(val)
        if kind != "return":
            raise S.Uninterpretable(f"printer of {x.tag}: {val}")
        return val

    G["ir_to_c_expression"] = dispatch
    for k, v in module_env(ix, C_MOD, G).items():
        G.setdefault(k, v)
    return G, dispatch


def printed_as(dispatch, parent, side, child):
    """(tree the IR means, tree C reads from the printed text) for parent(child(..), x) / parent(x, child(..))."""
    from . import symeval as S

    def var(n):
        return S.Obj("Variable", name=n, __bases__=("Assignable", "Expression"))

    def node(cls, l, r):
        return S.Obj(cls, left=l, right=r, __bases__=("Expression",))

    if side == "left":
        tree = node(parent, node(child, var("a"), var("b")), var("c"))
        want = (C_SYMBOL[parent], (C_SYMBOL[child], "a", "b"), "c")
    else:
        tree = node(parent, var("a"), node(child, var("b"), var("c")))
        want = (C_SYMBOL[parent], "a", (C_SYMBOL[child], "b", "c"))
    text = dispatch(tree)
    if not isinstance(text, str):
        raise ValueError(f"printer returned {text!r}")
    return want, c_parse(text), text


def rule_precedence(ctx, ix):
    """Required parenthesisation (child precedence lower than the parent's, or equal on the right side:
    floating-point + and * are not associative, - is not associative) must be a subset of the wrap set
    the printer passes to parens()."""
    ctx.rule("C06.precedence", "required parentheses are a subset of the printer's wrap sets", min_instances=14)
    from . import symeval as S

    cimpl = registered_impl(ix, C_MOD, "ir_to_c_expression")
    try:
        _G, dispatch = c_printer_env(ix)
    except S.Uninterpretable as ex:
        raise AnalysisError(f"C printer environment not interpretable: {ex}") from ex
    for parent, pprec in PREC.items():
        if parent not in cimpl:
            continue
        for side in ("left", "right"):
            required = set()
            for child in operand_kind(parent):
                cp = PREC[child]
                if cp < pprec or (cp == pprec and side == "right"):
                    # equal precedence on the right re-associates: (a - (b - c)), a + (b + c) in floating point
                    if parent in BOOL_CLASSES and child == parent:
                        continue  # && and || are associative on booleans with short-circuit order kept
                    if parent in CMP_CLASSES and child in CMP_CLASSES:
                        continue  # ill-typed: comparisons compare integers, not booleans
                    required.add(child)
            for child in sorted(required):
                ctx.instance("C06.precedence")
                key = f"codegen/_ir_to_c.py:ir_to_c_expression:{parent}.{side}<-{child}"
                # the printer is evaluated abstractly on the three-variable tree and its text is read back with
                # C's precedence and associativity: the tree C reads must be the IR tree
                try:
                    want, got, text = printed_as(dispatch, parent, side, child)
                except (S.Uninterpretable, S.Raised, S.Fork, ValueError) as ex:
                    ctx.fail("C06.precedence", key, f"C printer not interpretable on {parent}({child}): {ex}")
                    continue
                if got == want:
                    ctx.ok("C06.precedence", key)
                else:
                    ctx.fail(
                        "C06.precedence",
                        key,
                        f"{parent}({'x, ' if side == 'right' else ''}{child}(...){', x' if side == 'left' else ''}) is printed without parentheses: "
                        f"C re-associates it, the LLVM back end evaluates the IR tree as written (printed `{text}`)",
                    )
    # array allocate / reallocate: n_elements multiplied by sizeof - printed and read back as well
    _G["type_to_c"] = lambda t: "double"

    def var(n):
        return S.Obj("Variable", name=n, __bases__=("Assignable", "Expression"))

    for cls in ("ArrayAllocate", "ArrayReallocate"):
        for child in ("Add", "Subtract"):
            ctx.instance("C06.precedence")
            key = f"codegen/_ir_to_c.py:ir_to_c_expression:{cls}.n_elements<-{child}"
            n_el = S.Obj(child, left=var("a"), right=var("b"), __bases__=("Expression",))
            tree = S.Obj(cls, element_type=S.Obj("float type"), n_elements=n_el, old=var("p"), __bases__=("Expression",))
            try:
                text = dispatch(tree)
                m = re.fullmatch(r"(?:malloc|realloc)\((?:\w+,\s*)?sizeof\(\w+\)\s*\*\s*(.*)\)", text if isinstance(text, str) else "")
                if m is None:
                    raise ValueError(f"printed `{text}`: not (m|re)alloc([p, ]sizeof(T) * n)")
                got = c_parse("s * " + m.group(1))
            except (S.Uninterpretable, S.Raised, S.Fork, ValueError) as ex:
                ctx.fail("C06.precedence", key, f"C printer not interpretable on {cls}({child}): {ex}")
                continue
            if got == ("*", "s", (C_SYMBOL[child], "a", "b")):
                ctx.ok("C06.precedence", key)
            else:
                ctx.fail("C06.precedence", key, f"sizeof(T) * {child}(...) printed without parentheses (`{text}`)")
    # compound assignment sugar
    simpl = registered_impl(ix, C_MOD, "ir_to_c_statement")
    fn = simpl.get("Assignment")
    ctx.instance("C06.precedence")
    key = "codegen/_ir_to_c.py:ir_to_c_statement:Assignment:sugar"
    problems = sugar_problems(fn) if fn is not None else ["no implementation"]
    if problems:
        for p in problems:
            ctx.fail("C06.precedence", key + ":" + p[0], p[1])
    else:
        ctx.ok("C06.precedence", key)


def sugar_problems(fn):
    """x = x (+) r may print x (+)= r only when value.left == target; ++/-- only for literal 1."""
    out = []
    src = fn
    sugar = {"Add": ("+=", "++"), "Subtract": ("-=", "--"), "Multiply": ("*=", None)}
    found = set()

    def visit_if(node):
        test = ast.unparse(node.test)
        m = re.fullmatch(r"isinstance\(self\.value, (\w+)\) and self\.value\.left == self\.target", test)
        if m:
            cls = m.group(1)
            found.add(cls)
            aug, inc = sugar.get(cls, (None, None))
            for n in ast.walk(ast.Module(body=node.body, type_ignores=[])):
                if isinstance(n, ast.JoinedStr):
                    text = "".join(v.value for v in n.values if isinstance(v, ast.Constant))
                    if "=" in text:
                        op = text.strip().rstrip(";").strip()
                        if op != aug:
                            out.append((cls, f"{cls} with value.left == target printed with `{op}` (expected `{aug}`)"))
                    elif text.strip().rstrip(";") in ("++", "--"):
                        if text.strip().rstrip(";") != inc:
                            out.append((cls, f"{cls} of literal 1 printed as `{text.strip()}`"))
            # ++/-- guarded by == IntegerLiteral(1)
            for n in node.body:
                if isinstance(n, ast.If):
                    if ast.unparse(n.test) != "self.value.right == IntegerLiteral(1)":
                        out.append((cls, f"increment sugar guarded by `{ast.unparse(n.test)}`"))
        else:
            # any other condition leading to compound assignment is suspicious
            for n in ast.walk(ast.Module(body=node.body, type_ignores=[])):
                if isinstance(n, ast.JoinedStr):
                    text = "".join(v.value for v in n.values if isinstance(v, ast.Constant))
                    if re.search(r"[+\-*]=|\+\+|--", text):
                        out.append(("guard", f"compound assignment under guard `{test}`"))
        for o in node.orelse:
            if isinstance(o, ast.If):
                visit_if(o)

    for st in src.body:
        if isinstance(st, ast.If):
            visit_if(st)
    return out


# ------------------------------------------------------------------------------------------------
# 5. struct layout
# ------------------------------------------------------------------------------------------------
LP64 = {"int32_t": (4, 4), "ptr": (8, 8), "i32": (4, 4), "i8": (1, 1), "double": (8, 8), "i64": (8, 8)}


def rule_struct_layout(ctx, ix):
    ctx.rule("C06.struct-layout", "field offsets used by LLVM GEPs equal the C struct's offsets (LP64)", min_instances=3)
    hdr = module_string(ix, "tensora.compile._cffi_ownership", "taco_type_header")
    m = re.search(r"typedef\s+struct\s*\{(.*?)\}\s*taco_tensor_t\s*;", hdr, re.S)
    if not m:
        raise AnalysisError("taco_tensor_t struct not found in taco_type_header")
    cfields = []
    for line in m.group(1).split(";"):
        line = re.sub(r"//.*", "", line).strip()
        if not line:
            continue
        mm = re.fullmatch(r"(\w+)\s*(\**)\s*(\w+)", re.sub(r"\s+", " ", line).replace(" *", "*").replace("* ", "*"))
        if not mm:
            mm = re.fullmatch(r"(\w+)(\**)\s*(\w+)", line.replace(" ", "", 0))
        if not mm:
            raise AnalysisError(f"cannot parse struct field `{line}`")
        cfields.append((mm.group(3), mm.group(1), len(mm.group(2))))

    def layout(fields):
        off = 0
        out = []
        for size, align in fields:
            off = (off + align - 1) // align * align
            out.append(off)
            off += size
        return out

    c_sizes = [LP64["ptr"] if depth else LP64.get(base, LP64["int32_t"]) for _, base, depth in cfields]
    c_off = layout(c_sizes)
    # LLVM side
    tl = ix.module("tensora.codegen._type_to_llvm")
    consts = {"llvm_integer_type": ("i32", 0), "llvm_float_type": ("double", 0), "llvm_mode_type": ("i8", 0), "llvm_size_type": ("i64", 0), "llvm_boolean_type": ("i1", 0)}
    elems = None
    for node in ast.walk(tl):
        if isinstance(node, ast.Call) and ast.unparse(node.func) == "llvm.LiteralStructType" and node.args and isinstance(node.args[0], ast.List):
            elems = node.args[0].elts
    if elems is None:
        raise AnalysisError("LiteralStructType element list not found in _type_to_llvm")

    def lty(e):
        depth = 0
        while isinstance(e, ast.Call) and ast.unparse(e.func) == "llvm.PointerType":
            depth += 1
            e = e.args[0]
        if isinstance(e, ast.Name) and e.id in consts:
            return consts[e.id][0], depth
        return ast.unparse(e), depth

    ltypes = [lty(e) for e in elems]
    l_off = layout([LP64["ptr"] if d else LP64[b] for b, d in ltypes])
    idx = None
    for node in tl.body:
        if isinstance(node, ast.Assign) and any(isinstance(t, ast.Name) and t.id == "tensor_attribute_indexes" for t in node.targets):
            idx = ast.literal_eval(node.value)
    if idx is None:
        raise AnalysisError("tensor_attribute_indexes not found")
    cnames = [f[0] for f in cfields]
    elem_map = {"int32_t": "i32", "double": "double"}
    for name, i in idx.items():
        ctx.instance("C06.struct-layout")
        key = f"codegen/_type_to_llvm.py:tensor_attribute_indexes:{name}"
        if name not in cnames:
            ctx.fail("C06.struct-layout", key, f"attribute {name} is not a field of taco_tensor_t")
            continue
        ci = cnames.index(name)
        probs = []
        if ci != i:
            probs.append(f"LLVM index {i}, C field position {ci}")
        if i >= len(l_off) or l_off[i] != c_off[ci]:
            probs.append(f"LLVM offset {l_off[i] if i < len(l_off) else None}, C offset {c_off[ci]}")
        if i < len(ltypes):
            lb, ld = ltypes[i]
            _, cb, cd = cfields[ci]
            if ld != cd or elem_map.get(cb) != lb:
                probs.append(f"LLVM type {lb}{'*' * ld}, C type {cb}{'*' * cd}")
        if probs:
            ctx.fail("C06.struct-layout", key, "; ".join(probs))
        else:
            ctx.ok("C06.struct-layout", key)
    # attributes the generator uses must have an LLVM index and be C fields
    used = set()
    for mname, tree in ix.modules.items():
        if mname.startswith("tensora.iteration_graph"):
            for n in ast.walk(tree):
                if isinstance(n, ast.Call) and isinstance(n.func, ast.Attribute) and n.func.attr == "attr" and n.args and isinstance(n.args[0], ast.Constant):
                    used.add(n.args[0].value)
    for a in sorted(used):
        ctx.instance("C06.struct-layout")
        key = f"iteration_graph:attr({a!r})"
        if a in idx and a in cnames:
            ctx.ok("C06.struct-layout", key)
        else:
            ctx.fail("C06.struct-layout", key, f"generator emits ->{a} which has no LLVM field index or is no C field")


# ------------------------------------------------------------------------------------------------
# 6. allocation width
# ------------------------------------------------------------------------------------------------
def rule_alloc_width(ctx, ix):
    """sizeof(T) * n is computed in size_t by C; the LLVM printer must widen before multiplying.  The size
    argument of the malloc / realloc call is traced back through locals and module-level helper functions;
    every `builder.mul` on the way must have two 64-bit operands."""
    ctx.rule("C06.alloc-width", "allocation byte size multiplied in 64 bits", min_instances=2)
    limpl = registered_impl(ix, L_MOD, "ir_to_llvm_expression")
    helpers = {f.name: f.node for q, f in ix.funcs.items() if f.module == L_MOD and q == f"{L_MOD}.{f.name}"}

    def assigns(fn):
        out = {}
        for st in ast.walk(fn):
            if isinstance(st, ast.Assign) and len(st.targets) == 1 and isinstance(st.targets[0], ast.Name):
                out.setdefault(st.targets[0].id, []).append(st.value)
        return out

    def width(v, env, depth=0, muls=None):
        """'i32' | 'i64' | None; records (mul call, operand widths) in muls."""
        if depth > 8:
            return None
        if isinstance(v, ast.Name):
            vals = env.get(v.id, [])
            ws = {width(x, env, depth + 1, muls) for x in vals}
            return ws.pop() if len(ws) == 1 else None
        if isinstance(v, ast.Call):
            f = ast.unparse(v.func)
            if f == "llvm.Constant" and v.args:
                return {"llvm_integer_type": "i32", "llvm_size_type": "i64"}.get(ast.unparse(v.args[0]))
            if f == "ir_to_llvm_expression":
                return "i32"  # every integer expression of the IR is int32
            if f.split(".")[-1] in ("zext", "sext") and len(v.args) == 2:
                return {"llvm_integer_type": "i32", "llvm_size_type": "i64"}.get(ast.unparse(v.args[1]))
            if f.split(".")[-1] == "mul":
                ws = [width(a, env, depth + 1, muls) for a in v.args]
                if muls is not None:
                    muls.append((ast.unparse(v)[:70], ws))
                return ws[0] if len(set(ws)) == 1 else None
            if f in helpers and f not in ("ir_to_llvm_expression",):
                h = helpers[f]
                henv = assigns(h)
                rets = [n.value for n in ast.walk(h) if isinstance(n, ast.Return) and n.value is not None]
                ws = {width(r, henv, depth + 1, muls) for r in rets}
                return ws.pop() if len(ws) == 1 else None
        return None

    for cls, callee in (("ArrayAllocate", "malloc"), ("ArrayReallocate", "realloc")):
        ctx.instance("C06.alloc-width")
        key = f"codegen/_ir_to_llvm.py:ir_to_llvm_expression:{cls}"
        fn = limpl.get(cls)
        if fn is None:
            ctx.fail("C06.alloc-width", key, "no implementation")
            continue
        env = assigns(fn)
        sizes = []
        for n in ast.walk(fn):
            if isinstance(n, ast.Call) and ast.unparse(n.func).split(".")[-1] == "call" and n.args and callee in ast.unparse(n.args[0]) and len(n.args) > 1 and isinstance(n.args[1], ast.List) and n.args[1].elts:
                sizes.append(n.args[1].elts[-1])
        if len(sizes) != 1:
            ctx.fail("C06.alloc-width", key, f"no single {callee} call with a size argument found")
            continue
        muls = []
        w = width(sizes[0], env, 0, muls)
        bad = [m for m in muls if m[1] != ["i64", "i64"]]
        if w == "i64" and muls and not bad:
            ctx.ok("C06.alloc-width", key)
        else:
            ctx.fail("C06.alloc-width", key, f"byte size is {w}, multiplied with operand widths {[m[1] for m in muls] or None}: wraps around in 32 bits where C's size_t product does not")


# ------------------------------------------------------------------------------------------------
# 7. identifiers provided
# ------------------------------------------------------------------------------------------------
def rule_identifiers(ctx, ix):
    ctx.rule("C06.identifiers", "macros, typedefs and fields the C printer can emit are defined by the published header", min_instances=8)
    define_hdr = module_string(ix, "tensora.compile._compile_cffi", "taco_define_header")
    type_hdr = module_string(ix, "tensora.compile._cffi_ownership", "taco_type_header")
    provided = set(re.findall(r"#define\s+(\w+)", define_hdr))
    provided |= set(re.findall(r"\}\s*(\w+)\s*;", type_hdr))
    provided |= set(re.findall(r"(\w+)\s*;\s*(?://.*)?$", type_hdr, re.M))
    if "#include <stdbool.h>" in define_hdr:
        provided |= {"bool", "true", "false"}
    assumed = {"int32_t", "double", "malloc", "realloc", "sizeof", "restrict", "if", "else", "while", "return"}
    emitted = set()
    for mod in (C_MOD, "tensora.codegen._type_to_c"):
        for n in ast.walk(ix.module(mod)):
            if isinstance(n, ast.Constant) and isinstance(n.value, str) and not isinstance(getattr(n, "parent", None), ast.Expr):
                for w in re.findall(r"[A-Za-z_]\w*", n.value):
                    emitted.add(w)
    # only words that end up in C text: drop python-only strings (error messages)
    emitted = {w for w in emitted if w in provided | assumed or re.fullmatch(r"TACO_\w+|taco_\w+|u?int\d+_t|bool|true|false", w)}
    for w in sorted(emitted):
        ctx.instance("C06.identifiers")
        key = f"codegen/_ir_to_c.py:identifier:{w}"
        if w in provided or w in assumed:
            ctx.ok("C06.identifiers", key)
        else:
            ctx.fail("C06.identifiers", key, f"the C printer emits `{w}` which the published header does not define")


# ------------------------------------------------------------------------------------------------
# 7b. literal spellings
# ------------------------------------------------------------------------------------------------
def exact_float_spelling(e) -> str | None:
    """None if the expression spells a double exactly (round-trips through the C parser), else why."""
    if isinstance(e, ast.Call) and isinstance(e.func, ast.Name) and e.func.id in ("str", "repr") and len(e.args) == 1:
        return None  # shortest round-trip repr (David Gay / Python >= 3.1)
    if isinstance(e, ast.Call) and isinstance(e.func, ast.Attribute) and e.func.attr in ("__repr__", "hex"):
        return None
    spec = None
    if isinstance(e, ast.JoinedStr) and len(e.values) == 1 and isinstance(e.values[0], ast.FormattedValue):
        fv = e.values[0]
        if fv.conversion == 114 and fv.format_spec is None:  # !r
            return None
        if fv.format_spec is not None and all(isinstance(v, ast.Constant) for v in fv.format_spec.values):
            spec = "".join(v.value for v in fv.format_spec.values)
        elif fv.format_spec is None:
            return None  # format(x, "") == str(x)
    if isinstance(e, ast.Call) and isinstance(e.func, ast.Name) and e.func.id == "format" and len(e.args) == 2 and isinstance(e.args[1], ast.Constant):
        spec = e.args[1].value
    if isinstance(e, ast.BinOp) and isinstance(e.op, ast.Mod) and isinstance(e.left, ast.Constant) and isinstance(e.left.value, str):
        spec = e.left.value.lstrip("%")
    if spec is not None:
        m = re.fullmatch(r"[-+ #0]*\d*\.(\d+)([eEgG])", spec)
        if m:
            digits = int(m.group(1)) + (1 if m.group(2) in "eE" else 0)
            if digits >= 17:
                return None
            return f"format `{spec}` keeps {digits} significant digits; an IEEE double needs 17 to round-trip"
        if spec in ("r", ""):
            return None
        return f"format `{spec}` does not spell every double exactly"
    return f"`{ast.unparse(e)}` is not a recognised exact spelling of a double"


def rule_literals(ctx, ix):
    """The C printer's literal spellings denote exactly the IR value the LLVM printer embeds."""
    ctx.rule("C06.literals", "C literal spellings denote exactly the value the LLVM module embeds", min_instances=5)
    cimpl = registered_impl(ix, C_MOD, "ir_to_c_expression")
    limpl = registered_impl(ix, L_MOD, "ir_to_llvm_expression")
    for cls, kind in (("FloatLiteral", "float"), ("IntegerLiteral", "int"), ("BooleanLiteral", "bool")):
        ctx.instance("C06.literals")
        key = f"codegen/_ir_to_c.py:ir_to_c_expression:{cls}"
        fn = cimpl.get(cls)
        if fn is None:
            ctx.fail("C06.literals", key, "no implementation")
            continue
        # resolve simple local aliases: x = expr; return x
        local = {}
        for st in fn.body:
            if isinstance(st, ast.Assign) and isinstance(st.targets[0], ast.Name):
                local[st.targets[0].id] = st.value
        rets = [n for n in ast.walk(fn) if isinstance(n, ast.Return)]
        problems = []
        for r in rets:
            v = r.value
            while isinstance(v, ast.Name) and v.id in local:
                v = local[v.id]
            if kind == "float":
                why = exact_float_spelling(v)
                if why:
                    problems.append(why)
                elif "self.value" not in ast.unparse(v):
                    problems.append("does not print self.value")
            elif kind == "int":
                if ast.unparse(v) not in ("str(self.value)", "repr(self.value)", "f'{self.value}'", "f'{self.value:d}'"):
                    problems.append(f"integer literal printed as `{ast.unparse(v)}`")
            else:
                if ast.unparse(v) != "'true' if self.value else 'false'":
                    problems.append(f"boolean literal printed as `{ast.unparse(v)}`")
        if len(rets) > 1 and kind == "float":
            problems.append("several return paths (value-dependent spelling)") if any(exact_float_spelling(r.value if not isinstance(r.value, ast.Name) else local.get(r.value.id, r.value)) for r in rets) else None
        problems = [p for p in problems if p]
        if problems:
            ctx.fail("C06.literals", key, "; ".join(sorted(set(problems))) + " (the LLVM back end embeds the exact IR value)")
        else:
            ctx.ok("C06.literals", key)
    # LLVM side embeds self.value unchanged with the right type
    for cls, ty in (("FloatLiteral", "llvm_float_type"), ("IntegerLiteral", "llvm_integer_type"), ("BooleanLiteral", "llvm_boolean_type")):
        ctx.instance("C06.literals")
        key = f"codegen/_ir_to_llvm.py:ir_to_llvm_expression:{cls}"
        fn = limpl.get(cls)
        rets = [n for n in ast.walk(fn) if isinstance(n, ast.Return)] if fn else []
        if len(rets) == 1 and ast.unparse(rets[0].value) == f"llvm.Constant({ty}, self.value)":
            ctx.ok("C06.literals", key)
        else:
            ctx.fail("C06.literals", key, f"literal is not embedded as llvm.Constant({ty}, self.value)")
    # every lowering stage hands the literal's value on exactly: sugar -> desugar -> identifiable -> IR.
    # Decided on whichever function is registered for the literal class (function names are free).
    stages = (
        ("tensora.desugar._desugar_expression", "desugar_expression"),
        ("tensora.desugar._to_iteration_graphs", "to_iteration_graphs_expression"),
        ("tensora.iteration_graph.identifiable_expression._to_ir", "to_ir"),
    )
    LIT = {"Integer": "int", "Float": "float", "IntegerLiteral": "int", "FloatLiteral": "float"}
    for mod, disp in stages:
        impl = registered_impl_all(ix, mod, disp)
        for cls in ("Integer", "Float"):
            ctx.instance("C06.literals")
            key = f"{mod.split('tensora.', 1)[1]}:{disp}:{cls}"
            fn = impl.get(cls)
            if fn is None:
                ctx.fail("C06.literals", key, "no implementation registered for the literal class")
                continue
            me = fn.args.args[0].arg
            builds = [n for n in ast.walk(fn) if isinstance(n, ast.Call) and ast.unparse(n.func).split(".")[-1] in LIT]
            uses = [n for n in ast.walk(fn) if isinstance(n, ast.Attribute) and n.attr == "value" and isinstance(n.value, ast.Name) and n.value.id == me]
            why = None
            if len(builds) != 1 or len(builds[0].args) != 1 or builds[0].keywords:
                why = f"does not build exactly one literal node ({[ast.unparse(b) for b in builds]})"
            else:
                out_kind = LIT[ast.unparse(builds[0].func).split(".")[-1]]
                arg = ast.unparse(builds[0].args[0])
                in_kind = LIT[cls]
                if arg == f"{me}.value" and out_kind == in_kind:
                    if disp == "to_ir" and in_kind == "int":
                        why = "an integer literal of the assignment is lowered as an int32 IR literal: literal arithmetic is then int32 (overflow) and a value outside int32 is truncated by LLVM but not by C"
                elif arg == f"float({me}.value)" and in_kind == "int" and out_kind == "float":
                    pass  # exact for every integer a double represents; the same rounding the C compiler applies
                else:
                    why = f"literal value is not handed on unchanged: `{ast.unparse(builds[0])}`"
                if why is None and len(uses) != 1:
                    why = f"the literal's value is used {len(uses)} times (expected once, inside the node built)"
            if why:
                ctx.fail("C06.literals", key, why)
            else:
                ctx.ok("C06.literals", key)


def registered_impl_all(ix, module, dispatcher):
    """Like registered_impl, but a function carrying several `@dispatcher.register(Cls)` decorators is
    registered for each of them."""
    out = {}
    for fn in ix.module(module).body:
        if not isinstance(fn, ast.FunctionDef):
            continue
        for d in fn.decorator_list:
            if isinstance(d, ast.Call) and isinstance(d.func, ast.Attribute) and d.func.attr == "register":
                if isinstance(d.func.value, ast.Name) and d.func.value.id == dispatcher and d.args:
                    out[ast.unparse(d.args[0]).split(".")[-1]] = fn
            elif isinstance(d, ast.Attribute) and d.attr == "register" and isinstance(d.value, ast.Name) and d.value.id == dispatcher:
                if fn.args.args and fn.args.args[0].annotation is not None:
                    for part in ast.unparse(fn.args.args[0].annotation).split("|"):
                        out[part.strip().split(".")[-1]] = fn
    return out


# ------------------------------------------------------------------------------------------------
# 9. hoisting total
# ------------------------------------------------------------------------------------------------
def rule_hoisting(ctx, ix):
    import_tensora(ctx.src)
    import tensora.ir.ast as IR

    ctx.rule("C06.hoisting", "declaration hoisting recurses into every statement-typed field of every compound statement", min_instances=3)
    himpl = registered_impl(ix, "tensora.codegen._hoist_declarations", "hoist_declarations_statement")
    for c in concrete_subclasses(IR.Statement):
        hints = {f.name: str(f.type) for f in dataclasses.fields(c)}
        stmt_fields = [n for n, t in hints.items() if "Statement" in t]
        if not stmt_fields or issubclass(c, IR.Expression):
            continue
        ctx.instance("C06.hoisting")
        key = f"codegen/_hoist_declarations.py:hoist_declarations_statement:{c.__name__}"
        fn = himpl.get(c.__name__)
        if fn is None:
            ctx.fail("C06.hoisting", key, "no registered implementation")
            continue
        src = ast.unparse(fn)
        missing = [f for f in stmt_fields if f"self.{f}" not in src]
        if missing:
            ctx.fail("C06.hoisting", key, f"does not recurse into {missing}: a variable declared only there gets no alloca (KeyError in the LLVM printer)")
        else:
            ctx.ok("C06.hoisting", key)
    # declarations: both declaration forms must contribute their name
    for cname, expr in (("Declaration", "self.name.name"), ("DeclarationAssignment", "self.target.name.name")):
        ctx.instance("C06.hoisting")
        key = f"codegen/_hoist_declarations.py:hoist_declarations_statement:{cname}"
        fn = himpl.get(cname)
        if fn is not None and expr in ast.unparse(fn):
            ctx.ok("C06.hoisting", key)
        else:
            ctx.fail("C06.hoisting", key, "declaration form does not contribute its variable")


def rule_function_scope(ctx, ix):
    """C scopes names per function; the LLVM printer must too.  In the printer of a FunctionDefinition the
    name environment handed to the body printer (a) is built by this call (not a parameter or module-level
    object that the call mutates: bindings would leak into the next definition), and (b) receives a stack
    slot made by THIS function's builder for every parameter and every hoisted declaration, unconditionally."""
    ctx.rule("C06.function-scope", "LLVM name environment is per function: fresh, and unconditionally bound for parameters and hoisted declarations", min_instances=3)
    tree = ix.module(L_MOD)
    fdef = None
    for fn in tree.body:
        if isinstance(fn, ast.FunctionDef) and fn.args.args and fn.args.args[0].annotation is not None and ast.unparse(fn.args.args[0].annotation).split(".")[-1] == "FunctionDefinition":
            fdef = fn
    key0 = "codegen/_ir_to_llvm.py:<printer of FunctionDefinition>"
    ctx.instance("C06.function-scope")
    if fdef is None:
        ctx.fail("C06.function-scope", key0, "no function whose first parameter is a FunctionDefinition")
        return
    key0 = f"codegen/_ir_to_llvm.py:{fdef.name}"
    me = fdef.args.args[0].arg
    params = {a.arg for a in fdef.args.args + fdef.args.kwonlyargs}
    body_calls = [
        n
        for n in ast.walk(fdef)
        if isinstance(n, ast.Call) and ast.unparse(n.func).split(".")[-1] == "ir_to_llvm_statement" and n.args and ast.unparse(n.args[0]) == f"{me}.body"
    ]
    if len(body_calls) != 1 or len(body_calls[0].args) < 3:
        ctx.fail("C06.function-scope", key0, "the body is not printed by exactly one ir_to_llvm_statement(self.body, builder, env) call")
        return
    call = body_calls[0]
    builder = ast.unparse(call.args[1])
    env_names = {n.id for n in ast.walk(call.args[2]) if isinstance(n, ast.Name)}
    ctx.ok("C06.function-scope", key0 + f": body printed with env `{ast.unparse(call.args[2])}`")
    # (a) freshness of every env component this function writes
    FRESH = (ast.Dict, ast.DictComp)
    written = {}
    for n in ast.walk(fdef):
        if isinstance(n, (ast.Assign, ast.AugAssign)):
            for t in n.targets if isinstance(n, ast.Assign) else [n.target]:
                if isinstance(t, ast.Subscript) and isinstance(t.value, ast.Name) and t.value.id in env_names:
                    written.setdefault(t.value.id, []).append(n)
        if isinstance(n, ast.Call) and isinstance(n.func, ast.Attribute) and n.func.attr in ("update", "setdefault", "__setitem__") and isinstance(n.func.value, ast.Name) and n.func.value.id in env_names:
            written.setdefault(n.func.value.id, []).append(n)
    for name in sorted(written):
        ctx.instance("C06.function-scope")
        key = f"{key0}:{name}"
        creations = [n for n in ast.walk(fdef) if isinstance(n, ast.Assign) and any(isinstance(t, ast.Name) and t.id == name for t in n.targets)]
        fresh = bool(creations) and all(
            isinstance(c.value, FRESH)
            or (isinstance(c.value, ast.Call) and ast.unparse(c.value.func) in ("dict",) )
            or (isinstance(c.value, ast.Call) and isinstance(c.value.func, ast.Attribute) and c.value.func.attr == "copy")
            or isinstance(c.value, ast.BinOp)
            for c in creations
        )
        if name in params and not creations:
            ctx.fail("C06.function-scope", key, f"`{name}` is a parameter that this function fills in place: every definition of the module shares one scope, so a later function resolves names to the first function's stack slots")
        elif not fresh:
            ctx.fail("C06.function-scope", key, f"`{name}` is written here but not created fresh by this call")
        else:
            ctx.ok("C06.function-scope", key + " fresh per definition")
    # (b) unconditional binding loops
    for what, pred in (
        ("parameters", lambda it: f"{me}.parameters" in ast.unparse(it)),
        ("hoisted declarations", lambda it: "hoist_declarations" in ast.unparse(it)),
    ):
        ctx.instance("C06.function-scope")
        key = f"{key0}:{what}"
        loops = [n for n in fdef.body if isinstance(n, ast.For) and pred(n.iter)]
        if len(loops) != 1:
            ctx.fail("C06.function-scope", key, f"expected one top-level loop over the {what}, found {len(loops)}")
            continue
        loop = loops[0]
        stores = [
            st
            for st in loop.body
            if isinstance(st, ast.Assign) and isinstance(st.targets[0], ast.Subscript) and isinstance(st.targets[0].value, ast.Name) and st.targets[0].value.id in env_names
        ]
        allocas = [n for n in ast.walk(loop) if isinstance(n, ast.Call) and isinstance(n.func, ast.Attribute) and n.func.attr == "alloca"]
        cond = [n for n in ast.walk(loop) if isinstance(n, (ast.If, ast.IfExp, ast.Try, ast.Continue, ast.Break))]
        if not stores:
            ctx.fail("C06.function-scope", key, "no unconditional `env[name] = slot` store in the loop body")
        elif cond:
            ctx.fail("C06.function-scope", key, f"binding of {what} is conditional (`{ast.unparse(cond[0]).splitlines()[0]}`): a name can keep a slot that belongs to another function or none")
        elif not allocas or any(ast.unparse(a.func.value) != builder for a in allocas):
            ctx.fail("C06.function-scope", key, f"slot is not an alloca of this function's builder `{builder}`")
        else:
            ctx.ok("C06.function-scope", key)


def rule_single_pipeline(ctx, ix):
    """The C text (CLI / generate_code) and the LLVM module (evaluate / TensorMethod) must be printed from the
    SAME IR: both consumers obtain their module from generate_module_tensora, so every IR-to-IR pass (the
    peephole optimiser) has to be applied inside it.  A pass applied by only one consumer makes the two back
    ends print different programs (the optimiser's rewrites are exact on finite values only)."""
    ctx.rule("C06.single-pipeline", "IR-to-IR passes are applied in the shared generator entry, not by one consumer", min_instances=1)
    shared = "tensora.generate._tensora.generate_module_tensora"
    passes = {f.name for q, f in ix.funcs.items() if f.module == "tensora.ir._peephole" and q == f"tensora.ir._peephole.{f.name}" and f.name.startswith("peephole")}
    n = 0
    in_shared = False
    for q, f in ix.funcs.items():
        if f.module.startswith("tensora.ir."):
            continue
        for call in ix.calls_in(f):
            name = ast.unparse(call.func).split(".")[-1]
            if name in passes:
                n += 1
                ctx.instance("C06.single-pipeline")
                key = f"{ix.rel(f.module)}:{q.split(f.module + '.', 1)[-1]}:{ast.unparse(call)[:50]}"
                if q == shared:
                    in_shared = True
                    ctx.ok("C06.single-pipeline", key)
                else:
                    ctx.fail("C06.single-pipeline", key, "an IR-to-IR pass is applied outside generate_module_tensora: the other consumer of the module (CLI text vs evaluate's JIT) prints the untransformed program")
    ctx.instance("C06.single-pipeline")
    if in_shared:
        ctx.ok("C06.single-pipeline", "generate/_tensora.py:generate_module_tensora applies the optimiser")
    else:
        ctx.fail("C06.single-pipeline", "generate/_tensora.py:generate_module_tensora applies the optimiser", "the shared generator entry no longer optimises the module it returns: consumers that optimise themselves and consumers that do not print different programs")
    # both consumers really take their module from the shared entry
    for consumer, label in (("tensora.generate._base.generate_code", "CLI / generate_code"), ("tensora.compile._tensor_method.TensorMethod.__init__", "evaluate / TensorMethod")):
        ctx.instance("C06.single-pipeline")
        f = ix.funcs.get(consumer)
        ok = f is not None and any(ast.unparse(c.func).split(".")[-1] in ("generate_module_tensora", "generate_module") for c in ix.calls_in(f))
        if ok:
            ctx.ok("C06.single-pipeline", f"{label} obtains its module from the shared generator")
        else:
            ctx.fail("C06.single-pipeline", f"{label} obtains its module from the shared generator", "this consumer does not call generate_module_tensora")


def run(ctx):
    ix = SourceIndex(ctx.src)
    collect_c_tuples(ix)
    rule_dispatch(ctx, ix)
    rule_call_arity(ctx, ix)
    rule_operator_tables(ctx, ix)
    rule_precedence(ctx, ix)
    rule_struct_layout(ctx, ix)
    rule_alloc_width(ctx, ix)
    rule_identifiers(ctx, ix)
    rule_literals(ctx, ix)
    rule_hoisting(ctx, ix)
    rule_function_scope(ctx, ix)
    rule_single_pipeline(ctx, ix)
    return ix
