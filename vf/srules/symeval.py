"""A small abstract evaluator for the operator layer of tensor.py (C11).

The template-building code (evaluate_binary_operator, evaluate_matrix_multiplication_operator and
their local helpers) is evaluated over *symbolic tensor metadata*: order, modes and ordering are
enumerated exhaustively up to order 3, dimension sizes are opaque symbols. Branches on symbolic
comparisons fork with the assumption recorded. No Tensor is built, nothing is compiled or run; the
evaluator understands only the small expression language those functions use and reports anything
else as uninterpretable.
"""

from __future__ import annotations

import ast
import itertools


from .symint import Poly, SymList, SymRange, is_num


class Uninterpretable(Exception):
    pass


class Sym:
    def __init__(self, name):
        self.name = name

    def __repr__(self):
        return self.name


class Obj:
    def __init__(self, tag, **attrs):
        self.tag = tag
        self.attrs = attrs

    def __repr__(self):
        return f"<{self.tag}>"


class SymZip:
    """zip of symbolic ranges / array slices of provably equal length: one abstract iteration, every component
    expressed through one fresh variable that runs over the pivot component's own index range."""

    def __init__(self, parts):
        self.parts = parts

    def symiter(self, ev):
        ranges = [p for p in self.parts if isinstance(p, SymRange)]
        pivot = next((p for p in ranges if p.lo == 0), ranges[0] if ranges else self.parts[0])
        r = ev.fresh("r" if isinstance(pivot, SymRange) else "k")
        ev.facts.append((r, pivot.lo, pivot.hi, "range" if isinstance(pivot, SymRange) else pivot.name))
        off = Poly.atom(r) - pivot.lo
        out = []
        for p in self.parts:
            i = p.lo + off
            out.append(i if isinstance(p, SymRange) else Poly.atom(f"{p.name}[{i!r}]"))
        return [tuple(out)]


_CLASS_OBJS: dict = {}


def class_obj(name):
    """The model of class `name`: one object per name, so that identity, equality and dict look-up agree."""
    if name not in _CLASS_OBJS:
        _CLASS_OBJS[name] = Obj("Class", name=name)
    return _CLASS_OBJS[name]


class CallableObj(Obj):
    """A model object that is also callable (a class with class attributes, e.g. inspect.Parameter)."""

    def __init__(self, tag, fn, **attrs):
        super().__init__(tag, **attrs)
        self.fn = fn

    def __call__(self, *args, **kwargs):
        return self.fn(*args, **kwargs)


class Call:
    """Result of calling an opaque function (evaluate_tensora)."""

    def __init__(self, func, args, kwargs):
        self.func = func
        self.args = args
        self.kwargs = kwargs


class Raised(Exception):
    def __init__(self, exc):
        self.exc = exc


class _Break(Exception):
    pass


class LoopCut(Exception):
    """A `while` loop went round more often than LOOP_BOUND on this path: the path is cut (the callers that
    interpret loops argue by induction over the iterations they did see)."""


LOOP_BOUND = 3


class _Continue(Exception):
    pass


_MISSING = object()
POLY_OF_KEY: dict = {}  # fork key -> the polynomial compared with 0 (for witnesses)


class KeysView(tuple):
    """dict.keys() / dict.items(): iterates in insertion order, compares like a set."""

    __hash__ = tuple.__hash__


class GenResult:
    """What a generator function yields (evaluated eagerly)."""

    def __init__(self, items):
        self.items = list(items)


class Returned(Exception):
    def __init__(self, value):
        self.value = value


class Fork(Exception):
    """A symbolic comparison whose truth is unknown: (lhs, rhs)."""

    def __init__(self, key):
        self.key = key


NOT_IMPLEMENTED = Obj("NotImplemented")
DENSE = Obj("Mode", name="dense", character="d", c_int=0)
COMPRESSED = Obj("Mode", name="compressed", character="s", c_int=1)


class KernelEntered(Exception):
    def __init__(self, args):
        self.args_ = args
MODE = Obj("ModeClass", dense=DENSE, compressed=COMPRESSED)


def make_format(modes, ordering):
    def deparse():
        if tuple(ordering) == tuple(range(len(modes))):
            return "".join(m.attrs["character"] for m in modes)
        return "".join(m.attrs["character"] + str(o) for m, o in zip(modes, ordering))

    return Obj("Format", modes=tuple(modes), ordering=tuple(ordering), order=len(modes), deparse=deparse)


def make_tensor(label, modes, ordering):
    n = len(modes)
    fmt = make_format(modes, ordering)
    return Obj(
        "Tensor",
        label=label,
        order=n,
        dimensions=tuple(Sym(f"{label}.dim{d}") for d in range(n)),
        format=fmt,
        modes=tuple(modes),
        mode_ordering=tuple(ordering),
    )


def _concrete(name):
    fn = getattr(itertools, name)

    def call(*args, **kwargs):
        for a in args:
            if not isinstance(a, (tuple, list, range, str, KeysView, dict)):
                raise Uninterpretable(f"itertools.{name} of a symbolic sequence")
        return tuple(fn(*args, **kwargs))

    return call


ITERTOOLS = Obj("module", **{n: _concrete(n) for n in ("zip_longest", "chain", "pairwise", "product", "permutations", "combinations")})


class Evaluator:
    def __init__(self, func_node: ast.FunctionDef, assumptions, globals_=None):
        self.fn = func_node
        self.assume = dict(assumptions)  # (repr lhs, repr rhs) -> bool (are they equal?)
        self.globals = dict(globals_ or {})
        self.facts = []  # (fresh variable, lo, hi, what) for every abstract iteration of a symbolic range / list
        self.nfresh = 0

    # ---- expressions -----------------------------------------------------------------------------
    def ev(self, e, env):
        if isinstance(e, ast.Constant):
            return e.value
        if isinstance(e, ast.Name):
            if e.id in env:
                return env[e.id]
            if e.id in self.globals:
                return self.globals[e.id]
            if e.id == "Mode":
                return MODE
            if e.id == "itertools":
                return ITERTOOLS
            if e.id in ("Tensor", "Real", "NotImplemented", "ValueError", "TypeError", "NotImplementedError", "object", "int", "float", "str", "bool", "list", "tuple", "dict", "Integral", "Number"):
                return NOT_IMPLEMENTED if e.id == "NotImplemented" else class_obj(e.id)
            raise Uninterpretable(f"name {e.id}")
        if isinstance(e, ast.Attribute):
            v = self.ev(e.value, env)
            if isinstance(v, Obj) and e.attr in v.attrs:
                return v.attrs[e.attr]
            if isinstance(v, Obj) and e.attr in v.attrs.get("__methods__", {}):
                m = v.attrs["__methods__"][e.attr]
                if any(ast.unparse(d) == "property" for d in m.decorator_list):
                    return self.run_function(m, [v], {}, {})
                return ("boundmethod", v, m)
            if isinstance(v, Obj) and v.tag == "Class" and v.attrs.get("name") == "Tensor" and e.attr == "from_lol":
                return ("builtin", "Tensor.from_lol")
            if isinstance(v, ast.FunctionDef) and e.attr == "__wrapped__":
                return v  # decorators (lru_cache, wraps) do not change what the function computes
            if isinstance(v, str) and e.attr == "join":
                return ("strjoin", v)
            if isinstance(v, dict) and e.attr in ("keys", "values", "items", "get", "setdefault", "pop", "update", "copy"):
                return ("dictmethod", v, e.attr)
            if isinstance(v, list) and e.attr == "append":
                return ("listappend", v)
            if isinstance(v, list) and e.attr == "extend":
                return ("listextend", v)
            if isinstance(v, (tuple, list)) and e.attr in ("index", "count"):
                return getattr(v, e.attr)
            if isinstance(v, (set, frozenset)) and e.attr in ("update", "add", "intersection", "union", "difference", "pop", "issubset", "copy"):
                return ("setmethod", v, e.attr)
            if isinstance(v, Obj) and v.tag == "Class" and v.attrs.get("name") == "object" and e.attr == "__setattr__":
                return ("setattr",)
            if v is None or isinstance(v, (bool, int, float)) or (isinstance(v, Obj) and v.attrs.get("__plain__")):
                raise Raised("AttributeError")  # what Python does for a number or None
            raise Uninterpretable(f"attribute {ast.unparse(e)}")
        if isinstance(e, ast.Subscript):
            v = self.ev(e.value, env)
            if isinstance(e.slice, ast.Slice):
                lo = self.ev(e.slice.lower, env) if e.slice.lower is not None else None
                hi = self.ev(e.slice.upper, env) if e.slice.upper is not None else None
                st = self.ev(e.slice.step, env) if e.slice.step is not None else None
                if isinstance(v, SymList) and st is None:
                    return v.slice(lo, hi)
                if isinstance(v, (tuple, list, str)):
                    return v[lo:hi:st]
                raise Uninterpretable(f"slice {ast.unparse(e)}")
            i = self.ev(e.slice, env)
            if isinstance(v, SymList) and is_num(i):
                return v.elem(i)
            if isinstance(v, (tuple, list)) and isinstance(i, Poly) and i.is_const():
                i = i.value()
            if isinstance(v, dict):
                ek = self.dict_find(v, i)
                if ek is not _MISSING:
                    return v[ek]
                raise Raised("KeyError")
            if isinstance(v, (tuple, list, str)) and isinstance(i, int):
                try:
                    return v[i]
                except IndexError as ex:
                    raise Uninterpretable(f"index out of range in {ast.unparse(e)}") from ex
            if isinstance(v, Sym):
                return Sym(f"{v!r}[{i!r}]")
            raise Uninterpretable(f"subscript {ast.unparse(e)}")
        if isinstance(e, ast.Dict):
            out = {}
            for k, v in zip(e.keys, e.values):
                if k is None:
                    d = self.ev(v, env)
                    if not isinstance(d, dict):
                        raise Uninterpretable("** of a non-dict")
                    out.update(d)
                else:
                    out[self.ev(k, env)] = self.ev(v, env)
            return out
        if isinstance(e, ast.DictComp):
            out = {}
            g = e.generators[0]
            for x in self.iterate(self.ev(g.iter, env), g.iter):
                env2 = dict(env)
                self.bind(g.target, x, env2)
                if all(self.truth(self.ev(c, env2)) for c in g.ifs):
                    out[self.ev(e.key, env2)] = self.ev(e.value, env2)
            return out
        if isinstance(e, (ast.Tuple, ast.List, ast.Set)):
            items = []
            for x in e.elts:
                if isinstance(x, ast.Starred):
                    items.extend(self.iterate(self.ev(x.value, env), x.value))
                else:
                    items.append(self.ev(x, env))
            if isinstance(e, ast.Tuple):
                return tuple(items)
            if isinstance(e, ast.List):
                return items
            try:
                return set(items)
            except TypeError as ex:
                raise Uninterpretable(f"set of unhashable model values in {ast.unparse(e)}") from ex
        if isinstance(e, ast.SetComp):
            try:
                return set(self.comp(e, env))
            except TypeError as ex:
                raise Uninterpretable("set comprehension of unhashable model values") from ex
        if isinstance(e, ast.JoinedStr):
            out = ""
            for v in e.values:
                if isinstance(v, ast.Constant):
                    out += v.value
                else:
                    x = self.ev(v.value, env)
                    out += str(x) if isinstance(x, (str, int, float)) else repr(x)
            return out
        if isinstance(e, ast.BinOp):
            return self.binop(e, self.ev(e.left, env), self.ev(e.right, env))
        return self.ev2(e, env)

    def dict_find(self, d, k):
        """The key of d that equals k (symbolic keys are compared through equal(), which may fork)."""
        symbolic = isinstance(k, Poly) or any(isinstance(x, Poly) for x in d)
        if not symbolic:
            return k if k in d else _MISSING
        for ek in list(d.keys()):
            if self.truth(self.equal(ek, k)):
                return ek
        return _MISSING

    def fresh(self, prefix):
        self.nfresh += 1
        return f"{prefix}{self.nfresh}"

    def poly_compare(self, op, l, r):
        if isinstance(op, (ast.Gt, ast.GtE)):
            l, r = r, l
            op = ast.Lt() if isinstance(op, ast.Gt) else ast.LtE()
        d = l - r
        if d.is_const():
            v = d.value()
            return {ast.Eq: v == 0, ast.NotEq: v != 0, ast.Lt: v < 0, ast.LtE: v <= 0}[type(op)]
        if isinstance(op, (ast.Eq, ast.NotEq)):
            # canonical sign: the representation whose text is smaller
            dd = d if repr(d) <= repr(-d) else -d
            key = ("poly", repr(dd), "==0")
            POLY_OF_KEY[key] = dd
            if key not in self.assume:
                raise Fork(key)
            return self.assume[key] if isinstance(op, ast.Eq) else not self.assume[key]
        key = ("poly", repr(d), "<0" if isinstance(op, ast.Lt) else "<=0")
        POLY_OF_KEY[key] = d
        if key not in self.assume:
            raise Fork(key)
        return self.assume[key]

    def binop(self, e, l, r):
        if isinstance(e.op, ast.Add) and isinstance(l, float) and l == 0.0 and isinstance(r, Poly):
            return r
        if isinstance(e.op, ast.Add) and isinstance(r, float) and r == 0.0 and isinstance(l, Poly):
            return l
        if (isinstance(l, Poly) or isinstance(r, Poly)) and is_num(l) and is_num(r):
            if isinstance(e.op, ast.Add):
                return Poly.of(l) + Poly.of(r)
            if isinstance(e.op, ast.Sub):
                return Poly.of(l) - Poly.of(r)
            if isinstance(e.op, ast.Mult):
                return Poly.of(l) * Poly.of(r)
            raise Uninterpretable(f"operator on symbolic integers in {ast.unparse(e)}")
        if True:
            if isinstance(e.op, ast.Add) and isinstance(l, str) and isinstance(r, str):
                return l + r
            if isinstance(e.op, ast.Add) and isinstance(l, (tuple, int)) and type(l) is type(r):
                return l + r
            if isinstance(e.op, ast.Mult) and isinstance(l, (str, tuple, list)) and isinstance(r, int):
                return l * r
            if isinstance(e.op, ast.Sub) and isinstance(l, int) and isinstance(r, int):
                return l - r
            if isinstance(e.op, ast.BitOr) and isinstance(l, dict) and isinstance(r, dict):
                return {**l, **r}
            if isinstance(l, (set, frozenset)) and isinstance(r, (set, frozenset)):
                if isinstance(e.op, ast.BitOr):
                    return set(l) | set(r)
                if isinstance(e.op, ast.BitAnd):
                    return set(l) & set(r)
                if isinstance(e.op, ast.Sub):
                    return set(l) - set(r)
            num = lambda x: isinstance(x, (int, float)) and not isinstance(x, bool)  # noqa: E731
            if num(l) and num(r):
                if isinstance(e.op, ast.Add):
                    return l + r
                if isinstance(e.op, ast.Sub):
                    return l - r
                if isinstance(e.op, ast.Mult):
                    return l * r
                if isinstance(e.op, ast.FloorDiv) and r != 0:
                    return l // r
                if isinstance(e.op, ast.Mod) and r != 0:
                    return l % r
            if isinstance(l, Sym) or isinstance(r, Sym):
                # opaque arithmetic on opaque values stays opaque
                return Sym(f"({l!r} {type(e.op).__name__} {r!r})")
            raise Uninterpretable(f"binop {ast.unparse(e)}")

    def ev2(self, e, env):
        if isinstance(e, ast.BoolOp):
            if isinstance(e.op, ast.And):
                v = True
                for x in e.values:
                    v = self.truth(self.ev(x, env))
                    if not v:
                        return False
                return True
            for x in e.values:
                if self.truth(self.ev(x, env)):
                    return True
            return False
        if isinstance(e, ast.UnaryOp) and isinstance(e.op, ast.Not):
            return not self.truth(self.ev(e.operand, env))
        if isinstance(e, ast.UnaryOp) and isinstance(e.op, (ast.USub, ast.UAdd)):
            v = self.ev(e.operand, env)
            if isinstance(v, Poly):
                return -v if isinstance(e.op, ast.USub) else v
            if isinstance(v, (int, float)) and not isinstance(v, bool):
                return -v if isinstance(e.op, ast.USub) else v
            raise Uninterpretable(f"unary minus of {ast.unparse(e.operand)}")
        if isinstance(e, ast.Compare) and len(e.ops) > 1:
            left = e.left
            for op_, right in zip(e.ops, e.comparators):
                if not self.truth(self.ev(ast.Compare(left=left, ops=[op_], comparators=[right]), env)):
                    return False
                left = right
            return True
        if isinstance(e, ast.Compare) and len(e.ops) == 1:
            l, r = self.ev(e.left, env), self.ev(e.comparators[0], env)
            op = e.ops[0]
            if (isinstance(l, Poly) or isinstance(r, Poly)) and is_num(l) and is_num(r) and isinstance(op, (ast.Eq, ast.NotEq, ast.Lt, ast.LtE, ast.Gt, ast.GtE)):
                return self.poly_compare(op, Poly.of(l), Poly.of(r))
            if isinstance(op, (ast.Eq, ast.NotEq)):
                eq = self.equal(l, r)
                return eq if isinstance(op, ast.Eq) else not eq
            if isinstance(op, (ast.In, ast.NotIn)):
                if isinstance(r, dict):
                    found = self.dict_find(r, l) is not _MISSING
                else:
                    found = any(self.truth(self.equal(l, x)) for x in self.iterate(r, e.comparators[0]))
                return found if isinstance(op, ast.In) else not found
            if isinstance(op, (ast.Lt, ast.LtE, ast.Gt, ast.GtE)) and ((isinstance(l, (int, float)) and isinstance(r, (int, float))) or (isinstance(l, str) and isinstance(r, str)) or (isinstance(l, tuple) and isinstance(r, tuple) and all(isinstance(x, (int, str)) for x in l + r))):
                return {ast.Lt: l < r, ast.LtE: l <= r, ast.Gt: l > r, ast.GtE: l >= r}[type(op)]
            if isinstance(op, (ast.Is, ast.IsNot)):
                same = l is r
                if isinstance(l, Obj) and isinstance(r, Obj) and l.tag == r.tag == "Class":
                    same = l.attrs.get("name") == r.attrs.get("name")
                return same if isinstance(op, ast.Is) else not same
            raise Uninterpretable(f"compare {ast.unparse(e)}")
        if isinstance(e, ast.NamedExpr) and isinstance(e.target, ast.Name):
            env[e.target.id] = self.ev(e.value, env)
            return env[e.target.id]
        if isinstance(e, ast.IfExp):
            return self.ev(e.body, env) if self.truth(self.ev(e.test, env)) else self.ev(e.orelse, env)
        if isinstance(e, (ast.GeneratorExp, ast.ListComp)):
            return self.comp(e, env)
        if isinstance(e, ast.Call):
            return self.call(e, env)
        if isinstance(e, ast.Yield):
            env.setdefault("__yields__", []).append(self.ev(e.value, env) if e.value is not None else None)
            return None
        if isinstance(e, ast.YieldFrom):
            env.setdefault("__yields__", []).extend(self.iterate(self.ev(e.value, env), e.value))
            return None
        raise Uninterpretable(f"expression {ast.unparse(e)}")

    def truth(self, v):
        if isinstance(v, bool):
            return v
        if v is None:
            return False
        if isinstance(v, (str, tuple, list, int, float, set, frozenset, dict)):
            return bool(v)
        if isinstance(v, GenResult):
            return bool(v.items)
        if isinstance(v, Obj) and v.tag in ("match", "pattern", "Success", "Failure", "struct", "cdata"):
            return True  # plain objects without __bool__/__len__ are true
        if isinstance(v, Sym):
            # an opaque number used as a condition: it may be zero or not
            key = ("truthy", repr(v))
            if key not in self.assume:
                raise Fork(key)
            return self.assume[key]
        if isinstance(v, Poly):
            if v.is_const():
                return v.value() != 0
            return not self.poly_compare(ast.Eq(), v, Poly.const(0))
        raise Uninterpretable(f"truth of {v!r}")

    def equal(self, l, r):
        if isinstance(l, KeysView) or isinstance(r, KeysView):
            if isinstance(l, (KeysView, set, frozenset)) and isinstance(r, (KeysView, set, frozenset)):
                try:
                    return set(l) == set(r)  # views compare as sets, whatever the insertion orders
                except TypeError as ex:
                    raise Uninterpretable("set comparison of unhashable model values") from ex
            return False
        if (isinstance(l, Poly) or isinstance(r, Poly)) and is_num(l) and is_num(r):
            return self.poly_compare(ast.Eq(), Poly.of(l), Poly.of(r))
        if isinstance(l, Poly) or isinstance(r, Poly):
            return False
        if isinstance(l, Sym) or isinstance(r, Sym):
            if l is r:
                return True
            key = tuple(sorted((repr(l), repr(r))))
            if key in self.assume:
                return self.assume[key]
            raise Fork(key)
        if isinstance(l, tuple) and isinstance(r, tuple):
            if len(l) != len(r):
                return False
            return all(self.equal(a, b) for a, b in zip(l, r))
        if isinstance(l, Obj) and isinstance(r, Obj) and l.tag == r.tag and l.attrs.get("__structural__"):
            return all(self.equal(l.attrs[k], r.attrs.get(k)) for k in l.attrs if not callable(l.attrs[k]))
        if isinstance(l, Obj) or isinstance(r, Obj):
            return l is r
        return l == r

    def comp(self, e, env):
        out = []

        def rec(gens, env):
            if not gens:
                out.append(self.ev(e.elt, env))
                return
            g = gens[0]
            it = self.iterate(self.ev(g.iter, env), g.iter)
            for x in it:
                env2 = dict(env)
                self.bind(g.target, x, env2)
                if all(self.truth(self.ev(c, env2)) for c in g.ifs):
                    rec(gens[1:], env2)

        rec(e.generators, env)
        return tuple(out)

    def iterate(self, v, node):
        if hasattr(v, "symiter"):
            return v.symiter(self)
        if isinstance(v, GenResult):
            return list(v.items)
        if isinstance(v, Obj) and v.tag == "iterator":
            return list(v.attrs["items"])
        if isinstance(v, Obj) and "__iter__" in v.attrs.get("__methods__", {}):
            return self.iterate(self.run_function(v.attrs["__methods__"]["__iter__"], [v], {}, {}), node)
        if isinstance(v, SymRange):
            # one abstract iteration with a fresh variable lo <= r < hi (the body must not carry state between
            # iterations; the callers of this feature check what they need from the recorded fact)
            r = self.fresh("r")
            self.facts.append((r, v.lo, v.hi, "range"))
            return [Poly.atom(r)]
        if isinstance(v, SymList):
            k = self.fresh("k")
            self.facts.append((k, v.lo, v.hi, v.name))
            return [Poly.atom(f"{v.name}[{k}]")]
        if isinstance(v, (tuple, list, range)):
            return list(v)
        if isinstance(v, str):
            return list(v)
        if isinstance(v, (set, frozenset)):
            return sorted(v, key=repr)
        if isinstance(v, dict):
            return list(v.keys())
        raise Uninterpretable(f"iteration over {ast.unparse(node) if isinstance(node, ast.AST) else node}")

    def bind(self, target, value, env):
        if isinstance(target, ast.Name):
            env[target.id] = value
        elif isinstance(target, ast.Subscript):
            d = self.ev(target.value, env)
            k = self.ev(target.slice, env)
            if not isinstance(d, (dict, list)):
                raise Uninterpretable(f"item assignment on {ast.unparse(target.value)}")
            if isinstance(d, dict):
                ek = self.dict_find(d, k)
                d[k if ek is _MISSING else ek] = value
            else:
                d[k] = value
        elif isinstance(target, ast.Attribute):
            o = self.ev(target.value, env)
            if not isinstance(o, Obj):
                raise Uninterpretable(f"attribute assignment on {ast.unparse(target.value)}")
            o.attrs[target.attr] = value
        elif isinstance(target, (ast.Tuple, ast.List)):
            if not isinstance(value, (tuple, list)):
                raise Uninterpretable("tuple unpacking")
            stars = [i for i, t in enumerate(target.elts) if isinstance(t, ast.Starred)]
            if stars:
                i = stars[0]
                after = len(target.elts) - i - 1
                if len(value) < len(target.elts) - 1:
                    raise Raised("ValueError")
                parts = list(value[:i]) + [list(value[i : len(value) - after])] + list(value[len(value) - after :])
                for t, v in zip(target.elts, parts):
                    self.bind(t.value if isinstance(t, ast.Starred) else t, v, env)
                return
            if len(value) != len(target.elts):
                raise Uninterpretable("tuple unpacking")
            for t, v in zip(target.elts, value):
                self.bind(t, v, env)
        else:
            raise Uninterpretable(f"assignment target {ast.unparse(target)}")

    def call(self, e, env):
        fn = e.func
        args = []
        for a in e.args:
            if isinstance(a, ast.Starred):
                args.extend(self.iterate(self.ev(a.value, env), a.value))
            else:
                args.append(self.ev(a, env))
        kwargs = {}
        for k in e.keywords:
            if k.arg is None:
                kwargs.update(self.ev(k.value, env))
            else:
                kwargs[k.arg] = self.ev(k.value, env)
        if isinstance(fn, ast.Name):
            name = fn.id
            if name in env and isinstance(env[name], ast.FunctionDef):
                return self.run_function(env[name], args, kwargs, env)
            if name in env and callable(env[name]) and not isinstance(env[name], Obj):
                return env[name](*args, **kwargs)
            if name in self.globals and isinstance(self.globals[name], ast.FunctionDef):
                return self.run_function(self.globals[name], args, kwargs, {})
            if name in self.globals and callable(self.globals[name]):
                return self.globals[name](*args, **kwargs)
            if name == "range":
                if any(isinstance(a, Poly) for a in args) and len(args) in (1, 2):
                    return SymRange(0, args[0]) if len(args) == 1 else SymRange(args[0], args[1])
                return tuple(range(*args))
            if name == "len":
                if isinstance(args[0], SymList):
                    return args[0].length()
                if isinstance(args[0], GenResult):
                    return len(args[0].items)
                return len(args[0])
            if name in ("list", "tuple") and args and isinstance(args[0], SymList):
                return args[0]
            if name == "zip" and any(isinstance(a, (SymRange, SymList)) for a in args):
                if not all(isinstance(a, (SymRange, SymList)) for a in args):
                    raise Uninterpretable("zip of a symbolic and a concrete sequence")
                lens = [a.hi - a.lo for a in args]
                if any(n != lens[0] for n in lens):
                    raise Uninterpretable(f"zip of sequences whose lengths {lens!r} are not provably equal")
                return SymZip(list(args))
            if name == "zip":
                if kwargs.get("strict") and len({len(a) for a in args}) > 1:
                    raise Raised("ValueError")
                return tuple(zip(*args))
            if name == "enumerate":
                return tuple(enumerate(args[0]))
            if name == "tuple":
                return tuple(self.iterate(args[0], e)) if args else ()
            if name == "list":
                return list(self.iterate(args[0], e)) if args else []
            if name in ("set", "frozenset"):
                return set(self.iterate(args[0], e)) if args else set()
            if name == "iter":
                return Obj("iterator", items=list(self.iterate(args[0], e)))
            if name == "next":
                it = args[0]
                if isinstance(it, Obj) and it.tag == "iterator":
                    if it.attrs["items"]:
                        return it.attrs["items"].pop(0)
                    if len(args) > 1:
                        return args[1]
                    raise Raised("StopIteration")
                raise Uninterpretable("next of a non-iterator")
            if name in ("any", "all"):
                vals = [self.truth(x) for x in self.iterate(args[0], e)]
                return any(vals) if name == "any" else all(vals)
            if name in ("min", "max") and args and all(isinstance(x, int) for x in self.iterate(args[0], e)):
                return (min if name == "min" else max)(self.iterate(args[0], e))
            if name == "dict":
                return dict(args[0]) if args else dict(kwargs)
            if name == "type":
                return class_obj(args[0].tag if isinstance(args[0], Obj) else type(args[0]).__name__)
            if name == "reversed":
                return tuple(reversed(args[0]))
            if name == "sorted":
                items = list(self.iterate(args[0], e))
                if any(isinstance(x, Poly) for x in items):
                    out = []
                    for x in items:  # insertion sort; every comparison of symbolic items forks
                        pos = len(out)
                        for j, y in enumerate(out):
                            if self.poly_compare(ast.Lt(), Poly.of(x), Poly.of(y)):
                                pos = j
                                break
                        out.insert(pos, x)
                    return out
                return sorted(items)
            if name == "str":
                return str(args[0])
            if name == "float":
                return args[0] if isinstance(args[0], (Obj, Poly)) else float(args[0])
            if name == "int" and len(args) == 1:
                return args[0] if isinstance(args[0], Poly) else int(args[0])
            if name == "bool" and len(args) == 1:
                return self.truth(args[0])
            if name == "hasattr" and isinstance(args[0], Obj) and "__methods__" in args[0].attrs:
                return args[1] in args[0].attrs or args[1] in args[0].attrs["__methods__"]
            if name == "isinstance":
                v, c = args
                classes = c if isinstance(c, tuple) else (c,)
                res = False
                for c_ in classes:
                    cname = c_.attrs.get("name") if isinstance(c_, Obj) else None
                    if cname is None:
                        raise Uninterpretable(f"isinstance {ast.unparse(e)}")
                    if isinstance(v, Obj) and (v.tag == cname or cname in v.attrs.get("__bases__", ())):
                        res = True
                    if cname in ("Real", "float", "int", "Number", "Integral") and isinstance(v, (int, float)) and not isinstance(v, bool):
                        if cname not in ("int", "Integral") or isinstance(v, int):
                            res = True
                    if cname in ("Real", "int", "Number", "Integral") and isinstance(v, Poly):
                        res = True  # a symbolic integer
                    if cname == "str" and isinstance(v, str):
                        res = True
                    if cname in ("list", "tuple", "dict") and type(v).__name__ == cname:
                        res = True
                return res
            if name in ("evaluate_tensora", "evaluate", "evaluate_cffi", "allocate_taco_structure", "take_ownership_of_arrays"):
                return Call(name, args, kwargs)
            if name == "Tensor":
                return Obj("Tensor", label="output", cffi_tensor=args[0] if args else None)
            if name in ("ValueError", "TypeError", "NotImplementedError"):
                return Obj("Exception", name=name)
            if name == "object" and not args:
                return Obj("object")
            raise Uninterpretable(f"call of {name}")
        f = self.ev(fn, env)
        if isinstance(f, tuple) and f[0] == "boundmethod":
            return self.run_function(f[2], [f[1], *args], kwargs, {})
        if isinstance(f, tuple) and f[0] == "strjoin":
            items = args[0]
            if not all(isinstance(x, str) for x in items):
                raise Uninterpretable("join of non-strings")
            return f[1].join(items)
        if isinstance(f, tuple) and f[0] == "dictmethod":
            d, m = f[1], f[2]
            if m == "keys":
                return KeysView(d.keys())
            if m == "values":
                return tuple(d.values())
            if m == "items":
                return KeysView(d.items())
            if m == "get":
                ek = self.dict_find(d, args[0])
                return d[ek] if ek is not _MISSING else (args[1] if len(args) > 1 else None)
            if m == "setdefault":
                ek = self.dict_find(d, args[0])
                if ek is not _MISSING:
                    return d[ek]
                d[args[0]] = args[1] if len(args) > 1 else None
                return d[args[0]]
            if m == "pop":
                return d.pop(*args)
            if m == "update":
                d.update(*args, **kwargs)
                return None
            if m == "copy":
                return dict(d)
        if isinstance(f, tuple) and f[0] == "setmethod":
            st, m = f[1], f[2]
            if m == "update":
                for a in args:
                    st.update(self.iterate(a, e))
                return None
            if m == "add":
                st.add(args[0])
                return None
            if m == "pop":
                if not st:
                    raise Raised("KeyError")
                x = sorted(st, key=repr)[0]
                st.discard(x)
                return x
            if m == "copy":
                return set(st)
            other = set(self.iterate(args[0], e)) if args else set()
            if m == "intersection":
                return set(st) & other
            if m == "union":
                return set(st) | other
            if m == "difference":
                return set(st) - other
            if m == "issubset":
                return set(st) <= other
        if isinstance(f, tuple) and f[0] == "setattr":
            obj, name_, val = args
            if isinstance(obj, Obj):
                obj.attrs[name_] = val
                return None
            raise Uninterpretable("object.__setattr__ on a non-object")
        if isinstance(f, tuple) and f[0] == "listappend":
            f[1].append(args[0])
            return None
        if isinstance(f, tuple) and f[0] == "listextend":
            f[1].extend(self.iterate(args[0], e))
            return None
        if isinstance(f, tuple) and f[0] == "builtin" and f[1] == "Tensor.from_lol":
            return make_tensor("scalar", (), ())
        if callable(f):
            return f(*args, **kwargs)
        raise Uninterpretable(f"call {ast.unparse(e)}")

    def match_pattern(self, pat, subject, env):
        if isinstance(pat, ast.MatchValue):
            return self.truth(self.equal(subject, self.ev(pat.value, env)))
        if isinstance(pat, ast.MatchSingleton):
            return subject is pat.value
        if isinstance(pat, ast.MatchAs):
            if pat.pattern is not None and not self.match_pattern(pat.pattern, subject, env):
                return False
            if pat.name is not None:
                env[pat.name] = subject
            return True
        if isinstance(pat, ast.MatchOr):
            return any(self.match_pattern(p_, subject, env) for p_ in pat.patterns)
        if isinstance(pat, ast.MatchSequence):
            if not isinstance(subject, (tuple, list)):
                return False
            if any(isinstance(p_, ast.MatchStar) for p_ in pat.patterns):
                raise Uninterpretable("starred sequence pattern")
            if len(pat.patterns) != len(subject):
                return False
            return all(self.match_pattern(p_, x, env) for p_, x in zip(pat.patterns, subject))
        if isinstance(pat, ast.MatchClass) and (pat.patterns or pat.kwd_patterns):
            cname = ast.unparse(pat.cls).split(".")[-1]
            if not isinstance(subject, Obj):
                return False
            if not (subject.tag == cname or cname in subject.attrs.get("__bases__", ())):
                return False
            margs = subject.attrs.get("__match_args__")
            if pat.patterns and (margs is None or len(pat.patterns) > len(margs)):
                raise Uninterpretable(f"match pattern {ast.unparse(pat)}: positional fields of {cname} unknown")
            for p_, field in zip(pat.patterns, margs or ()):
                if not self.match_pattern(p_, subject.attrs[field], env):
                    return False
            for field, p_ in zip(pat.kwd_attrs, pat.kwd_patterns):
                if field not in subject.attrs or not self.match_pattern(p_, subject.attrs[field], env):
                    return False
            return True
        if isinstance(pat, ast.MatchClass) and not pat.patterns and not pat.kwd_patterns:
            cname = ast.unparse(pat.cls).split(".")[-1]
            if cname in ("int", "float", "str", "bool"):
                return type(subject).__name__ == cname or (cname == "int" and isinstance(subject, int) and not isinstance(subject, bool))
            return isinstance(subject, Obj) and (subject.tag == cname or cname in subject.attrs.get("__bases__", ()))
        raise Uninterpretable(f"match pattern {ast.unparse(pat)}")

    def run_function(self, node, args, kwargs, outer):
        env = dict(outer)
        params = [a.arg for a in list(getattr(node.args, "posonlyargs", [])) + list(node.args.args)]
        defaults = node.args.defaults
        for p, dflt in zip(params[len(params) - len(defaults):], defaults):
            env[p] = self.ev(dflt, outer)
        for a, dflt in zip(node.args.kwonlyargs, node.args.kw_defaults):
            if dflt is not None:
                env[a.arg] = self.ev(dflt, outer)
        for p, a in zip(params, args):
            env[p] = a
        if node.args.vararg is not None:
            env[node.args.vararg.arg] = tuple(args[len(params):])
        if node.args.kwarg is not None:
            env[node.args.kwarg.arg] = dict(kwargs)
        else:
            env.update(kwargs)
        is_gen = any(isinstance(x, (ast.Yield, ast.YieldFrom)) for x in _own_nodes(node))
        if is_gen:
            env["__yields__"] = []
        try:
            self.block(node.body, env)
        except Returned as r:
            return GenResult(env["__yields__"]) if is_gen else r.value
        return GenResult(env["__yields__"]) if is_gen else None

    # ---- statements ------------------------------------------------------------------------------
    def block(self, stmts, env):
        for s in stmts:
            if isinstance(s, ast.Expr):
                if isinstance(s.value, ast.Constant):
                    continue
                self.ev(s.value, env)
            elif isinstance(s, ast.Assign):
                v = self.ev(s.value, env)
                for t in s.targets:
                    self.bind(t, v, env)
            elif isinstance(s, ast.AnnAssign):
                if s.value is not None:
                    self.bind(s.target, self.ev(s.value, env), env)
            elif isinstance(s, ast.AugAssign) and isinstance(s.target, ast.Name):
                cur = self.ev(s.target, env)
                inc = self.ev(s.value, env)
                if isinstance(cur, list) and isinstance(s.op, ast.Add):
                    cur.extend(self.iterate(inc, s.value))  # in-place, as Python does
                else:
                    env[s.target.id] = self.binop(ast.BinOp(left=s.target, op=s.op, right=s.value), cur, inc)
            elif isinstance(s, ast.FunctionDef):
                env[s.name] = s
            elif isinstance(s, (ast.Import, ast.ImportFrom)):
                continue
            elif isinstance(s, ast.If):
                if self.truth(self.ev(s.test, env)):
                    self.block(s.body, env)
                else:
                    self.block(s.orelse, env)
            elif isinstance(s, ast.For):
                broke = False
                for x in self.iterate(self.ev(s.iter, env), s.iter):
                    self.bind(s.target, x, env)
                    try:
                        self.block(s.body, env)
                    except _Continue:
                        continue
                    except _Break:
                        broke = True
                        break
                if not broke and s.orelse:
                    self.block(s.orelse, env)
            elif isinstance(s, ast.While):
                rounds = 0
                broke = False
                while self.truth(self.ev(s.test, env)):
                    rounds += 1
                    if rounds > LOOP_BOUND:
                        raise LoopCut()
                    try:
                        self.block(s.body, env)
                    except _Continue:
                        continue
                    except _Break:
                        broke = True
                        break
                if not broke and s.orelse:
                    self.block(s.orelse, env)
            elif isinstance(s, ast.Break):
                raise _Break()
            elif isinstance(s, ast.Continue):
                raise _Continue()
            elif isinstance(s, ast.Return):
                raise Returned(self.ev(s.value, env) if s.value is not None else None)
            elif isinstance(s, ast.Raise):
                exc = s.exc.func if isinstance(s.exc, ast.Call) else s.exc
                raise Raised(ast.unparse(exc))
            elif isinstance(s, ast.Pass):
                continue
            elif isinstance(s, ast.Match):
                subject = self.ev(s.subject, env)
                for case in s.cases:
                    if self.match_pattern(case.pattern, subject, env) and (case.guard is None or self.truth(self.ev(case.guard, env))):
                        self.block(case.body, env)
                        break
            elif isinstance(s, ast.Try) and not s.finalbody:
                try:
                    self.block(s.body, env)
                except Raised as r:
                    for h in s.handlers:
                        names = []
                        if h.type is not None:
                            ts = h.type.elts if isinstance(h.type, ast.Tuple) else [h.type]
                            names = [ast.unparse(t).split(".")[-1] for t in ts]
                        if h.type is None or r.exc.split(".")[-1] in names or "Exception" in names:
                            if h.name:
                                env[h.name] = Obj("Exception", name=r.exc)
                            self.block(h.body, env)
                            break
                    else:
                        raise
                else:
                    self.block(s.orelse, env)
            else:
                raise Uninterpretable(f"statement {type(s).__name__}")


def _own_nodes(fnode):
    out = []

    def rec(n):
        for ch in ast.iter_child_nodes(n):
            if isinstance(ch, (ast.FunctionDef, ast.AsyncFunctionDef, ast.Lambda)):
                continue
            out.append(ch)
            rec(ch)

    rec(fnode)
    return out


def explore_ev(func_node, args, kwargs=None, globals_=None, limit=512):
    """Like explore, but yields (assumptions, outcome, evaluator) so that recorded facts are available."""
    work = [{}]
    n = 0
    while work:
        assume = work.pop()
        n += 1
        if n > limit:
            yield assume, ("uninterpretable", "too many paths"), None
            return
        ev = Evaluator(func_node, assume, globals_)
        try:
            v = ev.run_function(func_node, list(args), dict(kwargs or {}), {})
            yield assume, ("return", v), ev
        except Raised as r:
            yield assume, ("raise", r.exc), ev
        except Fork as f:
            for val in (True, False):
                a = dict(assume)
                a[f.key] = val
                work.append(a)
        except LoopCut:
            yield assume, ("cut", None), ev
        except Uninterpretable as u_:
            yield assume, ("uninterpretable", str(u_)), ev
        except RecursionError:
            yield assume, ("uninterpretable", "recursion"), ev


def explore(func_node, args, kwargs=None, globals_=None):
    """Evaluate func_node(*args) over all forks. Yields (assumptions, outcome) where outcome is
    ('return', value) | ('raise', name) | ('uninterpretable', reason)."""
    work = [{}]
    while work:
        assume = work.pop()
        ev = Evaluator(func_node, assume, globals_)
        try:
            v = ev.run_function(func_node, list(args), dict(kwargs or {}), {})
            yield assume, ("return", v)
        except Raised as r:
            yield assume, ("raise", r.exc)
        except KernelEntered as k_:
            yield assume, ("kernel", k_.args_)
        except Fork as f:
            for val in (True, False):
                a = dict(assume)
                a[f.key] = val
                work.append(a)
        except LoopCut:
            yield assume, ("cut", None)
        except Uninterpretable as u_:
            yield assume, ("uninterpretable", str(u_))
        except RecursionError:
            yield assume, ("uninterpretable", "recursion")


def all_formats(order):
    for modes in itertools.product((DENSE, COMPRESSED), repeat=order):
        for ordering in itertools.permutations(range(order)):
            yield modes, ordering
