"""C07: proof by structural induction that peephole(t) is observationally equivalent to t.

The local lemmas are *extracted from the optimiser's source*: every function registered on
peephole_expression / peephole_statement / peephole_assignable is abstractly evaluated into rule
instances (registered class, path condition, returned term). Each instance must be either a
homomorphic rebuild (same class, every field mapped to the optimised/unchanged same field) or a
rewrite that is a valid identity of the IR semantics, decided by normal forms (polynomials over Q,
truth tables, order axioms, a small-step table for statements). Anything the extractor cannot
interpret is an undischarged obligation naming that return statement.
"""

from __future__ import annotations

import ast
import dataclasses
import itertools
from fractions import Fraction

from ..common import AnalysisError
from .core import SourceIndex, import_tensora

MOD = "tensora.ir._peephole"


# ------------------------------------------------------------------------------------------------
# abstract evaluation of a peephole function body
# ------------------------------------------------------------------------------------------------
BUILDERS: dict = {}  # method name of ir.ast.Expression -> IR class it builds (filled by run())
HELPERS: dict = {}  # private single-expression helpers of the peephole module: name -> (params, expr)
CONSTS: dict = {}  # module-level tuples of IR literals: name -> [expr, ...]
SCALARS: dict = {}  # module-level names bound once to a constructor call or literal: name -> expr


def collect_helpers(ix):
    """Module-level functions of the peephole module that are a single `return <expr>` (not dispatch
    implementations) are inlined where called; module-level tuple constants are expanded."""
    HELPERS.clear()
    CONSTS.clear()
    SCALARS.clear()
    tree = ix.module(MOD)
    bound = {}
    for st in tree.body:
        if isinstance(st, (ast.Assign, ast.AnnAssign)) and st.value is not None:
            for tgt in st.targets if isinstance(st, ast.Assign) else [st.target]:
                if isinstance(tgt, ast.Name):
                    bound[tgt.id] = bound.get(tgt.id, 0) + 1
    for st in tree.body:
        if isinstance(st, ast.FunctionDef) and not st.decorator_list:
            body = [b for b in st.body if not (isinstance(b, ast.Expr) and isinstance(b.value, ast.Constant))]
            if len(body) == 1 and isinstance(body[0], ast.Return) and body[0].value is not None and not st.args.kwonlyargs and not st.args.vararg:
                HELPERS[st.name] = ([a.arg for a in st.args.args], body[0].value)
        if isinstance(st, (ast.Assign, ast.AnnAssign)) and st.value is not None and isinstance(st.value, (ast.Tuple, ast.List)):
            tgt = st.targets[0] if isinstance(st, ast.Assign) else st.target
            if isinstance(tgt, ast.Name):
                CONSTS[tgt.id] = list(st.value.elts)
        elif isinstance(st, (ast.Assign, ast.AnnAssign)) and st.value is not None and isinstance(st.value, (ast.Call, ast.Constant)):
            tgt = st.targets[0] if isinstance(st, ast.Assign) else st.target
            if isinstance(tgt, ast.Name) and bound.get(tgt.id) == 1 and not any(isinstance(n, ast.Global) and tgt.id in n.names for n in ast.walk(tree)):
                SCALARS[tgt.id] = st.value


def _flat(op, parts):
    out = []
    for p_ in parts:
        if isinstance(p_, tuple) and p_ and p_[0] == op:
            out.extend(p_[1:])
        else:
            out.append(p_)
    return (op, *out)


def builder_methods(ix):
    """Methods of ir.ast.Expression that are exactly `p = to_expression(p); return Cls(self, p)` (and
    to_expression returns an Expression argument unchanged): calling one on IR operands is the bare
    constructor.  Any other body (e.g. one that regroups literals) is left uninterpreted."""
    tree = ix.module("tensora.ir.ast")
    ident = False
    for fn in tree.body:
        if isinstance(fn, ast.FunctionDef) and fn.name == "to_expression" and len(fn.body) == 1 and isinstance(fn.body[0], ast.Match):
            m = fn.body[0]
            c0 = m.cases[0]
            ident = (
                ast.unparse(m.subject) == fn.args.args[0].arg
                and ast.unparse(c0.pattern) == "Expression()"
                and c0.guard is None
                and len(c0.body) == 1
                and ast.unparse(c0.body[0]) == f"return {fn.args.args[0].arg}"
            )
    out = {}
    if not ident:
        return out
    for cls in tree.body:
        if isinstance(cls, ast.ClassDef) and cls.name == "Expression":
            for fn in cls.body:
                if not isinstance(fn, ast.FunctionDef) or len(fn.args.args) != 2:
                    continue
                me, p = fn.args.args[0].arg, fn.args.args[1].arg
                body = [st for st in fn.body if not (isinstance(st, ast.Expr) and isinstance(st.value, ast.Constant))]
                if len(body) == 2 and ast.unparse(body[0]) == f"{p} = to_expression({p})":
                    body = body[1:]
                if len(body) == 1 and isinstance(body[0], ast.Return) and isinstance(body[0].value, ast.Call):
                    c = body[0].value
                    if isinstance(c.func, ast.Name) and not c.keywords and [ast.unparse(a) for a in c.args] in ([me, p], [me, f"to_expression({p})"]):
                        out[fn.name] = c.func.id
    return out


def term(e, env, ircls):
    if isinstance(e, ast.Call) and isinstance(e.func, ast.Call) and isinstance(e.func.func, ast.Name) and e.func.func.id == "type" and len(e.func.args) == 1 and not e.keywords:
        if term(e.func.args[0], env, ircls) == ("SELF",):
            return ("NEWSELF", tuple(term(a, env, ircls) for a in e.args))
    if isinstance(e, ast.Call) and isinstance(e.func, ast.Name) and e.func.id in HELPERS and not e.keywords and len(e.args) == len(HELPERS[e.func.id][0]):
        params, body = HELPERS[e.func.id]
        env2 = dict(env)
        for p_, a in zip(params, e.args):
            env2[p_] = term(a, env, ircls)
        t = term(body, env2, ircls)
        if t[0] != "?":
            return t
    if isinstance(e, ast.Call) and isinstance(e.func, ast.Attribute) and e.func.attr in BUILDERS and len(e.args) == 1 and not e.keywords:
        recv, arg = term(e.func.value, env, ircls), term(e.args[0], env, ircls)
        if recv[0] not in ("?", "CONST", "LIST") and arg[0] not in ("?", "CONST", "LIST"):
            return ("NEW", BUILDERS[e.func.attr], (recv, arg))
    if isinstance(e, ast.Name):
        if e.id in env:
            return env[e.id]
        if e.id == "self":
            return ("SELF",)
        if e.id in SCALARS:
            t = term(SCALARS[e.id], {}, ircls)
            if t[0] != "?":
                return t
        return ("?", e.id)
    if isinstance(e, ast.Attribute) and isinstance(e.value, ast.Name) and e.value.id == "self":
        return ("RAW", e.attr)
    if isinstance(e, ast.Attribute) and e.attr == "value":
        inner = term(e.value, env, ircls)
        if inner[0] in ("OPT", "RAW"):
            return ("VALUE", inner[1])
    if isinstance(e, ast.BinOp) and isinstance(e.op, (ast.Add, ast.Sub, ast.Mult)):
        a, b = term(e.left, env, ircls), term(e.right, env, ircls)
        if a[0] == "VALUE" and b[0] == "VALUE":
            return ("ARITH", {ast.Add: "Add", ast.Sub: "Subtract", ast.Mult: "Multiply"}[type(e.op)], a[1], b[1])
    if isinstance(e, ast.Call):
        f = e.func
        if isinstance(f, ast.Name) and f.id.startswith("peephole_") and len(e.args) == 1 and not e.keywords:
            a = term(e.args[0], env, ircls)
            if a[0] == "RAW":
                return ("OPT", a[1], f.id)
            if a[0] == "SELF":
                return ("DELEGATE", f.id)
            if a[0] == "ELEM":
                return ("OPTELEM", a[1], f.id)
            return ("?", ast.unparse(e))
        if isinstance(f, ast.Name) and f.id == "replace" and len(e.args) == 1:
            return (
                "REPLACE",
                term(e.args[0], env, ircls),
                tuple((k.arg, term(k.value, env, ircls)) for k in e.keywords),
            )
        if isinstance(f, ast.Name) and f.id in ircls and not e.keywords:
            args = tuple(term(a, env, ircls) for a in e.args)
            if f.id in ("IntegerLiteral", "FloatLiteral", "BooleanLiteral") and len(args) == 1 and args[0][0] == "CONST":
                return ("LIT", f.id, args[0][1])
            if f.id == "Block" and len(args) == 1 and args[0] == ("LIST", ()):
                return ("EMPTYBLOCK",)
            return ("NEW", f.id, args)
    if isinstance(e, ast.Constant):
        return ("CONST", e.value)
    if isinstance(e, ast.List):
        return ("LIST", tuple(term(x, env, ircls) for x in e.elts))
    return ("?", ast.unparse(e))


def cond(e, env, ircls):
    if isinstance(e, ast.BoolOp):
        return _flat(type(e.op).__name__, [cond(v, env, ircls) for v in e.values])
    if isinstance(e, ast.Call) and isinstance(e.func, ast.Name) and e.func.id in HELPERS and not e.keywords and len(e.args) == len(HELPERS[e.func.id][0]):
        params, body = HELPERS[e.func.id]
        env2 = dict(env)
        for p_, a in zip(params, e.args):
            env2[p_] = term(a, env, ircls)
        return cond(body, env2, ircls)
    if isinstance(e, ast.Compare) and len(e.ops) == 1 and isinstance(e.ops[0], (ast.In, ast.NotIn)):
        rhs = e.comparators[0]
        elts = CONSTS.get(rhs.id) if isinstance(rhs, ast.Name) else list(rhs.elts) if isinstance(rhs, (ast.Tuple, ast.List)) else None
        if elts:
            lhs = term(e.left, env, ircls)
            c = _flat("Or", [("EQ", lhs, term(x, env, ircls)) for x in elts]) if len(elts) > 1 else ("EQ", lhs, term(elts[0], env, ircls))
            return c if isinstance(e.ops[0], ast.In) else ("Not", c)
    if isinstance(e, ast.Compare) and len(e.ops) == 1 and isinstance(e.ops[0], ast.Eq):
        return ("EQ", term(e.left, env, ircls), term(e.comparators[0], env, ircls))
    if isinstance(e, ast.Call) and isinstance(e.func, ast.Name) and e.func.id == "isinstance" and len(e.args) == 2:
        return ("ISINST", term(e.args[0], env, ircls), ast.unparse(e.args[1]))
    if (
        isinstance(e, ast.Call)
        and isinstance(e.func, ast.Attribute)
        and e.func.attr == "is_empty"
        and not e.args
    ):
        return ("EMPTY", term(e.func.value, env, ircls))
    if isinstance(e, ast.UnaryOp) and isinstance(e.op, ast.Not):
        return ("Not", cond(e.operand, env, ircls))
    return ("?", ast.unparse(e))


def filter_map_loop(st, env, ircls):
    """Recognise  for old in self.<f>: x = peephole_statement(old); if isinstance(x, Block) and
    x.is_empty(): pass else: <acc>.append(x)   (or the negated form). Returns (field, acc name)."""
    if not (isinstance(st, ast.For) and isinstance(st.target, ast.Name) and not st.orelse):
        return None
    it = term(st.iter, env, ircls)
    if it[0] != "RAW":
        return None
    body = st.body
    if len(body) != 2 or not isinstance(body[0], ast.Assign) or not isinstance(body[1], ast.If):
        return None
    a, iff = body
    if not (len(a.targets) == 1 and isinstance(a.targets[0], ast.Name)):
        return None
    x = a.targets[0].id
    env2 = dict(env)
    env2[st.target.id] = ("ELEM", it[1])
    v = term(a.value, env2, ircls)
    if v != ("OPTELEM", it[1], "peephole_statement"):
        return None
    env2[x] = ("X",)
    c = cond(iff.test, env2, ircls)
    empty = ("And", ("ISINST", ("X",), "Block"), ("EMPTY", ("X",)))

    def is_append(stmts):
        if len(stmts) != 1 or not isinstance(stmts[0], ast.Expr):
            return None
        call = stmts[0].value
        if (
            isinstance(call, ast.Call)
            and isinstance(call.func, ast.Attribute)
            and call.func.attr == "append"
            and isinstance(call.func.value, ast.Name)
            and len(call.args) == 1
            and isinstance(call.args[0], ast.Name)
            and call.args[0].id == x
        ):
            return call.func.value.id
        return None

    def is_pass(stmts):
        return len(stmts) == 1 and isinstance(stmts[0], ast.Pass)

    if c == empty and is_pass(iff.body):
        acc = is_append(iff.orelse)
        if acc:
            return it[1], acc
    if c == ("Not", empty) and not iff.orelse:
        acc = is_append(iff.body)
        if acc:
            return it[1], acc
    return None


def walk_body(body, env, pc, out, ircls):
    """Append (path condition, result term, source text of the return) for every path."""
    for i, st in enumerate(body):
        if isinstance(st, ast.Assign) and len(st.targets) == 1 and isinstance(st.targets[0], ast.Name):
            env = dict(env)
            env[st.targets[0].id] = term(st.value, env, ircls)
        elif isinstance(st, ast.If):
            c = cond(st.test, env, ircls)
            walk_body(st.body + body[i + 1 :], env, pc + [("+", c)], out, ircls)
            walk_body(st.orelse + body[i + 1 :], env, pc + [("-", c)], out, ircls)
            return
        elif isinstance(st, ast.Return):
            out.append((pc, term(st.value, env, ircls) if st.value is not None else ("NONE",), ast.unparse(st)))
            return
        elif isinstance(st, ast.For):
            fm = filter_map_loop(st, env, ircls)
            if fm is None:
                out.append((pc, ("?", "loop"), ast.unparse(st)[:80]))
                return
            fld, acc = fm
            if env.get(acc) != ("LIST", ()):
                out.append((pc, ("?", "accumulator not initialised to []"), ast.unparse(st)[:80]))
                return
            env = dict(env)
            env[acc] = ("FILTERMAP", fld)
        elif isinstance(st, ast.Expr) and isinstance(st.value, ast.Constant):
            continue
        elif isinstance(st, ast.Pass):
            continue
        elif isinstance(st, ast.Raise):
            out.append((pc, ("RAISE",), ast.unparse(st)[:80]))
            return
        else:
            out.append((pc, ("?", "statement"), ast.unparse(st)[:80]))
            return
    out.append((pc, ("NONE",), "<falls off the end>"))


# ------------------------------------------------------------------------------------------------
# semantic validation
# ------------------------------------------------------------------------------------------------
ARITH = {"Add": lambda a, b: padd(a, b), "Subtract": lambda a, b: padd(a, pscale(b, -1)), "Multiply": lambda a, b: pmul(a, b)}
BOOL = {"And": lambda a, b: a and b, "Or": lambda a, b: a or b}
REFLEXIVE = {
    "Equal": True,
    "GreaterThanOrEqual": True,
    "LessThanOrEqual": True,
    "NotEqual": False,
    "GreaterThan": False,
    "LessThan": False,
}


def padd(a, b):
    out = dict(a)
    for k, v in b.items():
        out[k] = out.get(k, 0) + v
    return {k: v for k, v in out.items() if v}


def pscale(a, c):
    return {k: v * c for k, v in a.items() if v * c}


def pmul(a, b):
    out = {}
    for k1, v1 in a.items():
        for k2, v2 in b.items():
            k = tuple(sorted(k1 + k2))
            out[k] = out.get(k, 0) + v1 * v2
    return {k: v for k, v in out.items() if v}


def pconst(c):
    c = Fraction(c)
    return {(): c} if c else {}


def positive_guards(pc):
    """Disjunctive normal form of the conjunction of the positive conditions on the path: list of
    conjunctions (lists of atoms). Negative conditions are ignored (we prove more)."""
    dnf = [[]]
    for pol, c in pc:
        if pol != "+":
            continue
        alts = dnf_of(c)
        dnf = [a + b for a in dnf for b in alts]
    return dnf


def dnf_of(c):
    if c[0] == "Or":
        out = []
        for x in c[1:]:
            out.extend(dnf_of(x))
        return out
    if c[0] == "And":
        res = [[]]
        for x in c[1:]:
            res = [a + b for a in res for b in dnf_of(x)]
        return res
    return [[c]]


def lit_value(t):
    if t[0] == "LIT":
        return t[1], t[2]
    return None


def validate(cls_name, fields, pc, result, multi_registered):
    """Return None if the rule instance is valid, else a reason."""
    if result[0] == "NEWSELF":
        result = ("NEW", cls_name, result[1])  # type(self)(...): the class at hand, whatever it is
    kind = result[0]
    # ---- homomorphic rebuilds ----
    if kind == "SELF":
        return None
    if kind == "DELEGATE":
        return None  # peephole_x(self): induction through the other dispatcher
    if kind == "REPLACE":
        if result[1] != ("SELF",):
            return "replace() of something other than self"
        for f, v in result[2]:
            if f not in fields:
                return f"replace() sets unknown field {f}"
            if v[0] == "FILTERMAP" and v[1] == f:
                continue
            if not (v[0] in ("OPT", "RAW") and v[1] == f):
                return f"field {f} rebuilt from {v} instead of its own optimised value"
        return None
    folded = kind == "NEW" and result[1] in ("IntegerLiteral", "FloatLiteral") and len(result[2]) == 1 and result[2][0][0] == "ARITH"
    if kind == "NEW" and not folded:
        if result[1] != cls_name:
            return f"rebuilds a {result[1]} for a {cls_name}" + (
                " (function is registered for several classes)" if multi_registered else ""
            )
        if len(result[2]) != len(fields):
            return f"constructor called with {len(result[2])} arguments, class has fields {fields}"
        for f, v in zip(fields, result[2]):
            if not (v[0] in ("OPT", "RAW") and v[1] == f):
                return f"field {f} rebuilt from {v}: operands swapped or replaced"
        return None
    if kind in ("?", "NONE", "RAISE", "CONST", "LIST"):
        return f"uninterpretable result {result}"
    # ---- rewrites ----
    dnf = positive_guards(pc)
    if dnf == [[]]:
        return f"unconditional rewrite of {cls_name} to {result}"
    for conj_ in dnf:
        why = validate_rewrite(cls_name, fields, conj_, result)
        if why:
            return why
    return None


def validate_rewrite(cls_name, fields, atoms, result):
    eqs = [a for a in atoms if a[0] == "EQ"]
    # substitution from guard: field -> literal, or field == field
    subst = {}
    same = []
    for _, a, b in eqs:
        for x, y in ((a, b), (b, a)):
            if x[0] == "OPT" and y[0] == "LIT":
                subst[x[1]] = (y[1], y[2])
        if a[0] == "OPT" and b[0] == "OPT":
            same.append((a[1], b[1]))
    # conjuncts of the guard that cannot be interpreted are dropped: the rewrite is then validated under FEWER
    # assumptions (an extra side condition such as a range check can only make a valid rewrite apply less often)
    atoms = [a for a in atoms if a[0] != "?" and not (a[0] == "EQ" and (a[1][0] == "?" or a[2][0] == "?"))]
    eqs = [a for a in atoms if a[0] == "EQ"]
    if cls_name in ARITH and result[0] == "NEW" and result[1] in ("IntegerLiteral", "FloatLiteral") and len(result[2]) == 1 and result[2][0][0] == "ARITH":
        # literal (op) literal folded by Python arithmetic on the two values
        _, op, fa, fb = result[2][0]
        kinds = {}
        for a in atoms:
            if a[0] == "ISINST" and a[1][0] in ("OPT", "RAW") and a[2] in ("IntegerLiteral", "FloatLiteral"):
                kinds[a[1][1]] = a[2]
        if op != cls_name or (fa, fb) != ("left", "right"):
            return f"{cls_name} of two literals folded as {op}({fa}, {fb})"
        if kinds.get("left") is None or kinds.get("right") is None:
            return f"literal folding without both operands being known literals of one kind (guard {fmt_guard(atoms)})"
        want = "IntegerLiteral" if kinds["left"] == kinds["right"] == "IntegerLiteral" else "FloatLiteral"
        if result[1] != want or kinds["left"] != kinds["right"]:
            return f"{kinds['left']} {cls_name} {kinds['right']} folded into a {result[1]} (must keep the literal kind of same-kind operands)"
        return None
    if cls_name in ARITH:
        sym = {}
        for f in ("left", "right"):
            if f in subst:
                cn, v = subst[f]
                if cn not in ("IntegerLiteral", "FloatLiteral") or isinstance(v, bool):
                    return f"arithmetic guard compares with {cn}"
                sym[f] = pconst(v)
            else:
                sym[f] = {(f,): Fraction(1)}
        for a, b in same:
            if {a, b} == {"left", "right"}:
                sym["right"] = sym["left"]
        orig = ARITH[cls_name](sym["left"], sym["right"])
        if result[0] == "OPT" and result[1] in sym:
            res = sym[result[1]]
        elif result[0] == "LIT" and result[1] in ("IntegerLiteral", "FloatLiteral") and not isinstance(result[2], bool):
            res = pconst(result[2])
        else:
            return f"arithmetic rewrite returns {result}"
        if orig != res:
            return f"{cls_name}: under guard {fmt_guard(atoms)} the original equals {fmt_poly(orig)} but the rewrite returns {fmt_poly(res)}"
        return None
    if cls_name in BOOL:
        fixed = {}
        for f in ("left", "right"):
            if f in subst:
                cn, v = subst[f]
                if cn != "BooleanLiteral":
                    return f"boolean guard compares with {cn}"
                fixed[f] = bool(v)
        operands_same = any({a, b} == {"left", "right"} for a, b in same)
        for L, R in itertools.product((False, True), repeat=2):
            if fixed.get("left", L) != L or fixed.get("right", R) != R:
                continue
            if operands_same and L != R:
                continue  # structurally equal operands have the same value
            orig = BOOL[cls_name](L, R)
            if result[0] == "OPT" and result[1] in ("left", "right"):
                res = L if result[1] == "left" else R
                # the right operand is evaluated by the original only when the left one does not decide
                if result[1] == "right" and "right" not in fixed:
                    decides = (cls_name == "And" and not L) or (cls_name == "Or" and L)
                    if decides:
                        return f"{cls_name}: rewrite evaluates the right operand where the original short-circuits"
            elif result[0] == "LIT" and result[1] == "BooleanLiteral":
                res = bool(result[2])
            else:
                return f"boolean rewrite returns {result}"
            if orig != res:
                return f"{cls_name}: for left={L}, right={R} (guard {fmt_guard(atoms)}) the original is {orig} but the rewrite gives {res}"
        return None
    if cls_name in REFLEXIVE:
        if not any({a, b} == {"left", "right"} for a, b in same):
            return f"comparison rewritten under guard {fmt_guard(atoms)} (only `left == right` is a valid guard)"
        if not (result[0] == "LIT" and result[1] == "BooleanLiteral"):
            return f"reflexive comparison rewritten to {result}"
        if bool(result[2]) != REFLEXIVE[cls_name]:
            return f"{cls_name}(x, x) rewritten to {result[2]}, the order axioms give {REFLEXIVE[cls_name]}"
        return None
    if cls_name in ("Max", "Min"):
        # max(x, x) = min(x, x) = x (also for NaN: both operands are the same NaN)
        if any({a, b} == {"left", "right"} for a, b in same) and result[0] == "OPT" and result[1] in ("left", "right"):
            return None
        if result[0] == "LIT" and not ("left" in subst and "right" in subst):
            # max/min of operands that are not both known literals is one of the operands, never a constant
            return f"{cls_name}: under guard {fmt_guard(atoms)} the original is one of its operands but the rewrite returns the constant {result[2]!r}"
        return f"{cls_name} rewritten to {result} under guard {fmt_guard(atoms)}: not interpretable (no semantic table for this rewrite of {cls_name})"
    if cls_name == "BooleanToInteger":
        if "expression" not in subst or subst["expression"][0] != "BooleanLiteral":
            return f"cast rewritten under guard {fmt_guard(atoms)}"
        want = 1 if subst["expression"][1] else 0
        if result == ("LIT", "IntegerLiteral", want):
            return None
        return f"cast of {subst['expression'][1]} rewritten to {result}"
    empties = {a[1] for a in atoms if a[0] == "EMPTY"}
    insts = {a[1] for a in atoms if a[0] == "ISINST" and a[2] == "Block"}

    def is_empty_block(fld):
        return any(t[0] in ("OPT", "RAW") and t[1] == fld for t in empties & insts)

    if cls_name == "Branch":
        if "condition" in subst and subst["condition"][0] == "BooleanLiteral":
            want = "if_true" if subst["condition"][1] else "if_false"
            if result[0] == "OPT" and result[1] == want:
                return None
            return f"if ({subst['condition'][1]}) rewritten to {result}, small-step semantics give {want}"
        if is_empty_block("if_true") and is_empty_block("if_false") and result == ("EMPTYBLOCK",):
            return None
        if any({a, b} == {"if_true", "if_false"} for a, b in same) and result[0] == "OPT" and result[1] in ("if_true", "if_false"):
            return None  # both arms are the same statement; evaluating a condition has no effect on the state
        return f"Branch rewritten to {result} under guard {fmt_guard(atoms)}"
    if cls_name == "Loop":
        if "condition" in subst and subst["condition"] == ("BooleanLiteral", False) and result == ("EMPTYBLOCK",):
            return None
        if is_empty_block("body") and result == ("EMPTYBLOCK",):
            return None  # sound on states in which the original terminates
        return f"Loop rewritten to {result} under guard {fmt_guard(atoms)}"
    if cls_name == "Assignment":
        if any({a, b} == {"target", "value"} for a, b in same) and result == ("EMPTYBLOCK",):
            return None
        return f"Assignment rewritten to {result} under guard {fmt_guard(atoms)}"
    return f"not interpretable: no semantic table for rewrites of {cls_name} (result {result}, guard {fmt_guard(atoms)})"


def fmt_guard(atoms):
    def t(x):
        if x[0] == "OPT":
            return x[1]
        if x[0] == "LIT":
            return repr(x[2])
        return str(x)

    out = []
    for a in atoms:
        if a[0] == "EQ":
            out.append(f"{t(a[1])} == {t(a[2])}")
        else:
            out.append(str(a))
    return " and ".join(out)


def fmt_poly(p):
    if not p:
        return "0"
    return " + ".join(f"{v}*{'*'.join(k)}" if k else str(v) for k, v in sorted(p.items()))


# ------------------------------------------------------------------------------------------------
# the rule
# ------------------------------------------------------------------------------------------------
def driver_semantics(ix, fd):
    """None if peephole_function_definition returns `self` with body := P^n(self.body), n >= 0, on every path
    (P = peephole_statement, opaque; equality tests on its results fork; `while` loops are followed for
    LOOP_BOUND rounds, longer paths have the same shape by induction)."""
    from . import symeval as S

    G = {}
    for st in ix.module(MOD).body:
        if isinstance(st, ast.FunctionDef) and not st.decorator_list:
            G[st.name] = st
    G["peephole_statement"] = lambda x: S.Sym(f"P({x!r})")
    G["replace"] = lambda obj, **kw: S.Obj(obj.tag, **{**obj.attrs, **kw})
    me = S.Obj("FunctionDefinition", name=S.Sym("name"), parameters=S.Sym("parameters"), return_type=S.Sym("return_type"), body=S.Sym("body"))
    seen = 0
    for _assume, (kind, val) in S.explore(fd, [me], globals_=G):
        if kind == "cut":
            continue
        if kind != "return":
            return f"driver not interpretable: {kind} {val!r}"
        seen += 1
        if not (isinstance(val, S.Obj) and val.tag == "FunctionDefinition"):
            return f"driver returns {val!r}, not a FunctionDefinition"
        for fld in ("name", "parameters", "return_type"):
            if val.attrs.get(fld) is not me.attrs[fld]:
                return f"driver changes the function's {fld}"
        body = repr(val.attrs.get("body"))
        while body.startswith("P(") and body.endswith(")"):
            body = body[2:-1]
        if body != "body":
            return f"driver returns a function whose body is {val.attrs.get('body')!r}, not the optimiser applied to the original body"
    if seen == 0:
        return "driver not interpretable: no path returns"
    return None


def run(ctx):
    ix = SourceIndex(ctx.src)
    import_tensora(ctx.src)
    import tensora.ir._peephole as P
    import tensora.ir.ast as IR

    ircls = {n for n in dir(IR) if isinstance(getattr(IR, n), type)}
    BUILDERS.clear()
    BUILDERS.update(builder_methods(ix))
    collect_helpers(ix)
    dispatchers = {
        "peephole_expression": (P.peephole_expression, IR.Expression),
        "peephole_statement": (P.peephole_statement, IR.Statement),
        "peephole_assignable": (P.peephole_assignable, IR.Assignable),
    }

    def concrete_subclasses(base):
        out = []
        work = [base]
        while work:
            c = work.pop()
            for s in c.__subclasses__():
                work.append(s)
                # dataclass(slots=True) re-creates the class; the pre-slots original lingers in
                # __subclasses__() and must be skipped
                import sys as _sys

                if dataclasses.is_dataclass(s) and getattr(_sys.modules.get(s.__module__), s.__name__, None) is s:
                    out.append(s)
        return sorted(set(out), key=lambda c: c.__name__)

    # exhaustiveness
    r = ctx.rule(
        "C07.exhaustive",
        "every concrete IR class dispatches to a registered peephole implementation",
        min_instances=40,
    )
    for dname, (disp, base) in dispatchers.items():
        default = disp.registry[object]
        for c in concrete_subclasses(base):
            r.instances += 1
            key = f"ir/_peephole.py:{dname}:{c.__name__}"
            if disp.dispatch(c) is default:
                ctx.fail("C07.exhaustive", key, f"{c.__name__} falls through to the raising default of {dname}")
            else:
                ctx.ok("C07.exhaustive", key)

    # rule extraction + validation
    r = ctx.rule(
        "C07.rule-instances",
        "each (registered class, path) of each peephole implementation is a homomorphic rebuild or a valid identity",
        min_instances=40,
    )
    seen_fns = {}
    for dname, (disp, base) in dispatchers.items():
        for c, fn in disp.registry.items():
            if c is object:
                continue
            seen_fns.setdefault(fn, []).append(c)
    for fn, classes in seen_fns.items():
        q = f"{MOD}.{fn.__name__}"
        if q not in ix.funcs:
            raise AnalysisError(f"registered peephole implementation {fn.__name__} not found in the source of {MOD}")
        node = ix.funcs[q].node
        paths = []
        walk_body(node.body, {}, [], paths, ircls)
        # a function registered on an abstract class applies to all its concrete subclasses
        targets = []
        for c in classes:
            if dataclasses.is_dataclass(c):
                targets.append(c)
            else:
                targets.extend(
                    s for s in concrete_subclasses(c) if any(d.dispatch(s) is fn for d, _ in dispatchers.values())
                )
        for c in sorted(set(targets), key=lambda x: x.__name__):
            fields = [f.name for f in dataclasses.fields(c)]
            for pc, result, text in paths:
                r.instances += 1
                key = f"ir/_peephole.py:{fn.__name__}:{c.__name__}:{' '.join(text.split())}:{'&'.join(('' if p == '+' else 'not ') + fmt_cond(cd) for p, cd in pc)}"
                why = validate(c.__name__, fields, pc, result, len(set(targets)) > 1)
                if why:
                    ctx.fail("C07.rule-instances", key, why)
                else:
                    ctx.ok("C07.rule-instances", key)

    # wiring: Module -> every FunctionDefinition -> body; generate_module_tensora returns peephole(module)
    r = ctx.rule("C07.wiring", "optimiser applied to every function body exactly once, result returned", min_instances=3)
    fd = ix.func(f"{MOD}.peephole_function_definition").node
    paths = []
    walk_body(fd.body, {}, [], paths, ircls)
    r.instances += 1
    if len(paths) == 1 and paths[0][1] == ("REPLACE", ("SELF",), (("body", ("OPT", "body", "peephole_statement")),)):
        ctx.ok("C07.wiring", "ir/_peephole.py:peephole_function_definition")
    else:
        # any other driver: evaluated abstractly with peephole_statement as an opaque meaning-preserving map P;
        # every result must be the function with its body replaced by P^n(body) and nothing else changed
        why = driver_semantics(ix, fd)
        if why is None:
            ctx.ok("C07.wiring", "ir/_peephole.py:peephole_function_definition [driver evaluated abstractly]")
        else:
            ctx.fail("C07.wiring", "ir/_peephole.py:peephole_function_definition", why)
    pm = ix.func(f"{MOD}.peephole").node
    r.instances += 1
    ok = False
    body = [s for s in pm.body if not (isinstance(s, ast.Expr) and isinstance(s.value, ast.Constant))]
    if len(body) == 2 and isinstance(body[0], ast.Assign) and isinstance(body[1], ast.Return):
        comp = body[0].value
        ret = body[1].value
        if (
            isinstance(comp, ast.ListComp)
            and len(comp.generators) == 1
            and not comp.generators[0].ifs
            and ast.unparse(comp.generators[0].iter) == "self.definitions"
            and isinstance(comp.elt, ast.Call)
            and ast.unparse(comp.elt.func) == "peephole_function_definition"
            and len(comp.elt.args) == 1
            and ast.unparse(comp.elt.args[0]) == ast.unparse(comp.generators[0].target)
            and isinstance(ret, ast.Call)
            and ast.unparse(ret.func) == "Module"
            and len(ret.args) == 1
            and ast.unparse(ret.args[0]) == ast.unparse(body[0].targets[0])
        ):
            ok = True
    if ok:
        ctx.ok("C07.wiring", "ir/_peephole.py:peephole")
    else:
        ctx.fail("C07.wiring", "ir/_peephole.py:peephole", "peephole(Module) is not `Module([peephole_function_definition(f) for f in self.definitions])`")
    gm = ix.func("tensora.generate._tensora.generate_module_tensora").node
    r.instances += 1
    rets = [n for n in ast.walk(gm) if isinstance(n, ast.Return) and n.value is not None]
    good = [
        n
        for n in rets
        if isinstance(n.value, ast.Call)
        and ast.unparse(n.value.func) == "Success"
        and len(n.value.args) == 1
        and isinstance(n.value.args[0], ast.Call)
        and ast.unparse(n.value.args[0].func) == "peephole"
    ]
    other_success = [
        n for n in rets if isinstance(n.value, ast.Call) and ast.unparse(n.value.func) == "Success" and n not in good
    ]
    if good and not other_success:
        ctx.ok("C07.wiring", "generate/_tensora.py:generate_module_tensora")
    else:
        ctx.fail("C07.wiring", "generate/_tensora.py:generate_module_tensora", "a Success(...) is returned that is not Success(peephole(module))")
    return ix


def fmt_cond(c):
    if c[0] in ("And", "Or"):
        return "(" + f" {c[0].lower()} ".join(fmt_cond(x) for x in c[1:]) + ")"
    if c[0] == "EQ":
        return fmt_guard([c])
    if c[0] == "ISINST":
        return f"isinstance({c[1][1] if len(c[1]) > 1 else c[1]},{c[2]})"
    if c[0] == "EMPTY":
        return f"empty({c[1][1] if len(c[1]) > 1 else c[1]})"
    return str(c)
