"""Shared reporting machinery: rule bookkeeping, findings, known findings, evidence, exit codes.

Exit codes (see DESIGN.md 2.3): 0 = every obligation discharged (or listed known finding),
1 = VIOLATION (unlisted undischarged obligation), 2 = ANALYSIS-ERROR (analyser could not do its job).
"""

from __future__ import annotations

import hashlib
import json
import os
import re
import sys
import time
import traceback
from dataclasses import dataclass, field
from pathlib import Path

VERIF = Path(__file__).resolve().parent.parent
OUT = VERIF / "out"
EVIDENCE = VERIF / "evidence"
KNOWN = VERIF / "known_findings.json"


class AnalysisError(Exception):
    """The analyser could not do its job (vanished anchor, import failure, too few instances)."""


@dataclass
class Finding:
    rule: str
    construct: str  # stable key: qualified construct / problem + statement, never a line number
    message: str
    detail: dict = field(default_factory=dict)

    @property
    def key(self) -> str:
        return f"{self.rule}|{self.construct}"


@dataclass
class RuleStats:
    name: str
    description: str = ""
    instances: int = 0  # constructs examined (call sites, rule instances, kernels, statements)
    obligations: int = 0
    discharged: int = 0
    min_instances: int = 0
    samples: list = field(default_factory=list)
    nontrivial: set = field(default_factory=set)
    nontrivial_extra: int = 0

    def sample(self, s, limit=4):
        if len(self.samples) < limit:
            self.samples.append(s)


class Ctx:
    """One run of one property check."""

    def __init__(self, prop: str, tier: str, src: str, seed: int = 0):
        self.prop = prop
        self.tier = tier
        self.src = src
        self.seed = seed
        self.t0 = time.time()
        self.rules: dict[str, RuleStats] = {}
        self.findings: list[Finding] = []
        self.notes: list[str] = []
        self.extra: dict = {}
        self.assumptions: list[str] = []
        self.explanation = ""

    # ---- rules -------------------------------------------------------------------------------
    def rule(self, name: str, description: str = "", min_instances: int = 0) -> RuleStats:
        r = self.rules.get(name)
        if r is None:
            r = self.rules[name] = RuleStats(name, description, min_instances=min_instances)
        else:
            if description and not r.description:
                r.description = description
            r.min_instances = max(r.min_instances, min_instances)
        return r

    def ok(self, rule: str, construct: str | None = None, n: int = 1):
        r = self.rule(rule)
        r.obligations += n
        r.discharged += n
        if construct is not None:
            r.nontrivial.add(construct)
            r.sample(construct)

    def fail(self, rule: str, construct: str, message: str, **detail):
        r = self.rule(rule)
        r.obligations += 1
        r.nontrivial.add(construct)
        self.findings.append(Finding(rule, construct, message, detail))

    def instance(self, rule: str, n: int = 1):
        self.rule(rule).instances += n

    def merge_stats(self, stats: dict):
        """Merge worker-side rule statistics (plain dicts)."""
        for name, s in stats.items():
            r = self.rule(name)
            r.instances += s.get("instances", 0)
            r.obligations += s.get("obligations", 0)
            r.discharged += s.get("discharged", 0)
            for x in s.get("samples", []):
                r.sample(x)
            r.nontrivial_extra += s.get("nontrivial_n", 0)

    # ---- finishing ---------------------------------------------------------------------------
    def finish(self) -> int:
        known = load_known()
        wall = time.time() - self.t0
        # vanished anchors
        for r in self.rules.values():
            if r.instances < r.min_instances and not getattr(self, "replay", None) and not (getattr(self, "skip_k", False) and r.instances == 0):
                raise AnalysisError(
                    f"rule {r.name}: only {r.instances} instances examined, confirmed minimum is "
                    f"{r.min_instances} (an anchor vanished or the extractor no longer matches)"
                )
        listed: dict[str, list[Finding]] = {}
        unlisted: list[Finding] = []
        undecided: list[Finding] = []
        for f in self.findings:
            k = match_known(known, self.prop, f)
            if k is None and UNDECIDED_RE.search(f.message):
                # the abstract evaluator met a construct it does not model: no verdict, and no violation claimed
                undecided.append(f)
            elif k is None:
                unlisted.append(f)
            else:
                listed.setdefault(k["id"], []).append(f)
        for kid, fs in sorted(listed.items()):
            entry = next(k for k in known if k["id"] == kid)
            print(
                f"KNOWN-FINDING: property={self.prop} {kid} {entry['what']} "
                f"[{len(fs)} construct(s), e.g. {fs[0].rule}: {fs[0].construct}]"
            )
        obligations = sum(r.obligations for r in self.rules.values())
        discharged = sum(r.discharged for r in self.rules.values())
        instances = sum(r.instances for r in self.rules.values())
        nontrivial = sum(len(r.nontrivial) + r.nontrivial_extra for r in self.rules.values())
        samples = []
        for r in self.rules.values():
            for s in r.samples[:3]:
                samples.append(f"{r.name}: {s}")
        rules_out = {
            r.name: {
                "description": r.description,
                "instances": r.instances,
                "obligations": r.obligations,
                "discharged": r.discharged,
                "distinct_constructs": len(r.nontrivial) + r.nontrivial_extra,
                "min_instances_confirmed": r.min_instances,
            }
            for r in self.rules.values()
        }
        evidence = {
            "property_id": self.prop,
            "tier": self.tier,
            "seed": int(self.seed),
            "level": "other",
            "coverage": {
                "explanation": self.explanation
                or "static analysis; see rules for what was analysed and the rule applied",
                "obligations": obligations,
                "discharged": discharged,
                "evaluations": max(instances, obligations),
                "distinct_nontrivial": nontrivial,
                "rule": "one obligation per (rule, construct); distinct = distinct construct keys "
                "(file:function:construct, or problem|kind|statement) with a non-vacuous obligation",
                "samples": samples[:40] or ["(none)"],
                "rules": rules_out,
                "known_findings_reported": sorted(listed),
                "undischarged_listed": sum(len(v) for v in listed.values()),
                "undischarged_unlisted": len(unlisted),
                "undecided": len(undecided),
                "source_digest": source_digest(self.src),
                **self.extra,
            },
            "assumptions": self.assumptions,
            "wall_s": round(wall, 3),
            "violations": len(unlisted),
        }
        if self.notes:
            evidence["coverage"]["notes"] = self.notes
        if (not os.environ.get("VERIF_NO_EVIDENCE") and self.src == "/repo/src" and not getattr(self, "replay", None)) or os.environ.get("VERIF_FORCE_EVIDENCE"):
            EVIDENCE.mkdir(exist_ok=True)
            (EVIDENCE / f"{self.prop}.json").write_text(json.dumps(evidence, indent=1, default=str))
        print(
            f"[{self.prop}] tier={self.tier} rules={len(self.rules)} instances={instances} "
            f"obligations={obligations} discharged={discharged} known={sum(len(v) for v in listed.values())} "
            f"unlisted={len(unlisted)} wall={wall:.1f}s"
        )
        for r in self.rules.values():
            print(
                f"  rule {r.name}: instances={r.instances} obligations={r.obligations} "
                f"discharged={r.discharged}"
            )
        if unlisted:
            OUT.mkdir(exist_ok=True)
            h = hashlib.sha1("\n".join(sorted(f.key for f in unlisted)).encode()).hexdigest()[:10]
            path = OUT / f"{self.prop}-{h}.json"
            path.write_text(
                json.dumps(
                    {
                        "property": self.prop,
                        "src": self.src,
                        "findings": [
                            {
                                "rule": f.rule,
                                "construct": f.construct,
                                "message": f.message,
                                "detail": f.detail,
                            }
                            for f in unlisted[:200]
                        ],
                        "total": len(unlisted),
                    },
                    indent=1,
                    default=str,
                )
            )
            per_rule: dict[str, int] = {}
            for f in unlisted:
                per_rule[f.rule] = per_rule.get(f.rule, 0) + 1
                if per_rule[f.rule] <= 4:
                    print(f"  UNDISCHARGED {f.rule}: {f.construct}: {f.message}")
            for r, c in per_rule.items():
                if c > 4:
                    print(f"  ... {r}: {c} undischarged in total, see {path}")
            for f in undecided[:4]:
                print(f"  UNDECIDED {f.rule}: {f.construct}: {f.message}")
            print(f"VIOLATION property={self.prop} replay={path}")
            return 1
        if undecided:
            for f in undecided[:6]:
                print(f"  UNDECIDED {f.rule}: {f.construct}: {f.message}")
            raise AnalysisError(
                f"{len(undecided)} obligation(s) could not be decided: the code uses a construct the abstract "
                "evaluator does not model (no violation is claimed; extend the evaluator or the rule)"
            )
        return 0


UNDECIDED_RE = re.compile(r"not interpretable|uninterpretable", re.I)


def load_known() -> list[dict]:
    if not KNOWN.exists():
        return []
    data = json.loads(KNOWN.read_text())
    return [k for k in data.get("findings", []) if k.get("status") == "recorded"]


def match_known(known: list[dict], prop: str, f: Finding) -> dict | None:
    for k in known:
        if prop not in k.get("properties", [k.get("property")]):
            continue
        if k["rule"] != f.rule:
            continue
        if re.fullmatch(k["construct"], f.construct):
            return k
    return None


def source_digest(src: str) -> str:
    h = hashlib.sha1()
    root = Path(src) / "tensora"
    for p in sorted(root.rglob("*.py")):
        h.update(str(p.relative_to(root)).encode())
        h.update(p.read_bytes())
    return h.hexdigest()


def norm(s: str) -> str:
    """Normalised statement text for keys."""
    return re.sub(r"\s+", " ", s).strip()


def run_check(prop: str, main, argv=None) -> int:
    """Wrapper: run `main(ctx)`, convert internal errors into ANALYSIS-ERROR exit 2."""
    import argparse

    ap = argparse.ArgumentParser()
    ap.add_argument("--tier", default=os.environ.get("VERIF_TIER", "quick"))
    ap.add_argument("--src", default=os.environ.get("VERIF_SRC", "/repo/src"))
    ap.add_argument("--replay", default=None)
    ap.add_argument("--jobs", type=int, default=int(os.environ.get("VERIF_JOBS", "16")))
    args = ap.parse_args(argv)
    if args.tier not in ("quick", "thorough"):
        args.tier = "quick"
    seed = int(os.environ.get("VERIF_SEED", "0") or 0)
    ctx = Ctx(prop, args.tier, args.src, seed)
    ctx.jobs = args.jobs
    ctx.replay = args.replay
    try:
        main(ctx)
        return ctx.finish()
    except AnalysisError as e:
        print(f"ANALYSIS-ERROR property={prop}: {e}")
        return 2
    except Exception as e:  # noqa: BLE001
        traceback.print_exc()
        print(f"ANALYSIS-ERROR property={prop}: internal error {type(e).__name__}: {e}")
        return 2
