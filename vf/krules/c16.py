"""C16: for qualifying indexes the dimension value must not reach control (information flow)."""

from __future__ import annotations

from .. import kir
from ..kir import expr_vars, simple_statements, subexprs
from .base import get_info, get_roles


def sugar_terms(ns, e):
    """Additive terms of a sugar expression: list of lists of factors (leaves)."""
    S = ns.sugar
    if isinstance(e, (S.Add, S.Subtract)):
        return sugar_terms(ns, e.left) + sugar_terms(ns, e.right)
    if isinstance(e, S.Multiply):
        return [l + r for l in sugar_terms(ns, e.left) for r in sugar_terms(ns, e.right)]
    return [[e]]


def qualifying_indexes(k):
    ns = k.ns
    info = get_info(k)
    a = k.problem.assignment
    res = []
    occs = list(info.occurrences) + [
        (info.out, tuple(a.target.indexes), info.out_levels, info.out_modes)
    ]
    terms = sugar_terms(ns, a.expression)
    for ix in sorted(info.index_names):
        ok = True
        for name, dims, levels, modes in occs:
            for l, lix in enumerate(levels):
                if lix == ix and modes[l] != info.compressed:
                    ok = False
        for t in terms:
            if not any(isinstance(f, ns.sugar.Tensor) and ix in f.indexes for f in t):
                ok = False
        if ok:
            res.append(ix)
    # an index qualifies only if its whole class does (members share their dimension at run time)
    res = [ix for ix in res if all(m in res for m in info.class_members[info.index_class[ix]])]
    return res


def control_relevant_vars(fn):
    """Variables in the backward slice of every loop/branch condition, array index and allocation
    size (flow-insensitive closure over all definitions and their control context)."""
    IR = kir.IR
    defs = {}
    R = set()
    for s, path in simple_statements(fn.body):
        v = kir.defined_var(s)
        ctx_vars = set()
        for p in path:
            ctx_vars |= expr_vars(p[1])
            R |= expr_vars(p[1])
        reads, tgt = kir.stmt_exprs(s)
        if v is not None and not isinstance(s, IR.Declaration):
            defs.setdefault(v, set()).update(expr_vars(s.value) | ctx_vars)
        for e in reads + ([tgt] if tgt is not None else []):
            for x in subexprs(e):
                if isinstance(x, IR.ArrayIndex):
                    R |= expr_vars(x.index)
                if isinstance(x, (IR.ArrayAllocate, IR.ArrayReallocate)):
                    R |= expr_vars(x.n_elements)
    work = list(R)
    while work:
        v = work.pop()
        for u in defs.get(v, ()):
            if u not in R:
                R.add(u)
                work.append(u)
    return R


def rule_dimension_not_control(k):
    IR = kir.IR
    info = get_info(k)
    q = qualifying_indexes(k)
    k.instance("C16.dim-not-control")
    if not q:
        return
    for kind in ("evaluate", "assemble", "compute"):
        fn = k.kernels[kind]
        roles = get_roles(k, kind)
        R = control_relevant_vars(fn)
        for ix in q:
            dimvars = [
                v
                for v, r in roles.role.items()
                if r[0] == "dim" and ix in info.dim_class.get((r[1], r[2]), ())
            ]
            # direct reads T->dimensions[c] outside declarations also count
            bad = [v for v in dimvars if v in R]
            direct = []
            for s, path in simple_statements(fn.body):
                if isinstance(s, IR.DeclarationAssignment) and roles.role.get(s.target.name.name, ("",))[0] == "dim":
                    continue
                reads, tgt = kir.stmt_exprs(s)
                for e in reads + ([tgt] if tgt is not None else []):
                    for x in subexprs(e):
                        if (
                            isinstance(x, IR.ArrayIndex)
                            and isinstance(x.target, IR.AttributeAccess)
                            and x.target.attribute == "dimensions"
                            and isinstance(x.target.target, IR.Variable)
                            and isinstance(x.index, IR.IntegerLiteral)
                            and ix in info.dim_class.get((x.target.target.name, x.index.value), ())
                        ):
                            direct.append(kir.pps(s))
            if bad or direct:
                k.fail(
                    "C16.dim-not-control",
                    kind,
                    f"index {ix}",
                    f"dimension of index {ix} (stored only in compressed levels, mentioned by every term) "
                    f"reaches control/addressing through {bad or direct[:1]}: iteration count depends on the "
                    "dimension size, not only on stored entries",
                )
            else:
                k.ok("C16.dim-not-control", sample=f"{kind}: index {ix}: dim variables {dimvars} not in control slice")
