"""C01 K rules: operand addressing (K-addr), term/loop agreement (K-sum), dense cover (K-dense),
monomial agreement (K-poly), branch lattice order.

One environment-passing walk per kernel collects a record for every value store ("terminal"): the
enclosing loops, the Matched facts in force, and the resolution of every operand read and of the
store address to (tensor, index variable per level). The rules are then set comparisons against
the Problem (the oracle).
"""

from __future__ import annotations

from fractions import Fraction

from .. import kir
from ..kir import body_list, conj, expr_vars, is_int, norm_text, poly, pp, pps, subexprs
from .base import get_info, get_roles, is_value_store, store_rhs
from .flags import out_cursors


class LoopInfo:
    __slots__ = ("node", "ix", "kind", "guarded", "coords")

    def __init__(self, node, ix, kind, guarded, coords):
        self.node = node
        self.ix = ix  # index variable name or None
        self.kind = kind  # 'sparse' | 'counting' | 'other'
        self.guarded = guarded  # cursor variable names in the loop guard
        self.coords = coords  # coordinate variables the index is the min of (sparse loops)


class Resolved:
    """An operand read (or the store address) resolved to per-level index variables."""

    __slots__ = ("tensor", "ixs", "cursors", "why")

    def __init__(self, tensor, ixs, cursors, why=None):
        self.tensor = tensor
        self.ixs = ixs  # tuple of index names per level (L order) or None
        self.cursors = cursors  # {level: cursor variable name} for compressed levels
        self.why = why  # failure reason


class Terminal:
    __slots__ = ("stmt", "loops", "matched", "terms", "address", "accumulate", "path_conds")


def loop_info(node, roles):
    IR = kir.IR
    body = body_list(node.body)
    guarded = []
    for c in conj(node.condition):
        if isinstance(c, IR.LessThan) and isinstance(c.left, IR.Variable) and isinstance(c.right, IR.Variable):
            rl = roles.role.get(c.left.name)
            rr = roles.role.get(c.right.name)
            if rl and rr and rl[0] == "cursor" and rr[0] == "end" and rl[1:3] == rr[1:3]:
                guarded.append(c.left.name)
    for s in body:
        if isinstance(s, IR.DeclarationAssignment) and roles.kind(s.target.name.name) == "idx":
            leaves = _min_leaves(s.value)
            if leaves and all(isinstance(x, IR.Variable) and roles.kind(x.name) == "coord" for x in leaves):
                return LoopInfo(node, s.target.name.name, "sparse", guarded, [x.name for x in leaves])
    if body:
        last = body[-1]
        if (
            isinstance(last, IR.Assignment)
            and isinstance(last.target, IR.Variable)
            and roles.kind(last.target.name) == "idx"
            and last.value == IR.Add(last.target, IR.IntegerLiteral(1))
        ):
            return LoopInfo(node, last.target.name, "counting", guarded, [])
    return LoopInfo(node, None, "other", guarded, [])


def _min_leaves(e):
    IR = kir.IR
    if isinstance(e, IR.Min):
        return _min_leaves(e.left) + _min_leaves(e.right)
    return [e]


class Env:
    __slots__ = ("defs", "matched")

    def __init__(self, defs=None, matched=None):
        self.defs = dict(defs or {})
        self.matched = set(matched or ())

    def copy(self):
        return Env(self.defs, self.matched)

    def kill(self, v, roles):
        self.defs.pop(v, None)
        for u in [u for u, e in self.defs.items() if v in expr_vars(e)]:
            del self.defs[u]
        dead = set()
        for c, ix in self.matched:
            r = roles.role.get(c)
            if c == v or ix == v or (r and r[0] == "coord" and r[3] == v):
                dead.add((c, ix))
        self.matched -= dead


def join(a: Env, b: Env) -> Env:
    return Env({u: e for u, e in a.defs.items() if b.defs.get(u) == e}, a.matched & b.matched)


def collect(k, kind):
    """Walk one kernel; return (terminals, loops, chains) where chains are if/else-if chains."""
    key = ("terminals", kind)
    if key in k.cache:
        return k.cache[key]
    IR = kir.IR
    fn = k.kernels[kind]
    roles = get_roles(k, kind)
    info = get_info(k)
    outcur, _ = out_cursors(k, kind)
    terminals = []
    loops = []

    def visit(n, env, stack, conds):
        if isinstance(n, IR.Block):
            for s in n.statements:
                env = visit(s, env, stack, conds)
            return env
        if isinstance(n, IR.Branch):
            t = env.copy()
            for c in conj(n.condition):
                if (
                    isinstance(c, IR.Equal)
                    and isinstance(c.left, IR.Variable)
                    and isinstance(c.right, IR.Variable)
                    and roles.kind(c.left.name) == "coord"
                    and roles.kind(c.right.name) == "idx"
                ):
                    t.matched.add((c.left.name, c.right.name))
            t = visit(n.if_true, t, stack, conds + [(n.condition, True)])
            f = visit(n.if_false, env.copy(), stack, conds + [(n.condition, False)])
            return join(t, f)
        if isinstance(n, IR.Loop):
            li = loop_info(n, roles)
            loops.append((li, list(stack)))
            entry = env.copy()
            for v in kir.assigned_vars(n.body):
                entry.kill(v, roles)
            visit(n.body, entry.copy(), stack + [li], conds + [(n.condition, True)])
            return entry
        # simple statement
        if is_value_store(n, roles):
            rhs, acc = store_rhs(n)
            if not (
                kir.is_int(n.value, 0)
                and roles.kind(n.target.target.name) == "bucket"
                and isinstance(n.target.index, IR.Variable)
                and roles.kind(n.target.index.name) is None
            ):
                t = Terminal()
                t.stmt = n
                t.loops = list(stack)
                t.matched = set(env.matched)
                t.accumulate = acc
                t.path_conds = list(conds)
                t.terms = [
                    (coef, [resolve_read(x, env, roles, info) for x in reads], lits)
                    for coef, reads, lits in expand_terms(rhs, roles, info)
                ]
                t.address = resolve_store(n.target, env, roles, info, outcur)
                terminals.append(t)
        v = kir.defined_var(n)
        if v is not None:
            env.kill(v, roles)
            if not isinstance(n, IR.Declaration) and v not in expr_vars(n.value):
                env.defs[v] = n.value
        return env

    visit(fn.body, Env(), [], [])
    k.cache[key] = (terminals, loops)
    return k.cache[key]


# ------------------------------------------------------------------------------------------------
# term expansion
# ------------------------------------------------------------------------------------------------
def expand_terms(e, roles, info):
    """Expand an IR value expression into additive terms: list of (coefficient: Fraction,
    [operand read ArrayIndex nodes], other) where other collects factors that are neither reads nor
    literals (should be empty)."""
    IR = kir.IR
    if isinstance(e, IR.Add):
        return expand_terms(e.left, roles, info) + expand_terms(e.right, roles, info)
    if isinstance(e, IR.Subtract):
        return expand_terms(e.left, roles, info) + [
            (-c, r, o) for c, r, o in expand_terms(e.right, roles, info)
        ]
    if isinstance(e, IR.Multiply):
        out = []
        for c1, r1, o1 in expand_terms(e.left, roles, info):
            for c2, r2, o2 in expand_terms(e.right, roles, info):
                out.append((c1 * c2, r1 + r2, o1 + o2))
        return out
    if isinstance(e, (IR.IntegerLiteral, IR.FloatLiteral)):
        return [(Fraction(e.value), [], [])]
    if isinstance(e, IR.ArrayIndex) and isinstance(e.target, IR.Variable):
        r = roles.role.get(e.target.name)
        if r and r[0] == "vals" and r[1] != info.out:
            return [(Fraction(1), [e], [])]
    return [(Fraction(1), [], [e])]


# ------------------------------------------------------------------------------------------------
# address resolution
# ------------------------------------------------------------------------------------------------
def _match_ix(cvar, env):
    ixs = [ix for c, ix in env.matched if c == cvar]
    return ixs[0] if len(ixs) == 1 else None


def resolve_position(q, tensor, level, modes, env, roles, info, outcur=None):
    """Resolve position expression q of `tensor` at `level` (L order) to index names for levels
    0..level. Returns (ixs list, cursors dict) or raises ValueError(reason)."""
    IR = kir.IR
    ixs = [None] * (level + 1)
    cursors = {}
    l = level
    while l >= 0:
        if modes[l] == info.compressed:
            if not isinstance(q, IR.Variable):
                raise ValueError(f"level {l} of {tensor} is compressed but its position {pp(q)} is not a cursor")
            if outcur is not None:
                # output tensor: cursor of this level is the one used by the level's crd stores
                if outcur.get(l) != q.name:
                    raise ValueError(f"position {q.name} is not the append cursor of output level {l} ({outcur.get(l)})")
                ixs[l] = info.out_levels[l]
                cursors[l] = q.name
                # the parent of an output cursor is established by pos assembly (C02 K-cover)
                parent = None
            else:
                r = roles.role.get(q.name)
                if not (r and r[0] == "cursor" and r[1] == tensor and r[2] == l):
                    raise ValueError(f"{q.name} is not a cursor of level {l} of {tensor} (role {r})")
                if q.name in roles.conflicts:
                    raise ValueError(f"cursor {q.name} has conflicting definitions")
                coord = [c for c, rr in roles.role.items() if rr[0] == "coord" and rr[1] == tensor and rr[2] == l and rr[3] == q.name]
                ix = None
                for c in coord:
                    ix = ix or _match_ix(c, env)
                if ix is None:
                    raise ValueError(
                        f"cursor {q.name} (level {l} of {tensor}) is read but its coordinate is not matched to a "
                        "loop variable on this path (operand may be absent at this coordinate)"
                    )
                ixs[l] = ix
                cursors[l] = q.name
                parent = roles.parent_expr.get(q.name)
            if l == 0:
                if parent is not None and not is_int(parent, 0):
                    raise ValueError(f"level-0 cursor {q.name} opened at {pp(parent)} instead of position 0")
                return ixs, cursors
            if parent is None:
                # output: continue with the parent level's own cursor/position by convention:
                # the parent of an append level is the enclosing level's position variable, which
                # K-cover (C02) ties to pos assembly. Resolve it from the remaining levels' names.
                raise _NeedParent(l, ixs, cursors)
            q = parent
            l -= 1
            continue
        # dense level
        if l == 0:
            if isinstance(q, IR.Variable) and roles.kind(q.name) == "idx":
                ixs[0] = q.name
                return ixs, cursors
            d = env.defs.get(q.name) if isinstance(q, IR.Variable) else None
            if isinstance(d, IR.Variable) and roles.kind(d.name) == "idx":
                ixs[0] = d.name
                return ixs, cursors
            raise ValueError(f"dense level 0 of {tensor}: position {pp(q)} is not a loop variable (def {pp(d) if d is not None else None})")
        d = env.defs.get(q.name) if isinstance(q, IR.Variable) else q if not isinstance(q, IR.Variable) else None
        if d is None:
            raise ValueError(f"dense position {pp(q)} of level {l} of {tensor} has no reaching definition")
        # parent * dim + index, in any operand order of the (commutative) + and *
        if isinstance(d, IR.Add) and isinstance(d.left, IR.Variable) and roles.kind(d.left.name) == "idx" and isinstance(d.right, IR.Multiply):
            d = IR.Add(d.right, d.left)
        if isinstance(d, IR.Add) and isinstance(d.left, IR.Multiply) and isinstance(d.left.left, IR.Variable) and roles.kind(d.left.left.name) == "dim" and not (
            isinstance(d.left.right, IR.Variable) and roles.kind(d.left.right.name) == "dim"
        ):
            d = IR.Add(IR.Multiply(d.left.right, d.left.left), d.right)
        if not (
            isinstance(d, IR.Add)
            and isinstance(d.right, IR.Variable)
            and roles.kind(d.right.name) == "idx"
            and isinstance(d.left, IR.Multiply)
            and isinstance(d.left.right, IR.Variable)
            and roles.kind(d.left.right.name) == "dim"
        ):
            raise ValueError(f"dense position {pp(q)} := {pp(d)} is not of the form parent * dim + index")
        ix = d.right.name
        dr = roles.role[d.left.right.name]
        if ix not in info.dim_class.get((dr[1], dr[2]), ()):
            raise ValueError(f"dense position {pp(q)} := {pp(d)} scales by the dimension of another index class")
        ixs[l] = ix
        q = d.left.left
        l -= 1
    return ixs, cursors


class _NeedParent(Exception):
    def __init__(self, level, ixs, cursors):
        self.level = level
        self.ixs = ixs
        self.cursors = cursors


def resolve_read(x, env, roles, info):
    """x = T_vals[q]."""
    IR = kir.IR
    tname = roles.role[x.target.name][1]
    occs = [o for o in info.occurrences if o[0] == tname]
    if not occs:
        return Resolved(tname, None, {}, f"read of {tname} which does not occur in the expression")
    order = len(occs[0][1])
    modes = occs[0][3]
    if order == 0:
        if is_int(x.index, 0):
            return Resolved(tname, (), {})
        return Resolved(tname, None, {}, f"scalar {tname} read at {pp(x.index)}")
    try:
        ixs, cursors = resolve_position(x.index, tname, order - 1, modes, env, roles, info)
    except ValueError as e:
        return Resolved(tname, None, {}, str(e))
    ixs = tuple(ixs)
    if not any(o[2] == ixs for o in occs):
        return Resolved(
            tname,
            ixs,
            cursors,
            f"{pp(x)} is read at level coordinates {ixs}, but {tname} occurs only as "
            f"{[o[2] for o in occs]} (level order) in the assignment",
        )
    return Resolved(tname, ixs, cursors)


def resolve_store(target, env, roles, info, outcur):
    """Resolve the store address out_vals[q] or bucket[ravel] to the target's index per level."""
    IR = kir.IR
    arr = target.target.name
    r = roles.role[arr]
    L = len(info.out_levels)
    modes = info.out_modes
    if r[0] == "vals":
        if L == 0:
            if is_int(target.index, 0):
                return Resolved(info.out, (), {})
            return Resolved(info.out, None, {}, f"scalar output stored at {pp(target.index)}")
        return _resolve_out_position(target.index, L - 1, env, roles, info, outcur)
    # bucket: base offset and ravel polynomial
    bdef = None
    for e in roles.defs.get(arr, []):
        bdef = e
    if bdef is None:
        return Resolved(info.out, None, {}, "bucket without definition")
    offset = bdef.right if isinstance(bdef, IR.Add) else IR.IntegerLiteral(0)
    ip = poly(target.index)
    if ip is None:
        return Resolved(info.out, None, {}, f"bucket index {pp(target.index)} is not polynomial")
    idx_vars = set()
    for mono in ip:
        ii = [v for v in mono if roles.kind(v) == "idx"]
        if len(ii) != 1:
            return Resolved(info.out, None, {}, f"bucket index monomial {mono} does not contain exactly one index variable")
        idx_vars.add(ii[0])
    nl = len(idx_vars)
    a = L - nl
    if a < 0:
        return Resolved(info.out, None, {}, "bucket index uses more index variables than the output has levels")
    if any(m != info.dense for m in modes[a:]):
        return Resolved(info.out, None, {}, "bucket spans a compressed output level")

    def canon(p):
        out = {}
        for mono, c in p.items():
            key = []
            for v in mono:
                rr = roles.role.get(v)
                if rr and rr[0] == "dim":
                    cls = info.dim_class.get((rr[1], rr[2]), ())
                    key.append("D:" + (sorted({info.index_class[i] for i in cls})[0] if cls else "?"))
                else:
                    key.append(v)
            kk = tuple(sorted(key))
            out[kk] = out.get(kk, 0) + c
        return out

    want = {}
    for kk in range(a, L):
        mono = [info.out_levels[kk]] + ["D:" + info.index_class[info.out_levels[m]] for m in range(kk + 1, L)]
        want[tuple(sorted(mono))] = 1
    got = canon(ip)
    if got != want:
        return Resolved(
            info.out,
            None,
            {},
            f"bucket index {pp(target.index)} is not the row-major ravel of output levels {a}..{L - 1} "
            f"({info.out_levels[a:]})",
        )
    # offset = parent position * product of bucket dims
    op = poly(offset)
    if a == 0:
        if op != {}:
            return Resolved(info.out, None, {}, f"bucket of a fully dense output starts at offset {pp(offset)}")
        return Resolved(info.out, tuple(info.out_levels), {})
    if op is not None and a == L and len(op) == 1:
        # zero-layer bucket: bucket = vals + position of the last level
        (mono, c), = op.items()
        if c == 1 and len(mono) == 1:
            return _resolve_out_position(IR.Variable(mono[0]), L - 1, env, roles, info, outcur)
    if op is None or len(op) != 1:
        return Resolved(info.out, None, {}, f"bucket offset {pp(offset)} is not parent * dims")
    (mono, c), = canon(op).items()
    dims_want = sorted("D:" + info.index_class[info.out_levels[m]] for m in range(a, L))
    pos = [v for v in mono if not v.startswith("D:")]
    dims_got = sorted(v for v in mono if v.startswith("D:"))
    if c != 1 or len(pos) != 1 or dims_got != dims_want:
        return Resolved(info.out, None, {}, f"bucket offset {pp(offset)} is not parent position * {dims_want}")
    res = _resolve_out_position(IR.Variable(pos[0]), a - 1, env, roles, info, outcur)
    if res.why:
        return res
    return Resolved(info.out, tuple(res.ixs) + tuple(info.out_levels[a:]), res.cursors)


def _resolve_out_position(q, level, env, roles, info, outcur):
    """Resolve an output position: dense levels by Horner definitions, compressed levels by the
    level's append cursor. The link between an append cursor and its parent position is pos
    assembly (C02); here the parent of a compressed level is resolved through the *definition
    environment* of the next outer level, which must itself be the position of level-1."""
    IR = kir.IR
    modes = info.out_modes
    ixs = [None] * (level + 1)
    cursors = {}
    l = level
    while l >= 0:
        if modes[l] == info.compressed:
            if not (isinstance(q, IR.Variable) and outcur.get(l) == q.name):
                return Resolved(info.out, None, {}, f"output position {pp(q)} is not the append cursor of compressed level {l} ({outcur.get(l)})")
            ixs[l] = info.out_levels[l]
            cursors[l] = q.name
            # levels above are tied by pos assembly; their coordinates are the stored crd values,
            # which C03.flag-gating checks to be the level's own loop variable.
            for m in range(l):
                ixs[m] = info.out_levels[m]
            return Resolved(info.out, tuple(ixs), cursors)
        if l == 0:
            d = q
            if isinstance(q, IR.Variable) and roles.kind(q.name) != "idx":
                d = env.defs.get(q.name)
            if isinstance(d, IR.Variable) and roles.kind(d.name) == "idx":
                ixs[0] = d.name
                break
            return Resolved(info.out, None, {}, f"output dense level 0 position {pp(q)} is not a loop variable")
        d = env.defs.get(q.name) if isinstance(q, IR.Variable) else None
        if not (
            d is not None
            and isinstance(d, IR.Add)
            and isinstance(d.right, IR.Variable)
            and roles.kind(d.right.name) == "idx"
            and isinstance(d.left, IR.Multiply)
            and isinstance(d.left.right, IR.Variable)
            and roles.kind(d.left.right.name) == "dim"
        ):
            return Resolved(info.out, None, {}, f"output dense position {pp(q)} := {pp(d) if d is not None else None} is not parent * dim + index")
        dr = roles.role[d.left.right.name]
        if d.right.name not in info.dim_class.get((dr[1], dr[2]), ()):
            return Resolved(info.out, None, {}, f"output dense position {pp(q)} scales by the dimension of another index class")
        ixs[l] = d.right.name
        q = d.left.left
        l -= 1
    ixs = tuple(ixs)
    if ixs != tuple(info.out_levels[: level + 1]):
        return Resolved(info.out, ixs, cursors, f"output stored at level coordinates {ixs}, target levels are {info.out_levels[: level + 1]}")
    return Resolved(info.out, ixs, cursors)


# ------------------------------------------------------------------------------------------------
# rules
# ------------------------------------------------------------------------------------------------
def _tkey(t):
    return norm_text(pps(t.stmt))


def rule_k_addr(k):
    """C01.1: every operand read and every store address is at the coordinate of the current loop
    variables, through the format's own level ordering."""
    for kind in ("evaluate", "compute"):
        terminals, _ = collect(k, kind)
        k.instance("C01.K-addr")
        for t in terminals:
            bad = False
            if t.address.why:
                k.fail("C01.K-addr", kind, _tkey(t), "store address: " + t.address.why)
                bad = True
            for coef, reads, other in t.terms:
                for r in reads:
                    if r.why:
                        k.fail("C01.K-addr", kind, _tkey(t), "operand read: " + r.why)
                        bad = True
                for o in other:
                    k.fail("C01.K-addr", kind, _tkey(t), f"factor {pp(o)} is neither an operand read nor a literal")
                    bad = True
            if not bad:
                k.ok("C01.K-addr", 1 + sum(len(r) for _, r, _ in t.terms), sample=_tkey(t))


def rule_k_sum(k):
    """C01.2: every enclosing non-target loop is mentioned by every additive term, and every
    non-target index a term mentions is an enclosing loop."""
    info = get_info(k)
    tgt = set(info.target_indexes)
    for kind in ("evaluate", "compute"):
        terminals, _ = collect(k, kind)
        k.instance("C01.K-sum")
        for t in terminals:
            loops = {li.ix for li in t.loops if li.ix is not None}
            for coef, reads, other in t.terms:
                if coef == 0:
                    continue
                if any(r.ixs is None for r in reads):
                    continue  # K-addr reports it
                idx = set()
                for r in reads:
                    idx |= set(r.ixs)
                extra = (loops - tgt) - idx
                missing = (idx - tgt) - loops
                if extra:
                    k.fail(
                        "C01.K-sum",
                        kind,
                        _tkey(t),
                        f"term {[r.tensor for r in reads] or 'literal'} is accumulated once per iteration of loop(s) "
                        f"{sorted(extra)} it does not depend on (summed over an index that is not its own)",
                    )
                elif missing:
                    k.fail("C01.K-sum", kind, _tkey(t), f"term mentions index {sorted(missing)} with no enclosing loop")
                else:
                    k.ok("C01.K-sum")
            # the store itself: target indexes must all be enclosing loops, stored at them
            if not t.address.why and set(t.address.ixs) - loops:
                k.fail("C01.K-sum", kind, _tkey(t), f"store uses target index {sorted(set(t.address.ixs) - loops)} outside its loop")


def rule_k_dense(k):
    """C01.3a: inside a sparse-driven loop over ix, every term that mentions ix (any term when ix
    is a target index) has a factor whose cursor is guarded by that loop."""
    info = get_info(k)
    tgt = set(info.target_indexes)
    for kind in ("evaluate", "compute"):
        terminals, _ = collect(k, kind)
        k.instance("C01.K-dense")
        for t in terminals:
            for li in t.loops:
                if li.kind != "sparse":
                    continue
                for coef, reads, other in t.terms:
                    if coef == 0 or any(r.ixs is None for r in reads):
                        continue
                    mentions = any(li.ix in r.ixs for r in reads)
                    if not (mentions or li.ix in tgt):
                        continue
                    covered = any(c in li.guarded for r in reads for c in r.cursors.values())
                    if covered:
                        k.ok("C01.K-dense")
                    else:
                        k.fail(
                            "C01.K-dense",
                            kind,
                            _tkey(t),
                            f"term {[r.tensor for r in reads] or 'literal'} is evaluated only at the coordinates of "
                            f"{li.ix} that the sparse loop's leaves store, but none of its factors is one of those "
                            "leaves: its values at other coordinates are dropped",
                        )


def sugar_monomials(ns, e):
    """Expand the assignment's right-hand side into monomials: list of (Fraction coefficient,
    tuple of (tensor name, indexes in D order))."""
    S = ns.sugar
    if isinstance(e, S.Add):
        return sugar_monomials(ns, e.left) + sugar_monomials(ns, e.right)
    if isinstance(e, S.Subtract):
        return sugar_monomials(ns, e.left) + [(-c, m) for c, m in sugar_monomials(ns, e.right)]
    if isinstance(e, S.Multiply):
        return [
            (c1 * c2, m1 + m2)
            for c1, m1 in sugar_monomials(ns, e.left)
            for c2, m2 in sugar_monomials(ns, e.right)
        ]
    if isinstance(e, (S.Integer, S.Float)):
        return [(Fraction(e.value), ())]
    if isinstance(e, S.Tensor):
        return [(Fraction(1), ((e.name, tuple(e.indexes)),))]
    raise ValueError(f"unknown sugar node {type(e).__name__}")


def rule_k_poly(k):
    """C01.3b: every additive term of every terminal is one of the assignment's monomials with the
    same coefficient (multiset inclusion per terminal); every monomial is computed somewhere."""
    ns = k.ns
    info = get_info(k)
    fm = k.problem.formats
    want = {}
    for c, m in sugar_monomials(ns, k.problem.assignment.expression):
        if c == 0:
            continue
        # key in level order so that it is comparable with resolved reads
        key = tuple(sorted((name, tuple(ixs[d] for d in fm[name].ordering)) for name, ixs in m))
        want.setdefault(key, []).append(c)
    for kind in ("evaluate", "compute"):
        terminals, _ = collect(k, kind)
        k.instance("C01.K-poly")
        seen = set()
        for t in terminals:
            got = {}
            skip = False
            for coef, reads, other in t.terms:
                if coef == 0:
                    continue
                if any(r.ixs is None for r in reads) or other:
                    skip = True
                    break
                key = tuple(sorted((r.tensor, tuple(r.ixs)) for r in reads))
                got.setdefault(key, []).append(coef)
            if skip:
                continue
            ok = True
            for key, coefs in got.items():
                avail = list(want.get(key, []))
                for c in coefs:
                    if c in avail:
                        avail.remove(c)
                        seen.add((key, c))
                    else:
                        ok = False
                        k.fail(
                            "C01.K-poly",
                            kind,
                            _tkey(t),
                            f"terminal computes {float(c):g} * {[n for n, _ in key] or '1'} which is not a monomial of the "
                            f"assignment with that coefficient (assignment has {[float(x) for x in want.get(key, [])]})",
                        )
            if ok:
                k.ok("C01.K-poly", max(1, len(got)))
        for key, coefs in want.items():
            for c in set(coefs):
                if (key, c) not in seen:
                    k.fail(
                        "C01.K-poly",
                        kind,
                        f"monomial {float(c):g} * {[n for n, _ in key] or '1'}",
                        "no terminal of the kernel computes this monomial of the assignment",
                    )


def rule_k_complete(k):
    """C01.3c: within one co-iteration region (terminals under the same innermost loop) a terminal
    computes every monomial that the region computes anywhere and whose compressed-level leaves are
    all Matched on the path to the terminal: no present operand is dropped in a branch arm. (K-poly
    shows nothing else is computed and that every monomial is computed in some region.)"""
    ns = k.ns
    info = get_info(k)
    from .flags import has_zero_literal

    if has_zero_literal(k):
        return
    occ_keys = [(o[0], o[2]) for o in info.occurrences]
    if len(set(occ_keys)) != len(occ_keys):
        # two occurrences of one tensor with the same index tuple get separate cursors over the same
        # data; which occurrence a matched coordinate belongs to is not recoverable from the matches
        return
    fm = k.problem.formats
    tgt = set(info.target_indexes)
    monos = []
    for c, m in sugar_monomials(ns, k.problem.assignment.expression):
        if c == 0:
            continue
        facs = []
        for name, ixs in m:
            f = fm[name]
            levels = tuple(ixs[d] for d in f.ordering)
            facs.append((name, levels, tuple(f.modes)))
        idx = set()
        for name, ixs in m:
            idx |= set(ixs)
        monos.append((c, facs, idx))
    for kind in ("evaluate", "compute"):
        terminals, _ = collect(k, kind)
        roles = get_roles(k, kind)
        k.instance("C01.K-complete")
        # monomials are distributed over the terminals of one co-iteration region (same innermost loop);
        # sibling sum terms iterate in their own loop nests and are separate regions
        universe = {}
        for t in terminals:
            region = tuple(id(li.node) for li in t.loops)
            for coef, reads, other in t.terms:
                if coef != 0 and all(r.ixs is not None for r in reads):
                    universe.setdefault(region, set()).add(tuple(sorted((r.tensor, tuple(r.ixs)) for r in reads)))
        for t in terminals:
            loops = {li.ix for li in t.loops if li.ix is not None}
            if any(r.ixs is None for _, reads, _ in t.terms for r in reads):
                continue  # K-addr reports it
            region = tuple(id(li.node) for li in t.loops)
            matched = set()
            for cvar, ix in t.matched:
                r = roles.role.get(cvar)
                if r and r[0] == "coord":
                    matched.add((r[1], r[2], ix))
            want = {}
            for c, facs, idx in monos:
                key = tuple(sorted((name, levels) for name, levels, _ in facs))
                if key not in universe.get(region, ()):
                    continue
                present = all(
                    (name, l, levels[l]) in matched
                    for name, levels, modes in facs
                    for l in range(len(levels))
                    if modes[l] == info.compressed
                )
                if present:
                    want.setdefault(key, []).append(c)
            got = {}
            for coef, reads, other in t.terms:
                if coef == 0:
                    continue
                key = tuple(sorted((r.tensor, tuple(r.ixs)) for r in reads))
                got.setdefault(key, []).append(coef)
            missing = []
            for key, coefs in want.items():
                have = list(got.get(key, []))
                for c in coefs:
                    if c in have:
                        have.remove(c)
                    else:
                        missing.append((key, c))
            if missing:
                key, c = missing[0]
                k.fail(
                    "C01.K-complete",
                    kind,
                    _tkey(t),
                    f"every stored entry that {float(c):g} * {[n for n, _ in key] or '1'} needs is matched on this path, "
                    "but the terminal does not add that monomial: a present operand is dropped",
                )
            else:
                k.ok("C01.K-complete", max(1, len(want)))


def rule_lattice_order(k):
    """C01.3: in every if/else-if chain inside a loop, no earlier arm's matched-leaf set is a strict
    subset of a later arm's; consecutive sub-loops of one node follow the same rule for their guard
    sets; every guarded cursor is stepped by `p += (c == ix)` at the end of its loop body, and no
    unguarded cursor is stepped."""
    IR = kir.IR
    for kind in ("evaluate", "assemble", "compute"):
        fn = k.kernels[kind]
        roles = get_roles(k, kind)
        _, loops = collect(k, kind) if kind != "assemble" else (None, _loops_only(k, kind))
        k.instance("C01.lattice-order")
        for li, stack in loops:
            if li.ix is None:
                continue
            body = body_list(li.node.body)
            # steps
            steps = {}
            for s in body:
                if (
                    isinstance(s, IR.Assignment)
                    and isinstance(s.target, IR.Variable)
                    and roles.kind(s.target.name) == "cursor"
                ):
                    steps[s.target.name] = s
            for p in li.guarded:
                s = steps.get(p)
                good = False
                if s is not None and isinstance(s.value, IR.Add) and s.value.left == s.target:
                    inc = s.value.right
                    if (
                        isinstance(inc, IR.BooleanToInteger)
                        and isinstance(inc.expression, IR.Equal)
                        and isinstance(inc.expression.left, IR.Variable)
                        and isinstance(inc.expression.right, IR.Variable)
                        and inc.expression.right.name == li.ix
                    ):
                        rc = roles.role.get(inc.expression.left.name)
                        good = bool(rc and rc[0] == "coord" and rc[3] == p)
                if good:
                    k.ok("C01.lattice-order")
                else:
                    k.fail(
                        "C01.lattice-order",
                        kind,
                        norm_text(pps(li.node)),
                        f"cursor {p} in the loop guard is not stepped by `{p} += (coordinate == {li.ix})` at the end of the body",
                    )
            for p in steps:
                if p not in li.guarded:
                    k.fail("C01.lattice-order", kind, norm_text(pps(li.node)), f"cursor {p} stepped in a loop that does not guard it")
            # if / else-if chains directly in the loop body
            for s in body:
                if isinstance(s, IR.Branch):
                    arms = []
                    node = s
                    while isinstance(node, IR.Branch):
                        m = set()
                        plain = True
                        for c in conj(node.condition):
                            if (
                                isinstance(c, IR.Equal)
                                and isinstance(c.left, IR.Variable)
                                and roles.kind(c.left.name) == "coord"
                                and isinstance(c.right, IR.Variable)
                                and c.right.name == li.ix
                            ):
                                m.add(c.left.name)
                            else:
                                plain = False
                        if not plain:
                            break
                        arms.append(m)
                        node = node.if_false
                    if len(arms) >= 1 and not (isinstance(s.condition, IR.Variable)):
                        okc = True
                        for i in range(len(arms)):
                            for j in range(i + 1, len(arms)):
                                if arms[i] < arms[j] or arms[i] == arms[j]:
                                    okc = False
                        if okc:
                            k.ok("C01.lattice-order")
                        else:
                            k.fail(
                                "C01.lattice-order",
                                kind,
                                norm_text(pps(s)),
                                "an earlier arm of the co-iteration chain matches a subset of the leaves a later arm "
                                "matches: the later arm is unreachable and entries present in more operands are computed "
                                "with fewer",
                            )
        # sub-loop sequences: consecutive loops over the same index in one statement list
        for node in kir.all_nodes(fn.body):
            if isinstance(node, (IR.Branch, IR.Loop)) or node is fn.body:
                arms = (
                    [node.if_true, node.if_false]
                    if isinstance(node, IR.Branch)
                    else [node.body]
                    if isinstance(node, IR.Loop)
                    else [node]
                )
                for arm in arms:
                    seq = [
                        loop_info(s, roles)
                        for s in body_list(arm)
                        if isinstance(s, IR.Loop)
                    ]
                    by_ix = {}
                    for li in seq:
                        if li.ix is not None:
                            by_ix.setdefault(li.ix, []).append(set(li.guarded))
                    for ix, sets in by_ix.items():
                        okc = True
                        for i in range(len(sets)):
                            for j in range(i + 1, len(sets)):
                                if sets[i] < sets[j] or sets[i] == sets[j]:
                                    okc = False
                        if okc:
                            k.ok("C01.lattice-order")
                        else:
                            k.fail(
                                "C01.lattice-order",
                                kind,
                                f"sub-loops over {ix}",
                                "a later sub-loop guards a superset of an earlier sub-loop's leaves (lattice order violated)",
                            )


def _loops_only(k, kind):
    IR = kir.IR
    roles = get_roles(k, kind)
    out = []

    def visit(n, stack):
        if isinstance(n, IR.Block):
            for s in n.statements:
                visit(s, stack)
        elif isinstance(n, IR.Branch):
            visit(n.if_true, stack)
            visit(n.if_false, stack)
        elif isinstance(n, IR.Loop):
            li = loop_info(n, roles)
            out.append((li, list(stack)))
            visit(n.body, stack + [li])

    visit(k.kernels[kind].body, [])
    return out
