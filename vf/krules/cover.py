"""C02 K rules: pos initialisation, K-cover (path-count), final sizes.

Path-count analysis: the possible execution counts {0, 1, 2=many} of a *unit* along the paths of a
structured statement list (Branch = union of arms, sequence = saturating sum, a Loop containing a
unit = {0, many}).

Units, per output level l (L = order of the output):
  * compressed l : the store  pos_l[parent + 1] = p_l
  * dense l      : a full counting loop group over the level's index (ix = 0 ... while (ix < D))
                   each of whose bodies contains exactly one unit of level l+1
  * l == L       : a direct store into the output value array
  * a bucket initialisation loop is a unit of the first level the bucket spans
Rule: the function body contains exactly one unit of level 0; below a compressed level l the segment
between the reset of the level's flag and the flagged append contains exactly one unit of level l+1
(when l+1 < L is compressed or dense), and no unit of level l+1 lies outside such a segment.
"""

from __future__ import annotations

from .. import kir
from ..kir import body_list, is_int, norm_text, poly, pp, pps, simple_statements
from .addr import loop_info
from .base import get_info, get_roles, is_value_store
from .flags import out_cursors

MANY = 2


def _sum(a, b):
    return {min(MANY, x + y) for x in a for y in b}


class Cover:
    def __init__(self, k, kind):
        IR = kir.IR
        self.k = k
        self.kind = kind
        self.fn = k.kernels[kind]
        self.roles = get_roles(k, kind)
        self.info = get_info(k)
        self.outcur, _ = out_cursors(k, kind)
        self.L = len(self.info.out_levels)
        self.fail = []
        self.checked = 0
        self.IR = IR
        self.values = kind in ("evaluate", "compute")
        self.structure = kind in ("evaluate", "assemble")

    # -- unit recognisers ----------------------------------------------------------------------
    def is_pos_store(self, s, level):
        IR = self.IR
        if not (isinstance(s, IR.Assignment) and isinstance(s.target, IR.ArrayIndex) and isinstance(s.target.target, IR.Variable)):
            return False
        r = self.roles.role.get(s.target.target.name)
        return bool(r and r == ("pos", self.info.out, level) and not is_int(s.target.index, 0))

    def is_direct_value_store(self, s):
        IR = self.IR
        if not is_value_store(s, self.roles):
            return False
        return self.roles.kind(s.target.target.name) == "vals"

    def bucket_init_level(self, loop):
        """If `loop` is a bucket initialisation loop, return the first output level the bucket
        spans, else None."""
        IR = self.IR
        body = body_list(loop.body)
        if len(body) != 2:
            return None
        st, inc = body
        if not (is_value_store(st, self.roles) and self.roles.kind(st.target.target.name) == "bucket" and is_int(st.value, 0)):
            return None
        kv = st.target.index
        if not (isinstance(kv, IR.Variable) and inc == IR.Assignment(kv, IR.Add(kv, IR.IntegerLiteral(1)))):
            return None
        c = loop.condition
        if not (isinstance(c, IR.LessThan) and c.left == kv):
            return None
        bound = poly(c.right)
        if bound is None or len(bound) != 1:
            return None
        (mono, coef), = bound.items()
        if coef != 1 or any(self.roles.kind(v) != "dim" for v in mono):
            return None
        a = self.L - len(mono)
        # the bound must be the product of the dims of levels a..L-1
        want = sorted(self.info.index_class[self.info.out_levels[m]] for m in range(a, self.L))
        got = []
        for v in mono:
            rr = self.roles.role[v]
            cls = self.info.dim_class.get((rr[1], rr[2]), ())
            got.append(sorted({self.info.index_class[i] for i in cls})[0] if cls else "?")
        if sorted(got) != want:
            return None
        return a

    def full_group(self, lst, start, level):
        """lst[start] is a Loop over the index of dense output level `level`. Return (end index
        exclusive, ok?, reason)."""
        IR = self.IR
        ix = self.info.out_levels[level]
        j = start
        loops = []
        while j < len(lst) and isinstance(lst[j], IR.Loop) and loop_info(lst[j], self.roles).ix == ix:
            loops.append(lst[j])
            j += 1
        infos = [loop_info(x, self.roles) for x in loops]
        if any(li.kind != "counting" for li in infos):
            return j, False, f"dense output level {level} is iterated by a sparse-driven loop over {ix}: positions no operand stores are never written"
        # ix = 0 before the group, not reassigned in between
        init = None
        for t in range(start - 1, -1, -1):
            s = lst[t]
            if kir.defined_var(s) == ix if kir.is_simple(s) else ix in kir.assigned_vars(s):
                init = s
                break
        if not (isinstance(init, IR.DeclarationAssignment) and is_int(init.value, 0)):
            return j, False, f"loop group over {ix} does not start from {ix} = 0"
        last = loops[-1].condition
        good = False
        if isinstance(last, IR.LessThan) and last.left == IR.Variable(ix) and isinstance(last.right, IR.Variable):
            rr = self.roles.role.get(last.right.name)
            good = bool(rr and rr[0] == "dim" and ix in self.info.dim_class.get((rr[1], rr[2]), ()))
        if not good:
            return j, False, f"loop group over {ix} does not end with `while ({ix} < dimension of {ix})`: positions after the last stored coordinate are never written"
        return j, True, ""

    # -- path count ------------------------------------------------------------------------------
    def units(self, lst, level):
        """Path-count set of level-`level` units in the flattened statement list `lst`.
        As a side effect checks the nested requirements of every unit found."""
        IR = self.IR
        total = {0}
        i = 0
        covered = False  # a bucket spanning this level has been initialised earlier in this list
        while i < len(lst):
            s = lst[i]
            if isinstance(s, IR.Loop):
                a = self.bucket_init_level(s)
                if a is not None:
                    if a <= level:
                        total = _sum(total, {1})
                        covered = True
                    i += 1
                    continue
                if covered:
                    # loops after the bucket initialisation accumulate into the bucket
                    i += 1
                    continue
                li = loop_info(s, self.roles)
                if level < self.L and self.info.out_modes[level] == self.info.dense and li.ix == self.info.out_levels[level]:
                    j, ok, why = self.full_group(lst, i, level)
                    if not ok:
                        self.fail.append((norm_text(pps(s)), why))
                    else:
                        for loop in lst[i:j]:
                            self.check_dense_body(loop, level)
                        total = _sum(total, {1})
                    i = j
                    continue
                inner = self.units(body_list(s.body), level)
                if inner != {0}:
                    total = _sum(total, {0, MANY})
                i += 1
                continue
            if isinstance(s, IR.Branch):
                t = self.units(body_list(s.if_true), level)
                f = self.units(body_list(s.if_false), level)
                total = _sum(total, t | f)
                i += 1
                continue
            if level < self.L and self.info.out_modes[level] == self.info.compressed:
                if self.structure and self.is_pos_store(s, level):
                    self.check_pos_store(s, level, lst, i)
                    total = _sum(total, {1})
            elif level == self.L:
                if self.values and self.is_direct_value_store(s):
                    total = _sum(total, {1})
            i += 1
        return total

    def need(self, lst, level, where):
        """Require exactly one unit of `level` on every path through lst (when that level has units
        in this kernel kind)."""
        if level > self.L:
            return
        if level == self.L and not self.values:
            return
        if not self.values and not any(m == self.info.compressed for m in self.info.out_modes[level:]):
            # assemble kernels write no values: trailing dense levels need no coverage
            return
        if level < self.L and self.info.out_modes[level] == self.info.compressed and not self.structure:
            # compute kernels do not write pos; still descend to check value coverage below
            self.descend_compressed(lst, level)
            return
        self.checked += 1
        got = self.units(lst, level)
        if got != {1}:
            what = (
                f"pos entry of compressed output level {level}"
                if level < self.L and self.info.out_modes[level] == self.info.compressed
                else f"full loop over dense output level {level}"
                if level < self.L
                else "output value"
            )
            self.fail.append(
                (
                    where,
                    f"{what} is written {_fmt(got)} times per parent position (must be exactly once on every path)",
                )
            )
        if level < self.L and self.info.out_modes[level] == self.info.compressed:
            self.descend_compressed(lst, level)

    def descend_compressed(self, lst, level):
        """Inside every loop over the index of compressed output level `level`: the segment between
        the flag reset and the flagged append needs exactly one unit of level+1."""
        IR = self.IR
        ix = self.info.out_levels[level]
        nxt = level + 1

        def walk(stmts):
            for s in stmts:
                if isinstance(s, IR.Loop):
                    li = loop_info(s, self.roles)
                    if li.ix == ix:
                        self.check_compressed_body(s, level)
                    else:
                        walk(body_list(s.body))
                elif isinstance(s, IR.Branch):
                    walk(body_list(s.if_true))
                    walk(body_list(s.if_false))

        walk(lst)

    def check_compressed_body(self, loop, level):
        IR = self.IR
        nxt = level + 1
        cur = self.outcur.get(level)
        segs = []

        def find(stmts):
            # segments: decl flag=false ... if (flag) {append}
            for idx, s in enumerate(stmts):
                if (
                    isinstance(s, IR.Branch)
                    and isinstance(s.condition, IR.Variable)
                    and self.roles.kind(s.condition.name) == "flag"
                    and any(kir.defined_var(t) == cur for t, _ in simple_statements(s.if_true))
                ):
                    w = s.condition.name
                    d = None
                    for j in range(idx - 1, -1, -1):
                        if isinstance(stmts[j], IR.DeclarationAssignment) and stmts[j].target.name.name == w:
                            d = j
                            break
                    if d is not None:
                        segs.append((stmts, d, idx))
                elif isinstance(s, IR.Branch):
                    find(body_list(s.if_true))
                    find(body_list(s.if_false))

        body = body_list(loop.body)
        find(body)
        if nxt > self.L:
            return
        if not segs and cur is not None:
            # compute kernels of outputs whose flags were all simplified away cannot occur: flags are
            # emitted in every kernel kind
            self.fail.append((norm_text(pps(loop)), f"loop over compressed output level {level} has no flag-reset/append segment"))
            return
        inside = 0
        for stmts, d, idx in segs:
            seg = stmts[d + 1 : idx]
            if nxt < self.L or (nxt == self.L and False):
                self.need(seg, nxt, norm_text(pps(stmts[idx])))
            elif nxt == self.L:
                # values below the last compressed level: flag raised => stored (C03.flag-iff-supported)
                pass
        # no unit of the next level outside a segment
        if nxt < self.L:
            outside = []
            seg_ids = set()
            for stmts, d, idx in segs:
                for s in stmts[d + 1 : idx]:
                    seg_ids.add(id(s))

            def scan(stmts):
                for s in stmts:
                    if id(s) in seg_ids:
                        continue
                    if isinstance(s, IR.Loop):
                        scan(body_list(s.body))
                    elif isinstance(s, IR.Branch):
                        scan(body_list(s.if_true))
                        scan(body_list(s.if_false))
                    elif self.info.out_modes[nxt] == self.info.compressed and self.structure and self.is_pos_store(s, nxt):
                        outside.append(s)

            scan(body)
            for s in outside:
                self.fail.append((norm_text(pps(s)), f"pos store of level {nxt} outside the reset..append segment of level {level}"))

    def check_dense_body(self, loop, level):
        """Body of a full counting loop over dense output level `level`: from the declaration of this
        level's output position to the end of the body, exactly one unit of level+1."""
        body = body_list(loop.body)
        self.need(body, level + 1, norm_text(pps(loop)))

    def check_pos_store(self, s, level, lst, i):
        """pos_l[parent + 1] = p_l with the right parent and the level's cursor as value."""
        IR = self.IR
        cur = self.outcur.get(level)
        if not (isinstance(s.value, IR.Variable) and s.value.name == cur):
            self.fail.append((norm_text(pps(s)), f"value stored into pos of level {level} is not the level's append cursor {cur}"))
        idx = s.target.index
        if level == 0:
            if not is_int(idx, 1):
                self.fail.append((norm_text(pps(s)), "level-0 pos entry stored at an index other than 1"))
            return
        parent = idx.left if isinstance(idx, IR.Add) and is_int(idx.right, 1) else None
        if parent is None:
            self.fail.append((norm_text(pps(s)), "pos entry index is not parent position + 1"))
            return
        if self.info.out_modes[level - 1] == self.info.compressed:
            if not (isinstance(parent, IR.Variable) and parent.name == self.outcur.get(level - 1)):
                self.fail.append((norm_text(pps(s)), f"pos entry indexed by {pp(parent)}, not by the parent level's append cursor"))
        else:
            # dense parent: Horner position of level-1, declared in this loop body
            if not isinstance(parent, IR.Variable):
                self.fail.append((norm_text(pps(s)), "pos entry indexed by a non-variable dense parent position"))
                return
            d = None
            for e in self.roles.defs.get(parent.name, []):
                d = e
            ok = False
            ixp = self.info.out_levels[level - 1]
            if level - 1 == 0:
                ok = isinstance(d, IR.Variable) and d.name == ixp
            else:
                ok = (
                    isinstance(d, IR.Add)
                    and isinstance(d.right, IR.Variable)
                    and d.right.name == ixp
                    and isinstance(d.left, IR.Multiply)
                    and isinstance(d.left.right, IR.Variable)
                    and self.roles.kind(d.left.right.name) == "dim"
                )
            if not ok:
                self.fail.append((norm_text(pps(s)), f"pos entry indexed by {parent.name} which is not the dense position of output level {level - 1}"))

    def run(self):
        top = body_list(self.fn.body)
        self.need(top, 0, "function body")
        return self.fail


def _fmt(s):
    return "{" + ",".join("many" if x == MANY else str(x) for x in sorted(s)) + "}"


def rule_k_cover(k):
    info = get_info(k)
    for kind in ("evaluate", "assemble", "compute"):
        if kind == "assemble" and not any(m == info.compressed for m in info.out_modes):
            # a fully dense output has no structure to assemble
            k.instance("C02.K-cover")
            continue
        c = Cover(k, kind)
        k.instance("C02.K-cover")
        fails = c.run()
        for where, why in fails:
            k.fail("C02.K-cover", kind, where, why)
        if not fails:
            k.ok("C02.K-cover", max(1, c.checked), sample=f"{kind}: {c.checked} unit requirements")


def rule_pos_init(k):
    """Each owned pos array has `pos[0] = 0` after its allocation and before the first loop; no other
    store to index 0."""
    IR = kir.IR
    info = get_info(k)
    for kind in ("evaluate", "assemble"):
        fn = k.kernels[kind]
        roles = get_roles(k, kind)
        k.instance("C02.pos-init")
        top = body_list(fn.body)
        for l, m in enumerate(info.out_modes):
            if m != info.compressed:
                continue
            arr = next((v for v, r in roles.role.items() if r == ("pos", info.out, l)), None)
            if arr is None:
                k.fail("C02.pos-init", kind, f"level {l}", "no pos array variable for a compressed output level")
                continue
            state = 0
            for s in top:
                if isinstance(s, IR.Loop) or isinstance(s, IR.Branch):
                    break
                if isinstance(s, IR.Assignment) and s.target == IR.Variable(arr) and isinstance(s.value, IR.ArrayAllocate):
                    state = 1
                elif state == 1 and isinstance(s, IR.Assignment) and s.target == IR.ArrayIndex(IR.Variable(arr), IR.IntegerLiteral(0)):
                    state = 2 if is_int(s.value, 0) else -1
            if state == 2:
                k.ok("C02.pos-init")
            else:
                k.fail("C02.pos-init", kind, f"{arr}[0]", "pos[0] = 0 is not stored between the allocation of pos and the first loop")


def rule_final_sizes(k):
    """Initial/final sizes: pos_l is allocated with prod(dims above)+1 elements when every level above
    is dense, otherwise shrunk by a final realloc to N(l-1)+1; crd_l is shrunk to p_l; vals to
    (p_c + 1) * prod(trailing dense dims) (or allocated with prod(all dims) when fully dense)."""
    IR = kir.IR
    info = get_info(k)
    for kind in ("evaluate", "assemble"):
        fn = k.kernels[kind]
        roles = get_roles(k, kind)
        outcur, _ = out_cursors(k, kind)
        k.instance("C02.final-sizes")
        top = body_list(fn.body)
        allocs = {}
        finals = {}
        caps = {}
        for s in top:
            if isinstance(s, IR.DeclarationAssignment):
                caps[s.target.name.name] = s.value
            if isinstance(s, IR.Assignment) and isinstance(s.target, IR.Variable):
                if isinstance(s.value, IR.ArrayAllocate):
                    allocs[s.target.name] = s.value.n_elements
                elif isinstance(s.value, IR.ArrayReallocate):
                    finals[s.target.name] = s.value.n_elements

        def canon(e):
            """polynomial with dim variables replaced by class names, direct T->dimensions[c] reads too"""
            e = _subst_dims(e, roles, info)
            p = poly(e)
            if p is None:
                return None
            out = {}
            for mono, c in p.items():
                key = []
                for v in mono:
                    rr = roles.role.get(v)
                    if rr and rr[0] == "dim":
                        cls = info.dim_class.get((rr[1], rr[2]), ())
                        key.append("D:" + (sorted({info.index_class[i] for i in cls})[0] if cls else "?"))
                    else:
                        key.append(v)
                kk = tuple(sorted(key))
                out[kk] = out.get(kk, 0) + c
            return out

        def mul(p, name):
            return {tuple(sorted(k_ + (name,))): c for k_, c in p.items()}

        def plus1(p):
            q = dict(p)
            q[()] = q.get((), 0) + 1
            return q

        N = {(): 1}  # number of positions of the previous level
        all_dense = True
        last_c = None
        for l, m in enumerate(info.out_modes):
            D = "D:" + info.index_class[info.out_levels[l]]
            if m == info.dense:
                N = mul(N, D)
                continue
            pos = next((v for v, r in roles.role.items() if r == ("pos", info.out, l)), None)
            crd = next((v for v, r in roles.role.items() if r == ("crd", info.out, l)), None)
            want = plus1(N)
            if all_dense:
                n = allocs.get(pos)
                if isinstance(n, IR.Variable) and n.name in caps:
                    n = caps[n.name]
                got = canon(n) if n is not None else None
                if got != want:
                    k.fail("C02.final-sizes", kind, f"{pos} allocation", f"pos array under dense levels allocated with {pp(n) if n is not None else None}, needs exactly parent positions + 1")
                else:
                    k.ok("C02.final-sizes")
                if pos in finals:
                    got = canon(finals[pos])
                    if got != want:
                        k.fail("C02.final-sizes", kind, f"{pos} final realloc", "pos array shrunk to a size other than parent positions + 1")
            else:
                n = finals.get(pos)
                got = canon(n) if n is not None else None
                if got != want:
                    k.fail("C02.final-sizes", kind, f"{pos} final realloc", f"pos array handed back with {pp(n) if n is not None else 'its guessed capacity'} elements, structure describes parent positions + 1")
                else:
                    k.ok("C02.final-sizes")
            n = finals.get(crd)
            cur = outcur.get(l)
            if n is None or canon(n) != {(cur,): 1}:
                k.fail("C02.final-sizes", kind, f"{crd} final realloc", f"crd array handed back with {pp(n) if n is not None else 'its guessed capacity'} elements, structure describes {cur}")
            else:
                k.ok("C02.final-sizes")
            N = {(cur,): 1}
            all_dense = False
            last_c = l
        vals = next((v for v, r in roles.role.items() if r == ("vals", info.out)), None)
        if all_dense:
            n = allocs.get(vals)
            if isinstance(n, IR.Variable) and n.name in caps:
                n = caps[n.name]
            got = canon(n) if n is not None else None
            if got != N:
                k.fail("C02.final-sizes", kind, f"{vals} allocation", f"dense output values allocated with {pp(n) if n is not None else None}, needs the product of all dimensions")
            else:
                k.ok("C02.final-sizes")
        else:
            want = plus1({(outcur.get(last_c),): 1})
            for l in range(last_c + 1, len(info.out_modes)):
                want = mul(want, "D:" + info.index_class[info.out_levels[l]])
            n = finals.get(vals)
            got = canon(n) if n is not None else None
            if got != want:
                k.fail("C02.final-sizes", kind, f"{vals} final realloc", f"value array handed back with {pp(n) if n is not None else 'its guessed capacity'} elements, needs (cursor + 1) * trailing dense dims")
            else:
                k.ok("C02.final-sizes")


def _subst_dims(e, roles, info):
    """Replace direct reads out->dimensions[c] by a pseudo-variable typed as that dimension."""
    IR = kir.IR
    if (
        isinstance(e, IR.ArrayIndex)
        and isinstance(e.target, IR.AttributeAccess)
        and e.target.attribute == "dimensions"
        and isinstance(e.target.target, IR.Variable)
        and isinstance(e.index, IR.IntegerLiteral)
    ):
        name = f"__dim_{e.target.target.name}_{e.index.value}"
        roles.role.setdefault(name, ("dim", e.target.target.name, e.index.value))
        return IR.Variable(name)
    if isinstance(e, (IR.Add, IR.Subtract, IR.Multiply)):
        return type(e)(_subst_dims(e.left, roles, info), _subst_dims(e.right, roles, info))
    return e


def rule_single_append(k):
    """At most one append per iteration of a compressed output level's loop (path-count of crd stores
    in the loop body is a subset of {0,1})."""
    IR = kir.IR
    info = get_info(k)
    for kind in ("evaluate", "assemble"):
        fn = k.kernels[kind]
        roles = get_roles(k, kind)
        k.instance("C02.single-append")

        def count(lst, level):
            total = {0}
            for s in lst:
                if isinstance(s, IR.Loop):
                    inner = count(body_list(s.body), level)
                    if inner != {0}:
                        total = _sum(total, {0, MANY})
                elif isinstance(s, IR.Branch):
                    total = _sum(total, count(body_list(s.if_true), level) | count(body_list(s.if_false), level))
                elif isinstance(s, IR.Assignment) and isinstance(s.target, IR.ArrayIndex) and isinstance(s.target.target, IR.Variable):
                    if roles.role.get(s.target.target.name) == ("crd", info.out, level):
                        total = _sum(total, {1})
            return total

        for node in kir.all_nodes(fn.body):
            if isinstance(node, IR.Loop):
                li = loop_info(node, roles)
                for l, m in enumerate(info.out_modes):
                    if m == info.compressed and info.out_levels[l] == li.ix:
                        got = count(body_list(node.body), l)
                        if got <= {0, 1}:
                            k.ok("C02.single-append")
                        else:
                            k.fail("C02.single-append", kind, norm_text(pps(node)), f"coordinate of level {l} may be appended {_fmt(got)} times in one iteration")
