"""C05 K rules: reads in bounds, writes in bounds with growth before overflow, termination.

A fact-based forward abstract interpretation over the emitted IR (never executed). State = a set of
atoms over IR variables that hold at a program point + available definitions + per-index "stepped
leaf set" for lemma L1. Obligations (array reads, stores, loops) are discharged by entailment from
the atoms; what cannot be entailed is reported with the kernel and the statement.

Input well-formedness axioms (DESIGN.md 2.2): pos values are >= 0 and non-decreasing, pos[k+1] <=
len(crd), 0 <= crd[k] < dim, crd strictly increasing in a segment, len(vals) = N(last),
dimensions of one index class are equal, dimensions >= 0, initial capacities c0 >= 1.
"""

from __future__ import annotations

from .. import kir
from ..kir import body_list, conj, expr_vars, is_int, norm_text, poly, pp, pps, subexprs
from .addr import _min_leaves, loop_info
from .base import get_info, get_roles
from .flags import out_cursors


class State:
    __slots__ = ("facts", "defs", "l1")

    def __init__(self, facts=None, defs=None, l1=None):
        self.facts = set(facts or ())
        self.defs = dict(defs or {})
        self.l1 = dict(l1 or {})  # index var -> frozenset of cursors stepped in every loop since ix = 0 (None = all)

    def copy(self):
        return State(self.facts, self.defs, self.l1)

    def kill(self, v):
        self.facts = {f for f in self.facts if v not in f[1:]}
        self.defs = {u: e for u, e in self.defs.items() if u != v and v not in expr_vars(e)}

    def same(self, o):
        return self.facts == o.facts and self.defs == o.defs and self.l1 == o.l1


def join(a: State, b: State) -> State:
    l1 = {}
    for i in set(a.l1) & set(b.l1):
        if a.l1[i] == b.l1[i]:
            l1[i] = a.l1[i]
    return State(a.facts & b.facts, {u: e for u, e in a.defs.items() if b.defs.get(u) == e}, l1)


class Analysis:
    def __init__(self, k, kind):
        self.k = k
        self.kind = kind
        self.IR = kir.IR
        self.fn = k.kernels[kind]
        self.roles = get_roles(k, kind)
        self.info = get_info(k)
        self.outcur, _ = out_cursors(k, kind)
        self.out_cursor_names = set(self.outcur.values())
        self.report = False
        self.fails = []  # (rule, stmt text, message)
        self.counts = {"reads": 0, "writes": 0, "loops": 0, "l1": 0}
        # formats per tensor (level -> dimension)
        self.fm = k.problem.formats

    # ---- helpers -------------------------------------------------------------------------------
    def level_index_class(self, T, l):
        d = self.fm[T].ordering[l]
        return self.info.dim_class.get((T, d), set())

    def fail(self, rule, s, msg):
        if self.report:
            self.fails.append((rule, norm_text(pps(s)) if not isinstance(s, str) else s, msg))

    def modes(self, T):
        return self.fm[T].modes

    def is_dim_of(self, dvar, ix):
        rr = self.roles.role.get(dvar)
        return bool(rr and rr[0] == "dim" and ix in self.info.dim_class.get((rr[1], rr[2]), ()))

    # strict position of input tensor T at level l (l = -1: root)
    def strict(self, e, T, l, st, depth=0):
        IR = self.IR
        if l == -1:
            return is_int(e, 0)
        if self.modes(T)[l] == self.info.compressed:
            if not isinstance(e, IR.Variable):
                return False
            r = self.roles.role.get(e.name)
            if not (r and r[0] == "cursor" and r[1] == T and r[2] == l):
                return False
            if ("nn", e.name) not in st.facts:
                return False
            for f in st.facts:
                if f[0] == "lt" and f[1] == e.name and ("segend", f[2], T, l) in st.facts:
                    return True
            return False
        # dense level: Horner over a strict parent and an index variable in range
        if isinstance(e, IR.Variable) and self.roles.kind(e.name) != "idx":
            d = st.defs.get(e.name)
            if d is None:
                return False
        else:
            d = e
        cls = self.level_index_class(T, l)
        if l == 0:
            return isinstance(d, IR.Variable) and d.name in cls and ("idxs", d.name) in st.facts
        if not (
            isinstance(d, IR.Add)
            and isinstance(d.right, IR.Variable)
            and d.right.name in cls
            and ("idxs", d.right.name) in st.facts
            and isinstance(d.left, IR.Multiply)
            and isinstance(d.left.right, IR.Variable)
            and self.is_dim_of(d.left.right.name, d.right.name)
        ):
            return False
        return self.strict(d.left.left, T, l - 1, st, depth + 1)

    # ---- reads ---------------------------------------------------------------------------------
    def check_reads(self, e, st, s, skip=None):
        IR = self.IR
        for x in subexprs(e):
            if x is skip:
                continue
            if not (isinstance(x, IR.ArrayIndex) and isinstance(x.target, IR.Variable)):
                # struct reads T->dimensions[c], T->indices[l][k], T->vals: c < order, l < order
                if isinstance(x, IR.ArrayIndex):
                    self.check_struct_read(x, s)
                continue
            r = self.roles.role.get(x.target.name)
            if r is None:
                self.fail("C05.reads", s, f"read through untyped array {x.target.name}")
                continue
            if r[0] == "bucket":
                continue  # accumulate read: same cell as the store, covered by the write obligation
            if r[0] not in ("pos", "crd", "vals"):
                self.fail("C05.reads", s, f"indexing {r[0]} variable {x.target.name}")
                continue
            T = r[1]
            if T == self.info.out:
                # output arrays are never read (C05.store-roots); counted there
                continue
            if self.report:
                self.counts["reads"] += 1
            idx = x.index
            if r[0] == "pos":
                l = r[2]
                base = idx.left if isinstance(idx, IR.Add) and is_int(idx.right, 1) else None
                ok = False
                if l == 0:
                    ok = is_int(idx, 0) or is_int(idx, 1)
                else:
                    ok = self.strict(idx, T, l - 1, st) or (base is not None and self.strict(base, T, l - 1, st))
                if not ok:
                    self.fail("C05.reads", s, f"{pp(x)}: index is not provably a position of level {l - 1} of {T} (or that + 1)")
            elif r[0] == "crd":
                if not self.strict(idx, T, r[2], st):
                    self.fail("C05.reads", s, f"{pp(x)}: cursor is not provably inside its segment (0 <= p < end <= len(crd)) at this point")
            else:
                order = len(self.modes(T))
                ok = is_int(idx, 0) if order == 0 else self.strict(idx, T, order - 1, st)
                if not ok:
                    self.fail("C05.reads", s, f"{pp(x)}: index is not provably a stored position of {T}")

    def check_struct_read(self, x, s):
        IR = self.IR
        t = x.target
        if isinstance(t, IR.AttributeAccess) and isinstance(t.target, IR.Variable) and isinstance(x.index, IR.IntegerLiteral):
            T = t.target.name
            if T in self.fm and not (0 <= x.index.value < len(self.fm[T].modes)):
                self.fail("C05.reads", s, f"{pp(x)}: index outside the tensor's order")
            if T in self.fm and t.attribute == "indices" and self.fm[T].modes[x.index.value] != self.info.compressed:
                self.fail("C05.reads", s, f"{pp(x)}: indices of a dense level are not allocated")

    # ---- writes --------------------------------------------------------------------------------
    def canon_poly(self, e, st, depth=0):
        """Polynomial of e with Horner-defined positions expanded and dimension variables replaced by
        class symbols. Returns dict or None."""
        IR = self.IR
        e = self._expand(e, st, 0)
        if e is None:
            return None
        p = poly(e)
        if p is None:
            return None
        out = {}
        for mono, c in p.items():
            key = []
            for v in mono:
                rr = self.roles.role.get(v)
                if rr and rr[0] == "dim":
                    cls = self.info.dim_class.get((rr[1], rr[2]), ())
                    key.append("D:" + (sorted({self.info.index_class[i] for i in cls})[0] if cls else f"{rr[1]}.{rr[2]}"))
                else:
                    key.append(v)
            kk = tuple(sorted(key))
            out[kk] = out.get(kk, 0) + c
        return {k_: v for k_, v in out.items() if v}

    def _expand(self, e, st, depth):
        IR = self.IR
        if depth > 12:
            return None
        if isinstance(e, IR.Variable):
            k = self.roles.kind(e.name)
            if k in ("idx", "dim") or e.name in self.out_cursor_names:
                return e
            d = st.defs.get(e.name)
            if d is not None and k is None:
                return self._expand(d, st, depth + 1)
            return e
        if isinstance(e, (IR.Add, IR.Subtract, IR.Multiply)):
            a = self._expand(e.left, st, depth + 1)
            b = self._expand(e.right, st, depth + 1)
            if a is None or b is None:
                return None
            return type(e)(a, b)
        if isinstance(e, IR.IntegerLiteral):
            return e
        if (
            isinstance(e, IR.ArrayIndex)
            and isinstance(e.target, IR.AttributeAccess)
            and e.target.attribute == "dimensions"
            and isinstance(e.target.target, IR.Variable)
            and isinstance(e.index, IR.IntegerLiteral)
        ):
            name = f"__dim_{e.target.target.name}_{e.index.value}"
            self.roles.role.setdefault(name, ("dim", e.target.target.name, e.index.value))
            return IR.Variable(name)
        return None

    def upper(self, p, st):
        """Upper bound of a polynomial with non-negative coefficients: every index variable i (with
        IdxS) is replaced by D(i) - 1, every plain counter k with a guard fact k < B by B - 1; output
        cursors and dimensions stay symbolic. Returns polynomial or None."""
        out = {}
        for mono, c in p.items():
            if c < 0:
                return None
            acc = {(): c}
            for v in mono:
                if v.startswith("D:") or v in self.out_cursor_names:
                    fac = {(v,): 1}
                elif self.roles.kind(v) == "idx":
                    if ("idxs", v) not in st.facts:
                        return None
                    fac = {("D:" + self.info.index_class[v],): 1, (): -1}
                else:
                    b = [f for f in st.facts if f[0] == "ltp" and f[1] == v]
                    if not b or ("nn", v) not in st.facts:
                        return None
                    fac = dict(b[0][2])
                    fac[()] = fac.get((), 0) - 1
                acc = _mul(acc, fac)
            for m, cc in acc.items():
                out[m] = out.get(m, 0) + cc
        return {k_: v for k_, v in out.items() if v}

    def check_store(self, s, st):
        IR = self.IR
        t = s.target
        if not (isinstance(t, IR.ArrayIndex) and isinstance(t.target, IR.Variable)):
            return  # struct slot stores: C13.slots
        r = self.roles.role.get(t.target.name)
        if not r or r[0] not in ("pos", "crd", "vals", "bucket") or r[1] != self.info.out:
            return  # C05.store-roots reports it
        if self.report:
            self.counts["writes"] += 1
        arr = t.target.name
        idx = t.index
        if r[0] == "bucket":
            bdef = st.defs.get(arr)
            if bdef is None:
                self.fail("C05.writes", s, f"bucket {arr} has no reaching definition")
                return
            base = bdef.left if isinstance(bdef, IR.Add) else bdef
            off = bdef.right if isinstance(bdef, IR.Add) else IR.IntegerLiteral(0)
            if not (isinstance(base, IR.Variable) and self.roles.role.get(base.name) == ("vals", self.info.out)):
                self.fail("C05.writes", s, f"bucket {arr} is not an offset into the output value array")
                return
            arr = base.name
            idx = IR.Add(off, idx)
        ip = self.canon_poly(idx, st)
        if ip is None:
            self.fail("C05.writes", s, f"store index {pp(idx)} is not a polynomial over cursors, dimensions and loop variables")
            return
        if self.kind == "compute":
            # compute writes where evaluate writes (C04.2) into what assemble sized (C02.final-sizes):
            # index must be bounded by (cursor + 1) * trailing dims, cursors monotone (C03.flag-gating)
            up = self.upper(ip, st)
            if up is None:
                self.fail("C05.writes", s, f"compute store index {pp(idx)} has an unbounded component")
                return
            want = self.final_vals_size()
            if want is None or not _nonneg(_sub(want, _add1(up))):
                self.fail("C05.writes", s, f"compute store index {pp(idx)} can exceed the size assemble gave the value array")
            return
        fresh = [f for f in st.facts if f[0] == "fresh" and f[1] == arr]
        up = self.upper(ip, st)
        if up is None:
            self.fail("C05.writes", s, f"store index {pp(idx)}: a loop variable in it is not provably inside its dimension here")
            return
        if fresh:
            for f in fresh:
                E = dict(f[2])
                strict_needed = f[3]  # doubling form gives E < cap (idx <= E suffices); max form gives E <= cap (idx < E needed)
                diff = _sub(E, up)
                if strict_needed:
                    diff = _sub(diff, {(): 1})
                if _nonneg(diff):
                    return
            self.fail(
                "C05.writes",
                s,
                f"store at {pp(idx)} is not covered by a capacity check still in force (checks in force: "
                f"{[_ppoly(dict(f[2])) for f in fresh]})",
            )
            return
        # fixed-size array: Len(arr) = cap with available definition
        lens = [f for f in st.facts if f[0] == "len" and f[1] == arr]
        for f in lens:
            capdef = st.defs.get(f[2])
            if capdef is None:
                continue
            S = self.canon_poly(capdef, st)
            if S is not None and _nonneg(_sub(S, _add1(up))):
                # Len(arr) = cap and cap's initialiser is still its value here (an assignment to cap
                # kills the available definition), so this is sound for growable arrays too
                return
        self.fail(
            "C05.writes",
            s,
            f"store at {pp(idx)} into {arr} without a capacity check in force and not provably inside its allocation",
        )

    def final_vals_size(self):
        """(p_c + 1) * trailing dense dims, or product of all dims for a dense output (as polynomial)."""
        info = self.info
        last_c = None
        for l, m in enumerate(info.out_modes):
            if m == info.compressed:
                last_c = l
        if last_c is None:
            p = {(): 1}
            rng = range(len(info.out_modes))
        else:
            cur = self.outcur.get(last_c)
            if cur is None:
                return None
            p = {(cur,): 1, (): 1}
            rng = range(last_c + 1, len(info.out_modes))
        for l in rng:
            D = "D:" + info.index_class[info.out_levels[l]]
            p = {tuple(sorted(k_ + (D,))): c for k_, c in p.items()}
        return p

    # ---- transfer ------------------------------------------------------------------------------
    def transfer(self, s, st):
        IR = self.IR
        roles = self.roles
        if isinstance(s, IR.Declaration):
            st.kill(s.name.name)
            return st
        if isinstance(s, IR.Return):
            self.check_reads(s.value, st, s)
            return st
        if isinstance(s, IR.Assignment) and not isinstance(s.target, IR.Variable):
            self.check_reads(s.value, st, s)
            if isinstance(s.target, IR.ArrayIndex):
                self.check_reads(s.target.index, st, s)
            self.check_store(s, st)
            return st
        if not isinstance(s, (IR.Assignment, IR.DeclarationAssignment)):
            self.fail("C05.reads", s, "unknown statement")
            return st
        v = kir.defined_var(s)
        val = s.value
        self.check_reads(val, st, s)
        new = set()
        role = roles.role.get(v)
        # allocation
        if isinstance(val, (IR.ArrayAllocate, IR.ArrayReallocate)):
            st.kill(v)
            if isinstance(val.n_elements, IR.Variable):
                st.facts.add(("len", v, val.n_elements.name))
            return st
        if isinstance(val, IR.ArrayIndex) and isinstance(val.target, IR.Variable):
            ar = roles.role.get(val.target.name)
            if ar and ar[0] == "pos" and ar[1] != self.info.out and role:
                if role[0] == "end":
                    new.add(("segend", v, ar[1], ar[2]))
                elif role[0] == "cursor":
                    new.add(("nn", v))
            if ar and ar[0] == "crd" and ar[1] != self.info.out and role and role[0] == "coord":
                new.add(("crdv", v, ar[1], ar[2]))
        if isinstance(val, IR.IntegerLiteral) and val.value >= 0:
            new.add(("nn", v))
        # index variable defined as min / copy of valid coordinates of levels indexed by its class
        if role and role[0] == "idx":
            leaves = _min_leaves(val)
            if leaves and all(isinstance(x, IR.Variable) for x in leaves):
                ok = True
                for x in leaves:
                    cf = [f for f in st.facts if f[0] == "crdv" and f[1] == x.name]
                    if not cf or v not in self.level_index_class(cf[0][2], cf[0][3]):
                        ok = False
                if ok:
                    new.add(("idxs", v))
                    new.add(("nn", v))
            if is_int(val, 0):
                # lemma L1 bookkeeping: the sequence of guard sets of the loops over this index since ix = 0
                st.l1[v] = ()
            elif val == IR.Add(IR.Variable(v), IR.IntegerLiteral(1)):
                pass  # handled by the enclosing loop's rule (l1 bookkeeping at loop exit)
            else:
                st.l1.pop(v, None)
        # self-referential updates
        if v in expr_vars(val):
            keep_nn = ("nn", v) in st.facts and isinstance(val, IR.Add) and val.left == IR.Variable(v) and (
                isinstance(val.right, IR.BooleanToInteger) or (isinstance(val.right, IR.IntegerLiteral) and val.right.value >= 0)
            )
            st.kill(v)
            if keep_nn:
                st.facts.add(("nn", v))
            return st
        st.kill(v)
        st.defs[v] = val
        st.facts |= new
        return st

    def guard_facts(self, cond, st):
        IR = self.IR
        for c in conj(cond):
            if isinstance(c, IR.LessThan) and isinstance(c.left, IR.Variable) and isinstance(c.right, IR.Variable):
                a, b = c.left.name, c.right.name
                st.facts.add(("lt", a, b))
                if self.roles.kind(a) == "idx" and self.is_dim_of(b, a) and ("nn", a) in st.facts:
                    st.facts.add(("idxs", a))
            if (
                isinstance(c, IR.LessThan)
                and isinstance(c.left, IR.Variable)
                and self.roles.kind(c.left.name) is None
                and ("nn", c.left.name) in st.facts
            ):
                bp = self.canon_poly(c.right, st)
                if bp is not None and all(v.startswith("D:") for m in bp for v in m):
                    st.facts.add(("ltp", c.left.name, tuple(sorted(bp.items()))))

    # ---- capacity guards -----------------------------------------------------------------------
    def match_capacity_guard(self, n, st):
        """if (E >= cap) { cap = cap*2 | max(cap*2, E); arr = realloc(arr, cap) } -> (arr, E poly, nonstrict?)"""
        IR = self.IR
        if not isinstance(n.condition, IR.GreaterThanOrEqual) or not isinstance(n.condition.right, IR.Variable):
            return None
        if body_list(n.if_false):
            return None
        cap = n.condition.right
        E = n.condition.left
        body = body_list(n.if_true)
        if len(body) != 2:
            return None
        a1, a2 = body
        if not (isinstance(a1, IR.Assignment) and a1.target == cap):
            return None
        dbl = IR.Multiply(cap, IR.IntegerLiteral(2))
        if a1.value == dbl:
            nonstrict = False
        elif a1.value == IR.Max(dbl, E):
            nonstrict = True
        else:
            return None
        if not (
            isinstance(a2, IR.Assignment)
            and isinstance(a2.target, IR.Variable)
            and isinstance(a2.value, IR.ArrayReallocate)
            and a2.value.old == a2.target
            and a2.value.n_elements == cap
        ):
            return None
        arr = a2.target.name
        if ("len", arr, cap.name) not in st.facts:
            return None
        Ep = self.canon_poly(E, st)
        if Ep is None:
            return None
        # E may only mention output cursors and dimensions
        for mono in Ep:
            for v in mono:
                if not (v.startswith("D:") or v in self.out_cursor_names):
                    return None
        if not nonstrict:
            # doubling suffices only under the invariant E <= cap, which needs E = p or p + 1 for an
            # append cursor p that advances by one per check, and an initial capacity >= 1
            shape_ok = False
            for mono, c in Ep.items():
                pass
            keys = set(Ep)
            curs = [m for m in keys if m != ()]
            if len(curs) == 1 and len(curs[0]) == 1 and Ep[curs[0]] == 1 and Ep.get((), 0) in (0, 1) and keys <= {curs[0], ()}:
                shape_ok = True
            if not shape_ok:
                return None
        return arr, tuple(sorted(Ep.items())), nonstrict, cap.name

    # ---- loops ---------------------------------------------------------------------------------
    def loop_rule(self, n, st):
        """Classify the loop and check its ranking argument. Returns ('counting'|'sparse'|'l1'|'init', info)
        or None when no argument applies."""
        IR = self.IR
        roles = self.roles
        body = body_list(n.body)
        li = loop_info(n, roles)
        guards = conj(n.condition)
        assigned = {}
        for s, _ in kir.simple_statements(n.body):
            v = kir.defined_var(s)
            if v is not None:
                assigned.setdefault(v, []).append(s)
        # plain counting loop: single guard `i < B`, last statement i++, i assigned once, B not assigned
        if len(guards) == 1 and isinstance(guards[0], IR.LessThan) and isinstance(guards[0].left, IR.Variable):
            i = guards[0].left.name
            inc = IR.Assignment(IR.Variable(i), IR.Add(IR.Variable(i), IR.IntegerLiteral(1)))
            if body and body[-1] == inc and len(assigned.get(i, [])) == 1 and not (expr_vars(guards[0].right) & set(assigned)):
                if roles.kind(i) == "idx":
                    if isinstance(guards[0].right, IR.Variable) and self.is_dim_of(guards[0].right.name, i):
                        return ("counting", i)
                    return None
                if roles.kind(i) is None:
                    return ("init", i)
        # cursor loops
        if li.guarded and len(li.guarded) == len(guards):
            curs = li.guarded
            ends = [g.right.name for g in guards]
            if any(e in assigned for e in ends):
                return None
            # every guarded cursor assigned exactly once: p += (c == ix), c := crd[p] first
            coords = {}
            for p in curs:
                ss = assigned.get(p, [])
                if len(ss) != 1 or ss[0] not in body:
                    return None
                s = ss[0]
                v = s.value
                if not (
                    isinstance(v, IR.Add)
                    and v.left == s.target
                    and isinstance(v.right, IR.BooleanToInteger)
                    and isinstance(v.right.expression, IR.Equal)
                    and isinstance(v.right.expression.left, IR.Variable)
                    and isinstance(v.right.expression.right, IR.Variable)
                    and v.right.expression.right.name == li.ix
                ):
                    return None
                c = v.right.expression.left.name
                rc = roles.role.get(c)
                if not (rc and rc[0] == "coord" and rc[3] == p):
                    return None
                if len(assigned.get(c, [])) != 1 or assigned[c][0] not in body:
                    return None
                coords[p] = c
            if li.kind == "sparse":
                # ix := min(coords of guarded cursors) declared in the body, assigned once
                if len(assigned.get(li.ix, [])) != 1:
                    return None
                if set(li.coords) != set(coords.values()):
                    return None
                # order: coordinate reads, then ix, ..., steps last
                return ("sparse", li.ix)
            if li.kind == "counting":
                i = li.ix
                if len(assigned.get(i, [])) != 1:
                    return None
                k = len(curs)
                heads = body[:k]
                steps = body[-1 - k : -1]
                if {kir.defined_var(h) for h in heads} != set(coords.values()):
                    return None
                if {kir.defined_var(x) for x in steps} != set(curs):
                    return None
                # every guarded leaf must be a level indexed by i's class (so crd < dim(i))
                for p in curs:
                    rp = roles.role[p]
                    if i not in self.level_index_class(rp[1], rp[2]):
                        return None
                # Lemma L1 needs Inv_m ("cursor m alive => i <= crd_m[p_m]") for every guarded m. An earlier
                # loop j of the sequence preserves it if it steps all of these cursors (S' <= S_j), or if it
                # cannot have run an iteration while all of S' are alive: some still earlier loop's exit
                # clause (one member of S_i is exhausted) contradicts "S_j and S' all alive" (S_i <= S_j | S').
                seq = st.l1.get(i)
                if seq is None:
                    return None
                Sp = frozenset(curs)
                for j, Sj in enumerate(seq):
                    if Sp <= Sj:
                        continue
                    if any(Si and Si <= (Sj | Sp) for Si in seq[:j]):
                        continue
                    return None
                return ("l1", i)
        return None

    # ---- walk ----------------------------------------------------------------------------------
    def visit(self, n, st):
        IR = self.IR
        if isinstance(n, IR.Block):
            for s in n.statements:
                st = self.visit(s, st)
            return st
        if isinstance(n, IR.Branch):
            self.check_reads(n.condition, st, n)
            g = self.match_capacity_guard(n, st) if self.kind != "compute" else None
            a = st.copy()
            self.guard_facts(n.condition, a)
            a = self.visit(n.if_true, a)
            b = self.visit(n.if_false, st.copy())
            out = join(a, b)
            if g is not None:
                arr, Ep, nonstrict, cap = g
                out.facts.add(("fresh", arr, Ep, nonstrict))
            return out
        if isinstance(n, IR.Loop):
            entry = st
            rule = self.loop_rule(n, entry)
            if self.report:
                self.counts["loops"] += 1
                if rule is None:
                    self.fail(
                        "C05.termination",
                        n,
                        "no ranking argument: not a counting loop to its dimension, not a cursor loop stepping every "
                        "guarded cursor with the minimum coordinate, and lemma L1's premises (all guarded cursors stepped "
                        "in every loop since the index was 0) do not hold",
                    )
                elif rule[0] == "l1":
                    self.counts["l1"] += 1
            head = entry.copy()
            saved = self.report
            self.report = False
            for _ in range(6):
                b = head.copy()
                self.guard_facts(n.condition, b)
                self.loop_entry_facts(n, rule, b)
                bo = self.visit(n.body, b)
                nh = join(entry, bo)
                nh = join(nh, head)
                if nh.same(head):
                    break
                head = nh
            self.report = saved
            if self.report:
                self.check_reads(n.condition, head, n)
                b = head.copy()
                self.guard_facts(n.condition, b)
                self.loop_entry_facts(n, rule, b)
                self.visit(n.body, b)
            out = head.copy()
            # after the loop: append this loop's guard set to the index's sequence (lemma L1 bookkeeping)
            li = loop_info(n, self.roles)
            touched = {v for v in kir.assigned_vars(n.body) if self.roles.kind(v) == "idx"}
            if rule is not None and rule[0] in ("l1", "counting") and rule[1] in entry.l1:
                i = rule[1]
                S = frozenset(li.guarded) if rule[0] == "l1" else frozenset()
                out.l1[i] = entry.l1[i] + (S,)
                touched.discard(i)
            for v in touched:
                out.l1.pop(v, None)
            return out
        return self.transfer(n, st)

    def loop_entry_facts(self, n, rule, b):
        if rule is not None and rule[0] == "l1":
            i = rule[1]
            if ("nn", i) in b.facts or True:
                b.facts.add(("idxs", i))
                b.facts.add(("nn", i))
            # inside the body the stepped set is unchanged until the steps at the end
        if rule is not None and rule[0] == "counting":
            pass

    def run(self):
        self.report = True
        st = State()
        self.visit(self.fn.body, st)
        return self.fails


def _mul(a, b):
    out = {}
    for k1, v1 in a.items():
        for k2, v2 in b.items():
            kk = tuple(sorted(k1 + k2))
            out[kk] = out.get(kk, 0) + v1 * v2
    return {k: v for k, v in out.items() if v}


def _sub(a, b):
    out = dict(a)
    for k, v in b.items():
        out[k] = out.get(k, 0) - v
    return {k: v for k, v in out.items() if v}


def _add1(p):
    q = dict(p)
    q[()] = q.get((), 0) + 1
    return {k: v for k, v in q.items() if v}


def _nonneg(p):
    return all(v >= 0 for v in p.values())


def _ppoly(p):
    return " + ".join(f"{c}*{'*'.join(m) or '1'}" for m, c in sorted(p.items())) or "0"


def rule_memory_safety(k):
    for kind in ("evaluate", "assemble", "compute"):
        a = Analysis(k, kind)
        k.instance("C05.reads")
        k.instance("C05.writes")
        k.instance("C05.termination")
        fails = a.run()
        seen = set()
        nf = {"C05.reads": 0, "C05.writes": 0, "C05.termination": 0}
        for rule, stmt, msg in fails:
            if (rule, stmt, msg) in seen:
                continue
            seen.add((rule, stmt, msg))
            nf[rule] += 1
            k.fail(rule, kind, stmt, msg)
        k.ok("C05.reads", max(0, a.counts["reads"] - nf["C05.reads"]), sample=f"{kind}: {a.counts['reads']} array reads")
        k.ok("C05.writes", max(0, a.counts["writes"] - nf["C05.writes"]), sample=f"{kind}: {a.counts['writes']} stores")
        k.ok(
            "C05.termination",
            max(0, a.counts["loops"] - nf["C05.termination"]),
            sample=f"{kind}: {a.counts['loops']} loops, {a.counts['l1']} by lemma L1",
        )


def rule_capacity_init(k):
    """Initial capacities of growable arrays are >= 1 (doubling must grow): the capacity variable's
    initialiser is a positive integer constant or `something + 1`."""
    IR = kir.IR
    for kind in ("evaluate", "assemble"):
        fn = k.kernels[kind]
        roles = get_roles(k, kind)
        k.instance("C05.capacity-init")
        caps = {}
        for s in body_list(fn.body):
            if isinstance(s, IR.DeclarationAssignment):
                caps[s.target.name.name] = s.value
        for s, path in kir.simple_statements(fn.body):
            if path and isinstance(s, IR.Assignment) and isinstance(s.value, IR.ArrayReallocate) and isinstance(s.value.n_elements, IR.Variable):
                cap = s.value.n_elements.name
                init = caps.get(cap)
                p = poly(init) if init is not None else None
                okc = p is not None and set(p) == {()} and p[()] >= 1
                if okc:
                    k.ok("C05.capacity-init")
                else:
                    k.fail("C05.capacity-init", kind, f"{cap}", f"growable array's initial capacity {pp(init) if init is not None else None} is not a positive constant: doubling may not grow it")


def rule_compute_writes(k):
    """C04.5: every store of the compute kernel is bounded by the size assemble's final realloc gave the
    value array ((cursor + 1) * trailing dense dims, cursors monotone)."""
    a = Analysis(k, "compute")
    k.instance("C04.compute-writes")
    fails = [(r, s, m) for r, s, m in a.run() if r == "C05.writes"]
    seen = set()
    for r, s, m in fails:
        if (s, m) not in seen:
            seen.add((s, m))
            k.fail("C04.compute-writes", "compute", s, m)
    k.ok("C04.compute-writes", max(0, a.counts["writes"] - len(seen)), sample=f"{a.counts['writes']} stores of compute inside the assembled value array")
