"""C06 rule 8 / C08: emitted kernels stay inside what both printers support.

IR type inference on every kernel; the operand-type pairs accepted for + - * are read from the
`match` statements of the LLVM printer's source (not hard-coded), so that printer and kernels
are checked against each other.
"""

from __future__ import annotations

import ast
from pathlib import Path

from .. import kir
from ..kir import norm_text, pp, pps
from .base import kir_types

_CASES = {}


def llvm_binop_cases(src: str):
    """{'Add': {('int','int'), ...}, ...} extracted from codegen/_ir_to_llvm.py."""
    if src in _CASES:
        return _CASES[src]
    path = Path(src) / "tensora" / "codegen" / "_ir_to_llvm.py"
    tree = ast.parse(path.read_text())
    names = {"IntType": "int", "DoubleType": "float", "PointerType": "ptr"}
    out = {}
    for fn in tree.body:
        if not isinstance(fn, ast.FunctionDef):
            continue
        reg = None
        for d in fn.decorator_list:
            if (
                isinstance(d, ast.Call)
                and isinstance(d.func, ast.Attribute)
                and d.func.attr == "register"
                and isinstance(d.func.value, ast.Name)
                and d.func.value.id == "ir_to_llvm_expression"
                and d.args
                and isinstance(d.args[0], ast.Name)
            ):
                reg = d.args[0].id
        if reg not in ("Add", "Subtract", "Multiply"):
            continue
        cases = set()
        # the function's own match arms and those of module-level helpers it calls (an extracted shared lowering)
        module_fns = {f.name: f for f in tree.body if isinstance(f, ast.FunctionDef)}
        todo, seen_fns = [fn], []
        while todo:
            g = todo.pop()
            if g in seen_fns:
                continue
            seen_fns.append(g)
            for node in ast.walk(g):
                if isinstance(node, ast.Call) and isinstance(node.func, ast.Name) and node.func.id in module_fns and node.func.id != "ir_to_llvm_expression":
                    h = module_fns[node.func.id]
                    if not h.decorator_list or all("register" not in ast.unparse(d) for d in h.decorator_list):
                        todo.append(h)
        for node in (n_ for g in seen_fns for n_ in ast.walk(g)):
            if isinstance(node, ast.Match):
                for c in node.cases:
                    p = c.pattern
                    if isinstance(p, ast.MatchSequence) and len(p.patterns) == 2:
                        pair = []
                        for q in p.patterns:
                            if isinstance(q, ast.MatchClass) and isinstance(q.cls, ast.Attribute):
                                pair.append(names.get(q.cls.attr, q.cls.attr))
                        if len(pair) == 2:
                            # the arm must not raise
                            raises = any(isinstance(x, ast.Raise) for b in c.body for x in ast.walk(b))
                            if not raises:
                                cases.add(tuple(pair))
        out[reg] = cases
    _CASES[src] = out
    return out


def _ty(t):
    T = kir_types()
    if isinstance(t, T.Integer):
        return "int"
    if isinstance(t, T.Float):
        return "float"
    if isinstance(t, T.Boolean):
        return "bool"
    if isinstance(t, T.Pointer):
        return ("ptr", _ty(t.target))
    if isinstance(t, T.Tensor):
        return "tensor"
    if isinstance(t, T.Mode):
        return "mode"
    if isinstance(t, T.Array):
        return ("ptr", _ty(t.element))
    return f"?{type(t).__name__}"


_ATTR = {
    "dimensions": ("ptr", "int"),
    "indices": ("ptr", ("ptr", ("ptr", "int"))),
    "vals": ("ptr", "float"),
}


class TypeErr(Exception):
    pass


def infer(e, env, cases):
    IR = kir.IR
    n = type(e).__name__
    if isinstance(e, IR.Variable):
        if e.name not in env:
            raise TypeErr(f"use of undeclared variable {e.name}")
        return env[e.name]
    if isinstance(e, IR.AttributeAccess):
        t = infer(e.target, env, cases)
        if t != ("ptr", "tensor"):
            raise TypeErr(f"attribute access on {t}")
        if e.attribute not in _ATTR:
            raise TypeErr(f"attribute {e.attribute} has no LLVM field index")
        return _ATTR[e.attribute]
    if isinstance(e, IR.ArrayIndex):
        t = infer(e.target, env, cases)
        i = infer(e.index, env, cases)
        if not (isinstance(t, tuple) and t[0] == "ptr"):
            raise TypeErr(f"indexing non-pointer {t} in {pp(e)}")
        if i != "int":
            raise TypeErr(f"array index of type {i} in {pp(e)}")
        return t[1]
    if isinstance(e, IR.IntegerLiteral):
        return "int"
    if isinstance(e, IR.FloatLiteral):
        return "float"
    if isinstance(e, IR.BooleanLiteral):
        return "bool"
    if n in ("Add", "Subtract", "Multiply"):
        a = infer(e.left, env, cases)
        b = infer(e.right, env, cases)
        ka = "ptr" if isinstance(a, tuple) else a
        kb = "ptr" if isinstance(b, tuple) else b
        if (ka, kb) not in cases.get(n, ()):
            raise TypeErr(f"{n} of ({ka}, {kb}) is not a case of the LLVM printer: {pp(e)}")
        if ka == "ptr":
            return a
        if {ka, kb} == {"int", "float"}:
            # the int side is a user literal (or arithmetic on literals) evaluated in int32: a literal that does not
            # fit is truncated by the LLVM printer and kept as a long by C, and literal arithmetic overflows
            raise TypeErr(f"int operand promoted to double inside value arithmetic (int32 overflow / truncation of a literal): {pp(e)}")
        return "float" if "float" in (ka, kb) else "int"
    if n in ("Equal", "NotEqual", "GreaterThan", "LessThan", "GreaterThanOrEqual", "LessThanOrEqual"):
        a = infer(e.left, env, cases)
        b = infer(e.right, env, cases)
        if a != "int" or b != "int":
            raise TypeErr(f"comparison of ({a}, {b}) printed as signed integer compare: {pp(e)}")
        return "bool"
    if n in ("Min", "Max"):
        a = infer(e.left, env, cases)
        b = infer(e.right, env, cases)
        if a != "int" or b != "int":
            raise TypeErr(f"{n} of ({a}, {b}): LLVM printer uses icmp: {pp(e)}")
        return "int"
    if n in ("And", "Or"):
        a = infer(e.left, env, cases)
        b = infer(e.right, env, cases)
        if a != "bool" or b != "bool":
            raise TypeErr(f"{n} of ({a}, {b}): {pp(e)}")
        return "bool"
    if n == "BooleanToInteger":
        a = infer(e.expression, env, cases)
        if a != "bool":
            raise TypeErr(f"BooleanToInteger of {a}")
        return "int"
    if n == "ArrayAllocate":
        if infer(e.n_elements, env, cases) != "int":
            raise TypeErr("allocation size is not int")
        return ("ptr", _ty(e.element_type))
    if n == "ArrayReallocate":
        if infer(e.n_elements, env, cases) != "int":
            raise TypeErr("allocation size is not int")
        o = infer(e.old, env, cases)
        if o != ("ptr", _ty(e.element_type)):
            raise TypeErr(f"realloc of {o} as {('ptr', _ty(e.element_type))}")
        return o
    raise TypeErr(f"unknown expression class {n}")


def _store_ok(vt, tt):
    return vt == tt or (vt == "int" and tt == "float")


def rule_kernel_typing(k):
    """Type every expression; stores are int->int, float->float, int->float, same-pointer; conditions
    are boolean; one declared type per name per function; valid C scoping; no expression statements;
    declared-before-use with an initialiser."""
    IR = kir.IR
    cases = llvm_binop_cases(_src_of(k))
    for kind, fn in k.kernels.items():
        k.instance("C06.kernel-typing")
        n = [0]
        declared_types = {}
        params = {p.name.name: _ty(p.type) for p in fn.parameters}

        def fail(s, msg):
            k.fail("C06.kernel-typing", kind, norm_text(pps(s)), msg)

        def check(e, env, s):
            try:
                return infer(e, env, cases)
            except TypeErr as ex:
                fail(s, str(ex))
                return None

        def declare(name, t, env, here, s):
            if name in here:
                fail(s, f"{name} redeclared in the same C scope")
            if name in params:
                fail(s, f"{name} shadows a parameter")
            if name in declared_types and declared_types[name] != t:
                fail(s, f"{name} declared with two types ({declared_types[name]} and {t}): LLVM hoists one alloca per name")
            declared_types[name] = t
            here.add(name)
            env[name] = t

        def visit(node, env, here):
            if isinstance(node, IR.Block):
                for s in node.statements:
                    visit(s, env, here)
                return
            if isinstance(node, IR.Branch):
                n[0] += 1
                t = check(node.condition, env, node)
                if t is not None and t != "bool":
                    fail(node, f"branch condition of type {t}")
                visit(node.if_true, dict(env), set())
                visit(node.if_false, dict(env), set())
                return
            if isinstance(node, IR.Loop):
                n[0] += 1
                t = check(node.condition, env, node)
                if t is not None and t != "bool":
                    fail(node, f"loop condition of type {t}")
                visit(node.body, dict(env), set())
                return
            n[0] += 1
            if isinstance(node, IR.Declaration):
                fail(node, "declaration without initialiser (uninitialised read possible)")
                declare(node.name.name, _ty(node.type), env, here, node)
            elif isinstance(node, IR.DeclarationAssignment):
                vt = check(node.value, env, node)
                tt = _ty(node.target.type)
                declare(node.target.name.name, tt, env, here, node)
                if vt is not None and not _store_ok(vt, tt):
                    fail(node, f"initialiser of type {vt} for variable of type {tt}")
            elif isinstance(node, IR.Assignment):
                vt = check(node.value, env, node)
                tt = check(node.target, env, node)
                if vt is not None and tt is not None and not _store_ok(vt, tt):
                    fail(node, f"store of {vt} into {tt}")
            elif isinstance(node, IR.Return):
                vt = check(node.value, env, node)
                if vt is not None and vt != _ty(fn.return_type):
                    fail(node, f"return of {vt}")
            elif isinstance(node, IR.Expression):
                fail(node, "bare expression statement (the LLVM printer cannot print it)")
            else:
                fail(node, f"unknown statement class {type(node).__name__}")

        visit(fn.body, dict(params), set())
        k.ok("C06.kernel-typing", n[0])


def _reads(s, x):
    """Does simple statement / expression-bearing node read variable x (by name)?"""
    IR = kir.IR
    reads, tgt = kir.stmt_exprs(s)
    exprs = list(reads)
    if tgt is not None and not isinstance(tgt, IR.Variable):
        exprs.append(tgt)  # address computation reads its variables
    return any(x in kir.expr_vars(e) for e in exprs)


def _outer_live_at_shadow(scope_stmts, start, x):
    """Single-variable backward liveness over the structured IR for the variable x declared at
    scope_stmts[start]; statements of a nested scope from a re-declaration of x onward refer to the inner
    variable and are masked.  Returns the re-declarations at which the OUTER x is still live (read later
    on some path before being overwritten)."""
    IR = kir.IR
    hits = []

    def is_decl(s):
        return isinstance(s, (IR.Declaration, IR.DeclarationAssignment)) and kir.defined_var(s) == x

    def live_in_list(lst, live_out, nested, record):
        cut = next((i for i, s in enumerate(lst) if is_decl(s)), None) if nested else None
        if cut is not None:
            if record:
                hits.append((lst[cut], live_out))
            lst = lst[:cut]
        live = live_out
        for s in reversed(lst):
            live = live_in(s, live, record)
        return live

    def live_in(s, live_out, record):
        if isinstance(s, IR.Branch):
            a = live_in_list(kir.body_list(s.if_true), live_out, True, record)
            b = live_in_list(kir.body_list(s.if_false), live_out, True, record)
            return x in kir.expr_vars(s.condition) or a or b
        if isinstance(s, IR.Loop):
            c = x in kir.expr_vars(s.condition)
            body = kir.body_list(s.body)
            back = c or live_out
            for _ in range(2):
                back = c or live_out or live_in_list(body, back, True, False)
            if record:
                live_in_list(body, back, True, True)
            return back
        if _reads(s, x):
            return True
        if kir.defined_var(s) == x:
            return False
        return live_out

    live_in_list(scope_stmts[start + 1 :], False, False, True)
    return [d for d, live in hits if live]


def rule_no_shadowing(k):
    """The K rules read the IR with C block scoping; the LLVM printer hoists one stack slot per NAME to
    function level.  The two agree iff no declaration shadows an enclosing declaration whose variable is
    still LIVE there (sibling scopes, and a dead outer variable such as a finished loop counter, may
    reuse a name).  A live shadowed variable is clobbered on the LLVM backend only (e.g. a loop bound keyed
    by tensor name instead of reference id in `B(i,k) = A(i,j) * A(j,k)`)."""
    IR = kir.IR
    for kind, fn in k.kernels.items():
        k.instance("C06.no-shadowing")
        n = [0]

        def scopes(lst):
            yield lst
            for s in lst:
                if isinstance(s, IR.Branch):
                    yield from scopes(kir.body_list(s.if_true))
                    yield from scopes(kir.body_list(s.if_false))
                elif isinstance(s, IR.Loop):
                    yield from scopes(kir.body_list(s.body))

        for lst in scopes(kir.body_list(fn.body)):
            for i, s in enumerate(lst):
                if isinstance(s, (IR.Declaration, IR.DeclarationAssignment)):
                    n[0] += 1
                    x = kir.defined_var(s)
                    for d in _outer_live_at_shadow(lst, i, x):
                        k.fail(
                            "C06.no-shadowing",
                            kind,
                            norm_text(pps(d)),
                            f"{x} is declared again inside the scope of an enclosing declaration of {x} whose value is still needed "
                            "afterwards: C gives the inner one its own storage, the LLVM printer hoists both into one slot, so the "
                            "outer value is clobbered on LLVM only",
                        )
        k.ok("C06.no-shadowing", n[0])


def rule_llvm_verifies(k):
    """C06/C08: the text the LLVM printer emits for the module holding all three kernels of the problem is
    accepted by LLVM's own parser and verifier (a static checker of the emitted artifact: every value used
    in a function is defined in it and dominates the use, types agree, blocks are terminated).  The
    kernels are not compiled or run.  This is the LLVM-side sibling of kernel-typing's C scoping rules and
    the only rule that sees the printer's own bookkeeping (per-function name scope, block structure)."""
    import llvmlite.binding as llvm
    from tensora.codegen import ir_to_llvm

    k.instance("C06.llvm-verifies")
    try:
        text = str(ir_to_llvm(k.module))
    except Exception as e:  # noqa: BLE001
        k.fail("C06.llvm-verifies", "module", "ir_to_llvm", f"the LLVM printer raised {type(e).__name__}: {str(e)[:200]}")
        return
    try:
        m = llvm.parse_assembly(text)
        m.verify()
    except RuntimeError as e:
        msg = " ".join(str(e).split())[:240]
        import re

        # key by the message with value names abstracted, so one defect is one finding per problem shape
        k.fail("C06.llvm-verifies", "module", re.sub(r"%\"?[\w.]+\"?", "%v", msg)[:120], f"LLVM rejects the emitted module: {msg}")
        return
    k.ok("C06.llvm-verifies", text.count("\ndefine "))


def _src_of(k):
    from ..kir import _loaded

    return next(iter(_loaded.keys()))


def rule_return_shape(k):
    """C05: the function's last statement is `return 0` and there is no other return."""
    IR = kir.IR
    for kind, fn in k.kernels.items():
        k.instance("C05.return")
        rets = [(s, path) for s, path in kir.simple_statements(fn.body) if isinstance(s, IR.Return)]
        body = kir.body_list(fn.body)
        if len(rets) == 1 and not rets[0][1] and body and body[-1] is rets[0][0] and kir.is_int(rets[0][0].value, 0):
            k.ok("C05.return")
        else:
            k.fail("C05.return", kind, "return", "kernel does not end in a single unconditional `return 0`")
        if [p.name.name for p in fn.parameters] != list(k.problem.formats.keys()):
            k.fail("C05.return", kind, "parameters", "kernel parameters are not the problem's tensors in format order")
        if fn.name.name != kind:
            k.fail("C05.return", kind, "name", "kernel function name is not its kind")


C_RESERVED = {
    # C keywords
    "auto", "break", "case", "char", "const", "continue", "default", "do", "double", "else", "enum", "extern",
    "float", "for", "goto", "if", "inline", "int", "long", "register", "restrict", "return", "short", "signed",
    "sizeof", "static", "struct", "switch", "typedef", "union", "unsigned", "void", "volatile", "while",
    # identifiers the emitted C / the published header / the LLVM module rely on
    "bool", "true", "false", "malloc", "realloc", "free", "NULL",
}


def rule_reserved_identifiers(k):
    """C08: no parameter or declared variable of an emitted kernel is a C keyword or an identifier
    the emitted code itself relies on (the C would not compile / the LLVM module would mis-bind)."""
    import re

    IR = kir.IR
    for kind, fn in k.kernels.items():
        k.instance("C08.reserved-identifiers")
        names = [p.name.name for p in fn.parameters]
        for s, _ in kir.simple_statements(fn.body):
            if isinstance(s, IR.Declaration):
                names.append(s.name.name)
            elif isinstance(s, IR.DeclarationAssignment):
                names.append(s.target.name.name)
        bad = sorted({n for n in names if n in C_RESERVED or re.fullmatch(r"u?int\d+_t|taco_\w+|TACO_\w+", n)})
        for n in bad:
            k.fail("C08.reserved-identifiers", kind, f"identifier {n}", f"user name `{n}` reaches the emitted code unmangled and is reserved there")
        if not bad:
            k.ok("C08.reserved-identifiers", len(set(names)))
