"""C06 rule 8 / C08: emitted kernels stay inside what both printers support.

IR type inference on every kernel; the operand-type pairs accepted for + - * are read from the
`match` statements of the LLVM printer's source (not hard-coded), so that printer and kernels
are checked against each other.
"""

from __future__ import annotations

import ast
from pathlib import Path

from .. import kir
from ..kir import norm_text, pp, pps
from .base import kir_types

_CASES = {}


def llvm_binop_cases(src: str):
    """{'Add': {('int','int'), ...}, ...} extracted from codegen/_ir_to_llvm.py."""
    if src in _CASES:
        return _CASES[src]
    path = Path(src) / "tensora" / "codegen" / "_ir_to_llvm.py"
    tree = ast.parse(path.read_text())
    names = {"IntType": "int", "DoubleType": "float", "PointerType": "ptr"}
    out = {}
    for fn in tree.body:
        if not isinstance(fn, ast.FunctionDef):
            continue
        reg = None
        for d in fn.decorator_list:
            if (
                isinstance(d, ast.Call)
                and isinstance(d.func, ast.Attribute)
                and d.func.attr == "register"
                and isinstance(d.func.value, ast.Name)
                and d.func.value.id == "ir_to_llvm_expression"
                and d.args
                and isinstance(d.args[0], ast.Name)
            ):
                reg = d.args[0].id
        if reg not in ("Add", "Subtract", "Multiply"):
            continue
        cases = set()
        for node in ast.walk(fn):
            if isinstance(node, ast.Match):
                for c in node.cases:
                    p = c.pattern
                    if isinstance(p, ast.MatchSequence) and len(p.patterns) == 2:
                        pair = []
                        for q in p.patterns:
                            if isinstance(q, ast.MatchClass) and isinstance(q.cls, ast.Attribute):
                                pair.append(names.get(q.cls.attr, q.cls.attr))
                        if len(pair) == 2:
                            # the arm must not raise
                            raises = any(isinstance(x, ast.Raise) for b in c.body for x in ast.walk(b))
                            if not raises:
                                cases.add(tuple(pair))
        out[reg] = cases
    _CASES[src] = out
    return out


def _ty(t):
    T = kir_types()
    if isinstance(t, T.Integer):
        return "int"
    if isinstance(t, T.Float):
        return "float"
    if isinstance(t, T.Boolean):
        return "bool"
    if isinstance(t, T.Pointer):
        return ("ptr", _ty(t.target))
    if isinstance(t, T.Tensor):
        return "tensor"
    if isinstance(t, T.Mode):
        return "mode"
    if isinstance(t, T.Array):
        return ("ptr", _ty(t.element))
    return f"?{type(t).__name__}"


_ATTR = {
    "dimensions": ("ptr", "int"),
    "indices": ("ptr", ("ptr", ("ptr", "int"))),
    "vals": ("ptr", "float"),
}


class TypeErr(Exception):
    pass


def infer(e, env, cases):
    IR = kir.IR
    n = type(e).__name__
    if isinstance(e, IR.Variable):
        if e.name not in env:
            raise TypeErr(f"use of undeclared variable {e.name}")
        return env[e.name]
    if isinstance(e, IR.AttributeAccess):
        t = infer(e.target, env, cases)
        if t != ("ptr", "tensor"):
            raise TypeErr(f"attribute access on {t}")
        if e.attribute not in _ATTR:
            raise TypeErr(f"attribute {e.attribute} has no LLVM field index")
        return _ATTR[e.attribute]
    if isinstance(e, IR.ArrayIndex):
        t = infer(e.target, env, cases)
        i = infer(e.index, env, cases)
        if not (isinstance(t, tuple) and t[0] == "ptr"):
            raise TypeErr(f"indexing non-pointer {t} in {pp(e)}")
        if i != "int":
            raise TypeErr(f"array index of type {i} in {pp(e)}")
        return t[1]
    if isinstance(e, IR.IntegerLiteral):
        return "int"
    if isinstance(e, IR.FloatLiteral):
        return "float"
    if isinstance(e, IR.BooleanLiteral):
        return "bool"
    if n in ("Add", "Subtract", "Multiply"):
        a = infer(e.left, env, cases)
        b = infer(e.right, env, cases)
        ka = "ptr" if isinstance(a, tuple) else a
        kb = "ptr" if isinstance(b, tuple) else b
        if (ka, kb) not in cases.get(n, ()):
            raise TypeErr(f"{n} of ({ka}, {kb}) is not a case of the LLVM printer: {pp(e)}")
        if ka == "ptr":
            return a
        return "float" if "float" in (ka, kb) else "int"
    if n in ("Equal", "NotEqual", "GreaterThan", "LessThan", "GreaterThanOrEqual", "LessThanOrEqual"):
        a = infer(e.left, env, cases)
        b = infer(e.right, env, cases)
        if a != "int" or b != "int":
            raise TypeErr(f"comparison of ({a}, {b}) printed as signed integer compare: {pp(e)}")
        return "bool"
    if n in ("Min", "Max"):
        a = infer(e.left, env, cases)
        b = infer(e.right, env, cases)
        if a != "int" or b != "int":
            raise TypeErr(f"{n} of ({a}, {b}): LLVM printer uses icmp: {pp(e)}")
        return "int"
    if n in ("And", "Or"):
        a = infer(e.left, env, cases)
        b = infer(e.right, env, cases)
        if a != "bool" or b != "bool":
            raise TypeErr(f"{n} of ({a}, {b}): {pp(e)}")
        return "bool"
    if n == "BooleanToInteger":
        a = infer(e.expression, env, cases)
        if a != "bool":
            raise TypeErr(f"BooleanToInteger of {a}")
        return "int"
    if n == "ArrayAllocate":
        if infer(e.n_elements, env, cases) != "int":
            raise TypeErr("allocation size is not int")
        return ("ptr", _ty(e.element_type))
    if n == "ArrayReallocate":
        if infer(e.n_elements, env, cases) != "int":
            raise TypeErr("allocation size is not int")
        o = infer(e.old, env, cases)
        if o != ("ptr", _ty(e.element_type)):
            raise TypeErr(f"realloc of {o} as {('ptr', _ty(e.element_type))}")
        return o
    raise TypeErr(f"unknown expression class {n}")


def _store_ok(vt, tt):
    return vt == tt or (vt == "int" and tt == "float")


def rule_kernel_typing(k):
    """Type every expression; stores are int->int, float->float, int->float, same-pointer; conditions
    are boolean; one declared type per name per function; valid C scoping; no expression statements;
    declared-before-use with an initialiser."""
    IR = kir.IR
    cases = llvm_binop_cases(_src_of(k))
    for kind, fn in k.kernels.items():
        k.instance("C06.kernel-typing")
        n = [0]
        declared_types = {}
        params = {p.name.name: _ty(p.type) for p in fn.parameters}

        def fail(s, msg):
            k.fail("C06.kernel-typing", kind, norm_text(pps(s)), msg)

        def check(e, env, s):
            try:
                return infer(e, env, cases)
            except TypeErr as ex:
                fail(s, str(ex))
                return None

        def declare(name, t, env, here, s):
            if name in here:
                fail(s, f"{name} redeclared in the same C scope")
            if name in params:
                fail(s, f"{name} shadows a parameter")
            if name in declared_types and declared_types[name] != t:
                fail(s, f"{name} declared with two types ({declared_types[name]} and {t}): LLVM hoists one alloca per name")
            declared_types[name] = t
            here.add(name)
            env[name] = t

        def visit(node, env, here):
            if isinstance(node, IR.Block):
                for s in node.statements:
                    visit(s, env, here)
                return
            if isinstance(node, IR.Branch):
                n[0] += 1
                t = check(node.condition, env, node)
                if t is not None and t != "bool":
                    fail(node, f"branch condition of type {t}")
                visit(node.if_true, dict(env), set())
                visit(node.if_false, dict(env), set())
                return
            if isinstance(node, IR.Loop):
                n[0] += 1
                t = check(node.condition, env, node)
                if t is not None and t != "bool":
                    fail(node, f"loop condition of type {t}")
                visit(node.body, dict(env), set())
                return
            n[0] += 1
            if isinstance(node, IR.Declaration):
                fail(node, "declaration without initialiser (uninitialised read possible)")
                declare(node.name.name, _ty(node.type), env, here, node)
            elif isinstance(node, IR.DeclarationAssignment):
                vt = check(node.value, env, node)
                tt = _ty(node.target.type)
                declare(node.target.name.name, tt, env, here, node)
                if vt is not None and not _store_ok(vt, tt):
                    fail(node, f"initialiser of type {vt} for variable of type {tt}")
            elif isinstance(node, IR.Assignment):
                vt = check(node.value, env, node)
                tt = check(node.target, env, node)
                if vt is not None and tt is not None and not _store_ok(vt, tt):
                    fail(node, f"store of {vt} into {tt}")
            elif isinstance(node, IR.Return):
                vt = check(node.value, env, node)
                if vt is not None and vt != _ty(fn.return_type):
                    fail(node, f"return of {vt}")
            elif isinstance(node, IR.Expression):
                fail(node, "bare expression statement (the LLVM printer cannot print it)")
            else:
                fail(node, f"unknown statement class {type(node).__name__}")

        visit(fn.body, dict(params), set())
        k.ok("C06.kernel-typing", n[0])


def _src_of(k):
    from ..kir import _loaded

    return next(iter(_loaded.keys()))


def rule_return_shape(k):
    """C05: the function's last statement is `return 0` and there is no other return."""
    IR = kir.IR
    for kind, fn in k.kernels.items():
        k.instance("C05.return")
        rets = [(s, path) for s, path in kir.simple_statements(fn.body) if isinstance(s, IR.Return)]
        body = kir.body_list(fn.body)
        if len(rets) == 1 and not rets[0][1] and body and body[-1] is rets[0][0] and kir.is_int(rets[0][0].value, 0):
            k.ok("C05.return")
        else:
            k.fail("C05.return", kind, "return", "kernel does not end in a single unconditional `return 0`")
        if [p.name.name for p in fn.parameters] != list(k.problem.formats.keys()):
            k.fail("C05.return", kind, "parameters", "kernel parameters are not the problem's tensors in format order")
        if fn.name.name != kind:
            k.fail("C05.return", kind, "name", "kernel function name is not its kind")


C_RESERVED = {
    # C keywords
    "auto", "break", "case", "char", "const", "continue", "default", "do", "double", "else", "enum", "extern",
    "float", "for", "goto", "if", "inline", "int", "long", "register", "restrict", "return", "short", "signed",
    "sizeof", "static", "struct", "switch", "typedef", "union", "unsigned", "void", "volatile", "while",
    # identifiers the emitted C / the published header / the LLVM module rely on
    "bool", "true", "false", "malloc", "realloc", "free", "NULL",
}


def rule_reserved_identifiers(k):
    """C08: no parameter or declared variable of an emitted kernel is a C keyword or an identifier
    the emitted code itself relies on (the C would not compile / the LLVM module would mis-bind)."""
    import re

    IR = kir.IR
    for kind, fn in k.kernels.items():
        k.instance("C08.reserved-identifiers")
        names = [p.name.name for p in fn.parameters]
        for s, _ in kir.simple_statements(fn.body):
            if isinstance(s, IR.Declaration):
                names.append(s.name.name)
            elif isinstance(s, IR.DeclarationAssignment):
                names.append(s.target.name.name)
        bad = sorted({n for n in names if n in C_RESERVED or re.fullmatch(r"u?int\d+_t|taco_\w+|TACO_\w+", n)})
        for n in bad:
            k.fail("C08.reserved-identifiers", kind, f"identifier {n}", f"user name `{n}` reaches the emitted code unmangled and is reserved there")
        if not bad:
            k.ok("C08.reserved-identifiers", len(set(names)))
