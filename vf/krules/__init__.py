"""Registry of K rules (functions of one KCtx)."""

from . import slices

REGISTRY = {}


def _reg(mod):
    for name in dir(mod):
        if name.startswith("rule_"):
            REGISTRY[f"{mod.__name__.split('.')[-1]}.{name[5:]}"] = getattr(mod, name)


_reg(slices)
