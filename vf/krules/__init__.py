"""Registry of K rules (functions of one KCtx)."""

import importlib

REGISTRY = {}

for _m in ("slices", "flags", "c16", "own", "typing", "addr", "cover", "bounds"):
    try:
        mod = importlib.import_module(f"{__name__}.{_m}")
    except ModuleNotFoundError as e:
        if e.name != f"{__name__}.{_m}":
            raise
        continue
    for name in dir(mod):
        if name.startswith("rule_"):
            REGISTRY[f"{_m}.{name[5:]}"] = getattr(mod, name)
