"""C04: slicing / noninterference rules over (evaluate, assemble, compute) triples."""

from __future__ import annotations

from .. import kir
from ..kir import expr_vars, flatten, pp, pps, root_var, simple_statements, subexprs
from .base import get_info, get_roles, is_value_store


def _is_alloc(e):
    IR = kir.IR
    return isinstance(e, (IR.ArrayAllocate, IR.ArrayReallocate))


def _target_value(s):
    IR = kir.IR
    if isinstance(s, IR.Assignment):
        return s.target, s.value
    if isinstance(s, IR.DeclarationAssignment):
        return s.target.name, s.value
    return None, None


def structural_criterion(s, roles):
    """Structural sinks: stores to output pos/crd arrays, (re)allocations, stores into the output
    struct, return."""
    IR = kir.IR
    out = roles.info.out
    if isinstance(s, IR.Return):
        return True
    if isinstance(s, IR.Assignment):
        t, v = s.target, s.value
        if _is_alloc(v):
            return True
        if not isinstance(t, IR.Variable):
            r = root_var(t)
            if r == out and roles.kind(r) == "tensor":
                return True
            ar = roles.role.get(r)
            if ar and ar[0] in ("pos", "crd") and ar[1] == out:
                return True
    return False


def value_criterion(s, roles):
    IR = kir.IR
    return isinstance(s, IR.Return) or is_value_store(s, roles)


def compute_slice(fn, crit, skip):
    """Backward slice on the structured IR. Returns (list of (stmt, path), set of kept indexes)."""
    IR = kir.IR
    S = list(simple_statements(fn.body))
    R: set[str] = set()
    inn: set[int] = set()
    changed = True
    while changed:
        changed = False
        for k, (s, path) in enumerate(S):
            if k in inn or skip(s):
                continue
            t, v = _target_value(s)
            take = crit(s)
            if not take and t is not None and isinstance(t, IR.Variable) and t.name in R:
                take = True
            if not take and isinstance(s, IR.Declaration) and s.name.name in R:
                take = True
            if take:
                inn.add(k)
                changed = True
                if t is not None:
                    if not isinstance(t, IR.Variable):
                        R |= expr_vars(t)
                    R |= expr_vars(v)
                if isinstance(s, IR.Return):
                    R |= expr_vars(s.value)
                for p in path:
                    R |= expr_vars(p[1])
    return S, inn


def project(n, keep, counter):
    IR = kir.IR
    if isinstance(n, IR.Block):
        out = []
        for s in n.statements:
            p = project(s, keep, counter)
            if p is not None:
                out.append(p)
        return IR.Block(out) if out else None
    if isinstance(n, IR.Branch):
        a = project(n.if_true, keep, counter)
        b = project(n.if_false, keep, counter)
        if a is None and b is None:
            return None
        if a is not None and b is not None and a == b:
            return a  # both arms do the same to the slice: the branch does not matter for it
        return IR.Branch(n.condition, a or IR.Block([]), b or IR.Block([]))
    if isinstance(n, IR.Loop):
        b = project(n.body, keep, counter)
        if b is None:
            return None
        return IR.Loop(n.condition, b)
    k = counter[0]
    counter[0] += 1
    return n if k in keep else None


def _first_diff(a, b, depth=0):
    """Describe the first place two flattened statement trees differ."""
    IR = kir.IR
    if type(a) is not type(b):
        return f"{pps(a)}  <>  {pps(b)}"
    if isinstance(a, IR.Block):
        for x, y in zip(a.statements, b.statements):
            if x != y:
                return _first_diff(x, y, depth + 1)
        if len(a.statements) != len(b.statements):
            longer = a.statements if len(a.statements) > len(b.statements) else b.statements
            which = "first" if longer is a.statements else "second"
            return f"extra statement in {which}: {pps(longer[min(len(a.statements), len(b.statements))])}"
        return "?"
    if isinstance(a, IR.Branch):
        if a.condition != b.condition:
            return f"if {pp(a.condition)}  <>  if {pp(b.condition)}"
        if a.if_true != b.if_true:
            return _first_diff(a.if_true, b.if_true, depth + 1)
        return _first_diff(a.if_false, b.if_false, depth + 1)
    if isinstance(a, IR.Loop):
        if a.condition != b.condition:
            return f"while {pp(a.condition)}  <>  while {pp(b.condition)}"
        return _first_diff(a.body, b.body, depth + 1)
    return f"{pps(a)}  <>  {pps(b)}"


def slices_of(k, kind):
    key = ("slices", kind)
    if key in k.cache:
        return k.cache[key]
    IR = kir.IR
    fn = k.kernels[kind]
    roles = get_roles(k, kind)
    S, st = compute_slice(fn, lambda s: structural_criterion(s, roles), lambda s: False)

    def skipv(s):
        _, v = _target_value(s)
        return v is not None and _is_alloc(v)

    S2, vl = compute_slice(fn, lambda s: value_criterion(s, roles), skipv)
    ps = flatten(project(fn.body, st, [0]) or IR.Block([]))
    pv = flatten(project(fn.body, vl, [0]) or IR.Block([]))
    k.cache[key] = (S, st, vl, ps, pv)
    return k.cache[key]


def rule_slice_equality(k):
    """C04.1/2: structural slice(evaluate) == structural slice(assemble);
    value slice(evaluate) == value slice(compute)."""
    E = slices_of(k, "evaluate")
    A = slices_of(k, "assemble")
    C = slices_of(k, "compute")
    k.instance("C04.structural-slice")
    k.instance("C04.value-slice")
    if E[3] == A[3]:
        k.ok("C04.structural-slice", sample=f"{len(E[1])} statements in slice")
    else:
        k.fail(
            "C04.structural-slice",
            "evaluate/assemble",
            kir.norm_text(_first_diff(E[3], A[3])),
            "structural slice of evaluate differs from that of assemble: the structure assemble builds "
            "is not the structure evaluate builds",
        )
    if E[4] == C[4]:
        k.ok("C04.value-slice", sample=f"{len(E[2])} statements in slice")
    else:
        k.fail(
            "C04.value-slice",
            "evaluate/compute",
            kir.norm_text(_first_diff(E[4], C[4])),
            "value slice of evaluate differs from that of compute: compute does not write the values "
            "evaluate writes at the positions evaluate writes them",
        )


def rule_noninterference(k):
    """C04.3: no statement of the structural slice (of any kernel kind) reads a value array, a bucket
    or a float literal: structure is a function of input structure only."""
    IR = kir.IR
    for kind in ("evaluate", "assemble", "compute"):
        S, st, vl, _, _ = slices_of(k, kind)
        roles = get_roles(k, kind)
        k.instance("C04.noninterference")
        n = 0
        for idx in st:
            s, path = S[idx]
            exprs = []
            reads, tgt = kir.stmt_exprs(s)
            exprs.extend(reads)
            if tgt is not None and isinstance(tgt, IR.ArrayIndex):
                exprs.append(tgt.index)
            for p in path:
                exprs.append(p[1])
            bad = None
            for e in exprs:
                for x in subexprs(e):
                    if isinstance(x, IR.FloatLiteral):
                        bad = f"float literal {x.value}"
                    elif isinstance(x, IR.ArrayIndex) and isinstance(x.target, IR.Variable):
                        r = roles.role.get(x.target.name)
                        if r and r[0] in ("vals", "bucket"):
                            bad = f"value read {pp(x)}"
                    elif isinstance(x, IR.Variable):
                        r = roles.role.get(x.name)
                        if r and r[0] in ("vals", "bucket") and not (
                            isinstance(s, IR.Assignment)
                            and (s.value is x or _is_alloc(s.value) or (isinstance(s.target, IR.AttributeAccess)))
                        ):
                            # array variable used other than: being (re)allocated / handed back
                            bad = f"value array {x.name} used in structural computation"
            n += 1
            if bad:
                k.fail(
                    "C04.noninterference",
                    kind,
                    kir.norm_text(pps(s)),
                    f"structural statement depends on values: {bad}",
                )
        k.ok("C04.noninterference", n)


def rule_compute_preserves_structure(k):
    """C04.4: compute contains no (re)allocation, assigns no array variable and no struct slot,
    and stores only into the output value array / buckets."""
    IR = kir.IR
    fn = k.kernels["compute"]
    roles = get_roles(k, "compute")
    k.instance("C04.compute-structure")
    n = 0
    for s, _ in simple_statements(fn.body):
        t, v = _target_value(s)
        if v is not None:
            n += 1
            if any(_is_alloc(x) for x in subexprs(v)):
                k.fail("C04.compute-structure", "compute", kir.norm_text(pps(s)), "compute (re)allocates")
                continue
        if isinstance(s, IR.Assignment):
            if isinstance(t, IR.Variable):
                r = roles.role.get(t.name)
                if r and r[0] in ("pos", "crd", "vals", "tensor", "dim"):
                    k.fail(
                        "C04.compute-structure",
                        "compute",
                        kir.norm_text(pps(s)),
                        f"compute reassigns {r[0]} variable {t.name}",
                    )
                    continue
            else:
                if not is_value_store(s, roles):
                    k.fail(
                        "C04.compute-structure",
                        "compute",
                        kir.norm_text(pps(s)),
                        "compute stores outside the output value array",
                    )
                    continue
    k.ok("C04.compute-structure", n)
