"""Provenance typing of kernel variables (DESIGN.md 2.2) and shared K-rule utilities.

Roles are derived from how a variable is *defined*, not from how it is spelled. The only names
relied upon are the IR's own interface: function parameters are tensor names and loop index
variables are the assignment's index names.
"""

from __future__ import annotations

from .. import kir
from ..kir import (
    all_nodes,
    conj,
    expr_vars,
    is_int,
    pp,
    pps,
    simple_statements,
    subexprs,
)


class Info:
    """Static facts about one problem, derived from the Problem (the oracle), not the kernel."""

    def __init__(self, k):
        ns = k.ns
        p = k.problem
        a = p.assignment
        self.out = a.target.name
        self.formats = p.formats
        self.index_names = set(a.index_participants().keys())
        self.target_indexes = tuple(a.target.indexes)
        # occurrences: list of (tensor name, indexes in D order, indexes in L order, modes in L order)
        self.occurrences = []

        def rec(e):
            if isinstance(e, ns.sugar.Tensor):
                f = p.formats[e.name]
                self.occurrences.append(
                    (e.name, tuple(e.indexes), tuple(e.indexes[d] for d in f.ordering), tuple(f.modes))
                )
            elif hasattr(e, "left"):
                rec(e.left)
                rec(e.right)

        rec(a.expression)
        f = p.formats[self.out]
        self.out_levels = tuple(a.target.indexes[d] for d in f.ordering)
        self.out_modes = tuple(f.modes)
        self.dense = ns.Mode.dense
        self.compressed = ns.Mode.compressed
        # index classes: union-find over (tensor, dimension) sharing an index name.
        # Since an index name identifies the class, class id = index name; dims map to it.
        self.dim_class = {}
        for name, dims, _, _ in self.occurrences + [
            (self.out, tuple(a.target.indexes), None, None)
        ]:
            for d, ix in enumerate(dims):
                self.dim_class.setdefault((name, d), set()).add(ix)
        # index classes: union-find closure of "index the same (tensor, dimension)"; members of one
        # class have equal dimension at run time (C10)
        parent = {ix: ix for ix in self.index_names}

        def find(x):
            while parent[x] != x:
                parent[x] = parent[parent[x]]
                x = parent[x]
            return x

        for ixs in self.dim_class.values():
            ixs = sorted(ixs)
            for other in ixs[1:]:
                parent[find(other)] = find(ixs[0])
        self.index_class = {ix: find(ix) for ix in self.index_names}
        self.class_members = {}
        for ix, c in self.index_class.items():
            self.class_members.setdefault(c, set()).add(ix)
        for key in list(self.dim_class):
            full = set()
            for ix in self.dim_class[key]:
                full |= self.class_members[self.index_class[ix]]
            self.dim_class[key] = full

    def level_index(self, tensor, level, occurrence_levels):
        return occurrence_levels[level]


def get_info(k) -> Info:
    i = k.cache.get("info")
    if i is None:
        i = k.cache["info"] = Info(k)
    return i


class Roles:
    """Flow-insensitive provenance typing of one kernel."""

    def __init__(self, fn, info: Info):
        IR = kir.IR
        self.fn = fn
        self.info = info
        self.role: dict[str, tuple] = {}
        self.conflicts: set[str] = set()
        self.owned: set[str] = set()  # array variables (re)defined by malloc/realloc in this kernel
        self.cap_of: dict[str, str] = {}  # capacity variable -> array
        self.defs: dict[str, list] = {}  # var -> list of defining expressions
        self.parent_expr: dict[str, object] = {}  # cursor/end var -> parent position expression
        for p in fn.parameters:
            self._set(p.name.name, ("tensor", p.name.name))
        stmts = [s for s, _ in simple_statements(fn.body)]
        for s in stmts:
            v = kir.defined_var(s)
            if v is not None and not isinstance(s, IR.Declaration):
                self.defs.setdefault(v, []).append(s.value)
        changed = True
        rounds = 0
        while changed and rounds < 8:
            rounds += 1
            changed = False
            for s in stmts:
                v = kir.defined_var(s)
                if v is None or isinstance(s, IR.Declaration):
                    continue
                r = self._derive(v, s.value, s)
                if r is not None and self.role.get(v) != r:
                    if v in self.role and self.role[v][0] != r[0] and not self._compatible(self.role[v], r):
                        self.conflicts.add(v)
                    else:
                        self.role[v] = r
                        changed = True

    def _compatible(self, old, new):
        # an array variable re-assigned by malloc/realloc keeps its role
        return False

    def _set(self, v, r):
        self.role[v] = r

    def _parent(self, v, e):
        if v in self.parent_expr and self.parent_expr[v] != e:
            self.conflicts.add(v)
        self.parent_expr[v] = e

    def _derive(self, v, e, s):
        IR = kir.IR
        info = self.info
        role = self.role
        if isinstance(e, (IR.ArrayAllocate, IR.ArrayReallocate)):
            self.owned.add(v)
            if isinstance(e.n_elements, IR.Variable):
                self.cap_of.setdefault(e.n_elements.name, v)
            return None  # keeps the role it was declared with
        # T->vals
        if isinstance(e, IR.AttributeAccess) and isinstance(e.target, IR.Variable):
            if role.get(e.target.name, ("",))[0] == "tensor" and e.attribute == "vals":
                return ("vals", e.target.name)
        if isinstance(e, IR.ArrayIndex):
            t = e.target
            # T->dimensions[c]
            if (
                isinstance(t, IR.AttributeAccess)
                and isinstance(t.target, IR.Variable)
                and role.get(t.target.name, ("",))[0] == "tensor"
                and t.attribute == "dimensions"
                and isinstance(e.index, IR.IntegerLiteral)
            ):
                return ("dim", t.target.name, e.index.value)
            # T->indices[l][k]
            if (
                isinstance(t, IR.ArrayIndex)
                and isinstance(t.target, IR.AttributeAccess)
                and isinstance(t.target.target, IR.Variable)
                and role.get(t.target.target.name, ("",))[0] == "tensor"
                and t.target.attribute == "indices"
                and isinstance(t.index, IR.IntegerLiteral)
                and isinstance(e.index, IR.IntegerLiteral)
                and e.index.value in (0, 1)
            ):
                return ("pos" if e.index.value == 0 else "crd", t.target.target.name, t.index.value)
            if isinstance(t, IR.Variable):
                ar = role.get(t.name)
                if ar and ar[0] == "pos":
                    idx = e.index
                    if isinstance(idx, IR.Add) and is_int(idx.right, 1):
                        self._parent(v, idx.left)
                        return ("end", ar[1], ar[2], pp(idx.left))
                    if is_int(idx, 1) and ar[2] == 0:
                        self._parent(v, IR.IntegerLiteral(0))
                        return ("end", ar[1], ar[2], "0")
                    if isinstance(idx, IR.Variable) or is_int(idx, 0):
                        self._parent(v, idx)
                        return ("cursor", ar[1], ar[2], pp(idx))
                if ar and ar[0] == "crd" and isinstance(e.index, IR.Variable):
                    return ("coord", ar[1], ar[2], e.index.name)
        if v in info.index_names:
            return ("idx", v)
        if isinstance(e, IR.BooleanLiteral) and isinstance(s, IR.DeclarationAssignment):
            if isinstance(s.target.type, type(kir_types().boolean)):
                return ("flag",)
        if isinstance(e, IR.Add) and isinstance(e.left, IR.Variable):
            lr = role.get(e.left.name)
            if lr and lr[0] == "vals" and isinstance(s, IR.DeclarationAssignment):
                return ("bucket", lr[1], pp(e.right))
        if isinstance(e, IR.Variable):
            lr = role.get(e.name)
            if lr and lr[0] == "vals" and isinstance(s, IR.DeclarationAssignment):
                # bucket at offset 0 after peephole (vals + 0*...)
                if isinstance(s.target.type, type(kir_types().Pointer(kir_types().float))):
                    return ("bucket", lr[1], "0")
        return None

    def kind(self, v):
        r = self.role.get(v)
        return r[0] if r else None

    def array_role(self, name):
        r = self.role.get(name)
        if r and r[0] in ("pos", "crd", "vals", "bucket"):
            return r
        return None


def kir_types():
    from ..kir import _loaded

    return next(iter(_loaded.values())).irtypes


def get_roles(k, kind) -> Roles:
    key = ("roles", kind)
    r = k.cache.get(key)
    if r is None:
        r = k.cache[key] = Roles(k.kernels[kind], get_info(k))
    return r


def is_value_store(s, roles: Roles):
    """Assignment into the output value array or a bucket derived from it."""
    IR = kir.IR
    if not (isinstance(s, IR.Assignment) and isinstance(s.target, IR.ArrayIndex)):
        return False
    t = s.target.target
    if not isinstance(t, IR.Variable):
        return False
    r = roles.role.get(t.name)
    if r is None:
        return False
    return (r[0] == "vals" and r[1] == roles.info.out) or (r[0] == "bucket" and r[1] == roles.info.out)


def store_rhs(s):
    """The contribution of a value store: for `x[i] = x[i] + r` return (r, True), else (value, False)."""
    IR = kir.IR
    v = s.value
    if isinstance(v, IR.Add) and v.left == s.target:
        return v.right, True
    return v, False


__all__ = [
    "Info",
    "Roles",
    "get_info",
    "get_roles",
    "is_value_store",
    "store_rhs",
    "all_nodes",
    "conj",
    "expr_vars",
    "pp",
    "pps",
    "subexprs",
    "simple_statements",
]
