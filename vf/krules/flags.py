"""C03: typestate of the `written` flags that gate compressed output levels."""

from __future__ import annotations

from .. import kir
from ..kir import all_nodes, flatten, norm_text, pp, pps, simple_statements, subexprs
from .base import get_info, get_roles, is_value_store, store_rhs


def out_cursors(k, kind):
    """Map level -> (cursor variable, flag variable) of compressed output levels.

    Derived from stores `CrdArr(out,l)[p] = x` (evaluate/assemble). For compute kernels the map of the
    evaluate kernel of the same triple is used (justified by value-slice equality, C04.2)."""
    key = ("outcursors", kind)
    if key in k.cache:
        return k.cache[key]
    IR = kir.IR
    if kind == "compute":
        res = out_cursors(k, "evaluate")
        k.cache[key] = res
        return res
    roles = get_roles(k, kind)
    info = get_info(k)
    cursors = {}
    problems = []
    for s, path in simple_statements(k.kernels[kind].body):
        if isinstance(s, IR.Assignment) and isinstance(s.target, IR.ArrayIndex):
            t = s.target.target
            if isinstance(t, IR.Variable):
                r = roles.role.get(t.name)
                if r and r[0] == "crd" and r[1] == info.out:
                    if not isinstance(s.target.index, IR.Variable):
                        problems.append((s, "crd store index is not a cursor variable"))
                        continue
                    p = s.target.index.name
                    if cursors.setdefault(r[2], p) != p:
                        problems.append((s, f"level {r[2]} appended through two cursors"))
    # the final `crd = realloc(crd, p)` names the cursor too (needed when no coordinate can ever be
    # appended, e.g. a(i) = b(i) * 0 into a compressed output); both sources must agree
    for s, path in simple_statements(k.kernels[kind].body):
        if (
            not path
            and isinstance(s, IR.Assignment)
            and isinstance(s.target, IR.Variable)
            and isinstance(s.value, IR.ArrayReallocate)
            and isinstance(s.value.n_elements, IR.Variable)
        ):
            r = roles.role.get(s.target.name)
            if r and r[0] == "crd" and r[1] == info.out:
                p = s.value.n_elements.name
                if cursors.setdefault(r[2], p) != p:
                    problems.append((s, f"crd of level {r[2]} shrunk to {p}, appended through {cursors[r[2]]}"))
    k.cache[key] = (cursors, problems)
    return k.cache[key]


def has_zero_literal(k):
    ns = k.ns

    def rec(e):
        if isinstance(e, (ns.sugar.Integer, ns.sugar.Float)):
            return e.value == 0
        if hasattr(e, "left"):
            return rec(e.left) or rec(e.right)
        return False

    return rec(k.problem.assignment.expression)


def rule_flag_typestate(k):
    """C03 rules 1 and 2 on evaluate, assemble and compute kernels."""
    IR = kir.IR
    info = get_info(k)
    n_comp = sum(1 for m in info.out_modes if m == info.compressed)
    for kind in ("evaluate", "assemble", "compute"):
        fn = k.kernels[kind]
        roles = get_roles(k, kind)
        cursors, problems = out_cursors(k, kind)
        k.instance("C03.flag-gating")
        for s, msg in problems:
            k.fail("C03.flag-gating", kind, norm_text(pps(s)), msg)
        if kind != "compute" and len(cursors) != n_comp:
            # every compressed output level must be appended somewhere (else C02 fails); for
            # outputs with no compressed level there is nothing to gate
            if n_comp and not all(False for _ in ()):
                k.fail(
                    "C03.flag-gating",
                    kind,
                    "crd stores",
                    f"{n_comp} compressed output levels but crd stores found for levels {sorted(cursors)}",
                )
        cursor_level = {p: l for l, p in cursors.items()}
        flag_of = {}
        n = 0
        # rule 1: crd stores and cursor advances only in the true arm of `if (flag)`
        for s, path in simple_statements(fn.body):
            lvl = None
            what = None
            if isinstance(s, IR.Assignment) and isinstance(s.target, IR.ArrayIndex):
                t = s.target.target
                r = roles.role.get(t.name) if isinstance(t, IR.Variable) else None
                if r and r[0] == "crd" and r[1] == info.out:
                    lvl, what = r[2], "crd store"
                    # stored value must be the loop variable of this level's index
                    want = info.out_levels[lvl]
                    if not (isinstance(s.value, IR.Variable) and s.value.name == want):
                        k.fail(
                            "C03.flag-gating",
                            kind,
                            norm_text(pps(s)),
                            f"coordinate stored at output level {lvl} is not the loop variable {want}",
                        )
            elif isinstance(s, IR.Assignment) and isinstance(s.target, IR.Variable):
                if s.target.name in cursor_level:
                    lvl, what = cursor_level[s.target.name], "cursor advance"
                    if s.value != IR.Add(s.target, IR.IntegerLiteral(1)):
                        k.fail(
                            "C03.flag-gating",
                            kind,
                            norm_text(pps(s)),
                            "output cursor is assigned something other than cursor + 1",
                        )
            if lvl is None:
                continue
            n += 1
            inner = path[-1] if path else None
            if not (
                inner is not None
                and inner[0] == "if"
                and inner[2] is True
                and isinstance(inner[1], IR.Variable)
                and roles.kind(inner[1].name) == "flag"
            ):
                k.fail(
                    "C03.flag-gating",
                    kind,
                    norm_text(pps(s)),
                    f"{what} of output level {lvl} is not in the true arm of `if (<written flag>)`",
                )
                continue
            w = inner[1].name
            if flag_of.setdefault(lvl, w) != w:
                k.fail(
                    "C03.flag-gating",
                    kind,
                    norm_text(pps(s)),
                    f"level {lvl} gated by two different flags {flag_of[lvl]} and {w}",
                )
        k.ok("C03.flag-gating", n)
        k.cache[("flag_of", kind)] = flag_of
        # rule 2: reset discipline
        k.instance("C03.flag-reset")
        flags = {v for v, r in roles.role.items() if r[0] == "flag"}
        m = 0
        for node in all_nodes(fn.body):
            if not isinstance(node, (IR.Branch, IR.Loop)) and node is not fn.body:
                continue
            arms = (
                [node.if_true, node.if_false]
                if isinstance(node, IR.Branch)
                else [node.body]
                if isinstance(node, IR.Loop)
                else [node]
            )
            for arm in arms:
                lst = flatten(arm)
                lst = lst.statements if isinstance(lst, IR.Block) else [lst]
                for i, s in enumerate(lst):
                    if (
                        isinstance(s, IR.Branch)
                        and isinstance(s.condition, IR.Variable)
                        and s.condition.name in flags
                    ):
                        w = s.condition.name
                        m += 1
                        # find the declaration `w = false` earlier in the same list
                        decl = None
                        for j in range(i - 1, -1, -1):
                            d = lst[j]
                            if isinstance(d, IR.DeclarationAssignment) and d.target.name.name == w:
                                decl = j
                                break
                        if decl is None or lst[decl].value != IR.BooleanLiteral(False):
                            k.fail(
                                "C03.flag-reset",
                                kind,
                                norm_text(pps(s)),
                                f"flag {w} is not reset to false in the same statement list before "
                                "the sub-tree it summarises (reset must happen once per output coordinate)",
                            )
                            continue
                        bad = None
                        for mid in lst[decl + 1 : i]:
                            for t, _ in simple_statements(mid):
                                if kir.defined_var(t) == w:
                                    if not (
                                        isinstance(t, IR.Assignment)
                                        and t.value == IR.BooleanLiteral(True)
                                    ):
                                        bad = t
                        if bad is not None:
                            k.fail(
                                "C03.flag-reset",
                                kind,
                                norm_text(pps(bad)),
                                f"flag {w} is assigned something other than `true` between its reset and its test",
                            )
        # every assignment to a flag anywhere is `true` or the reset
        for s, _ in simple_statements(fn.body):
            v = kir.defined_var(s)
            if v in flags and isinstance(s, IR.Assignment) and s.value != IR.BooleanLiteral(True):
                k.fail(
                    "C03.flag-reset",
                    kind,
                    norm_text(pps(s)),
                    f"flag {v} assigned a non-constant / false value outside its reset",
                )
        k.ok("C03.flag-reset", m)


def terminals(fn, roles):
    """Terminal statement lists: Block nodes whose direct statements contain a flag raise or a value
    store that is not a bucket initialisation."""
    IR = kir.IR
    flags = {v for v, r in roles.role.items() if r[0] == "flag"}
    out = []
    for node in all_nodes(fn.body):
        if not isinstance(node, IR.Block):
            continue
        raises = []
        stores = []
        for s in node.statements:
            if (
                isinstance(s, IR.Assignment)
                and isinstance(s.target, IR.Variable)
                and s.target.name in flags
                and s.value == IR.BooleanLiteral(True)
            ):
                raises.append(s)
            elif is_value_store(s, roles):
                # bucket initialisation: `bucket[k] = 0` indexed by a non-index counter
                if (
                    kir.is_int(s.value, 0)
                    and isinstance(s.target.index, IR.Variable)
                    and roles.kind(s.target.target.name) == "bucket"
                    and roles.kind(s.target.index.name) is None
                ):
                    continue
                stores.append(s)
        if raises or stores:
            out.append((node, raises, stores))
    return out


def contribution_supported(rhs, roles):
    """Does the right-hand side contain an operand read or a non-zero literal?"""
    IR = kir.IR
    reads = 0
    nonzero_lit = False
    for x in subexprs(rhs):
        if isinstance(x, IR.ArrayIndex) and isinstance(x.target, IR.Variable):
            r = roles.role.get(x.target.name)
            if r and r[0] == "vals" and r[1] != roles.info.out:
                reads += 1
    if reads == 0:
        # literal-only expression: supported iff it is not the literal zero
        if isinstance(rhs, (IR.IntegerLiteral, IR.FloatLiteral)):
            nonzero_lit = rhs.value != 0
        else:
            nonzero_lit = any(
                isinstance(x, (IR.IntegerLiteral, IR.FloatLiteral)) and x.value != 0 for x in subexprs(rhs)
            )
    return reads > 0 or nonzero_lit


def rule_flag_iff_supported(k):
    """C03 rule 3 on evaluate and compute kernels: a terminal raises the flags iff its right-hand side
    is structurally supported; all flags or none."""
    IR = kir.IR
    info = get_info(k)
    n_comp = sum(1 for m in info.out_modes if m == info.compressed)
    zero_lit = has_zero_literal(k)
    for kind in ("evaluate", "compute"):
        fn = k.kernels[kind]
        roles = get_roles(k, kind)
        k.instance("C03.flag-iff-supported")
        for node, raises, stores in terminals(fn, roles):
            raised = {s.target.name for s in raises}
            if raises and len(raised) != n_comp:
                k.fail(
                    "C03.flag-iff-supported",
                    kind,
                    norm_text("; ".join(pps(s) for s in node.statements)),
                    f"terminal raises {len(raised)} flags, output has {n_comp} compressed levels",
                )
                continue
            if len(stores) > 1:
                k.fail(
                    "C03.flag-iff-supported",
                    kind,
                    norm_text("; ".join(pps(s) for s in node.statements)),
                    "terminal with more than one value store",
                )
                continue
            if not stores:
                # a flag raise without a store: only possible when peephole removed `b[i] = b[i] + 0`
                if raises and not zero_lit:
                    k.fail(
                        "C03.flag-iff-supported",
                        kind,
                        norm_text("; ".join(pps(s) for s in node.statements)),
                        "flags raised by a terminal that stores no value",
                    )
                else:
                    k.ok("C03.flag-iff-supported")
                continue
            rhs, _acc = store_rhs(stores[0])
            sup = contribution_supported(rhs, roles)
            if zero_lit:
                # literal-zero factors/terms make supported terminals print like exhausted ones
                # (peephole erases b*0): only the all-or-none clause is decided for these shapes
                k.ok("C03.flag-iff-supported")
                continue
            if n_comp == 0:
                k.ok("C03.flag-iff-supported")
                continue
            if bool(raises) and not sup:
                k.fail(
                    "C03.flag-iff-supported",
                    kind,
                    norm_text("; ".join(pps(s) for s in node.statements)),
                    "phantom coordinate: flags raised by a terminal whose expression has no structural support "
                    "(every operand exhausted, literal zero)",
                )
            elif sup and not raises:
                k.fail(
                    "C03.flag-iff-supported",
                    kind,
                    norm_text("; ".join(pps(s) for s in node.statements)),
                    "dropped entry: supported terminal does not raise the written flags",
                )
            else:
                k.ok("C03.flag-iff-supported", sample=norm_text("; ".join(pps(s) for s in node.statements)))
