"""Ownership rules (C05 inputs untouched / handed-back arrays, C13 allocated slots = owned slots)."""

from __future__ import annotations

from .. import kir
from ..kir import norm_text, pp, pps, root_var, simple_statements, subexprs
from .base import get_info, get_roles


def _is_alloc(e):
    IR = kir.IR
    return isinstance(e, (IR.ArrayAllocate, IR.ArrayReallocate))


def rule_store_roots(k):
    """Every store goes into an array this kernel owns (malloc'ed before, at top level), into the
    output value array/buckets (compute), or into the output struct; inputs are never store roots.
    Output arrays are never read back, except bucket accumulation."""
    IR = kir.IR
    info = get_info(k)
    for kind in ("evaluate", "assemble", "compute"):
        fn = k.kernels[kind]
        roles = get_roles(k, kind)
        k.instance("C05.store-roots")
        params = {p.name.name for p in fn.parameters}
        owned_now: set[str] = set()
        n = 0
        for s, path in simple_statements(fn.body):
            if isinstance(s, IR.Assignment) and isinstance(s.target, IR.Variable) and _is_alloc(s.value):
                v = s.target.name
                r = roles.role.get(v)
                if not (r and r[0] in ("pos", "crd", "vals") and r[1] == info.out):
                    k.fail("C05.store-roots", kind, norm_text(pps(s)), "allocation assigned to something that is not an output array")
                if isinstance(s.value, IR.ArrayAllocate):
                    if path:
                        k.fail("C05.store-roots", kind, norm_text(pps(s)), "malloc under control flow")
                    owned_now.add(v)
                else:
                    if not (isinstance(s.value.old, IR.Variable) and s.value.old.name == v):
                        k.fail("C05.store-roots", kind, norm_text(pps(s)), "realloc of a different array than the one assigned")
                    if v not in owned_now:
                        k.fail("C05.store-roots", kind, norm_text(pps(s)), "realloc of an array this kernel did not malloc")
                n += 1
                continue
            if isinstance(s, IR.Assignment) and not isinstance(s.target, IR.Variable):
                n += 1
                root = root_var(s.target)
                r = roles.role.get(root)
                if r is None:
                    k.fail("C05.store-roots", kind, norm_text(pps(s)), f"store through untyped root {root}")
                    continue
                if r[0] == "tensor":
                    if root != info.out:
                        k.fail("C05.store-roots", kind, norm_text(pps(s)), f"store into input tensor struct {root}")
                    continue
                if r[0] in ("pos", "crd", "vals", "bucket"):
                    if r[1] != info.out:
                        k.fail("C05.store-roots", kind, norm_text(pps(s)), f"store into array of input tensor {r[1]}")
                        continue
                    if kind == "compute":
                        if r[0] not in ("vals", "bucket"):
                            k.fail("C05.store-roots", kind, norm_text(pps(s)), "compute stores into output structure")
                        continue
                    base = root
                    if r[0] == "bucket":
                        # bucket derives from the owned vals array
                        base = next((v for v, rr in roles.role.items() if rr == ("vals", info.out)), None)
                    if base not in owned_now:
                        k.fail(
                            "C05.store-roots",
                            kind,
                            norm_text(pps(s)),
                            f"store into {root} before this kernel allocated it (would write the caller's memory)",
                        )
                    continue
                k.fail("C05.store-roots", kind, norm_text(pps(s)), f"store through {r[0]} variable {root}")
        # no read-back of output arrays except bucket accumulation
        for s, path in simple_statements(fn.body):
            reads, tgt = kir.stmt_exprs(s)
            exprs = list(reads)
            if tgt is not None and isinstance(tgt, IR.ArrayIndex):
                exprs.append(tgt.index)
            for p in path:
                exprs.append(p[1])
            for e in exprs:
                for x in subexprs(e):
                    if isinstance(x, IR.ArrayIndex) and isinstance(x.target, IR.Variable):
                        r = roles.role.get(x.target.name)
                        if r and r[0] in ("pos", "crd", "vals", "bucket") and r[1] == info.out:
                            n += 1
                            acc = (
                                r[0] == "bucket"
                                and isinstance(s, IR.Assignment)
                                and isinstance(s.value, IR.Add)
                                and s.value.left == s.target
                                and x == s.target
                            )
                            if not acc:
                                k.fail(
                                    "C05.store-roots",
                                    kind,
                                    norm_text(pps(s)),
                                    f"kernel reads back output cell {pp(x)} (uninitialised or stale memory)",
                                )
        k.ok("C05.store-roots", n)


def rule_handback(k):
    """C02/C05/C13: every array the kernel allocates is handed back through exactly one slot of the
    output struct, assigned after the last (re)allocation of that array; slots filled are exactly
    pos and crd of every compressed level and vals."""
    IR = kir.IR
    info = get_info(k)
    for kind in ("evaluate", "assemble"):
        fn = k.kernels[kind]
        roles = get_roles(k, kind)
        k.instance("C13.slots")
        seq = [s for s, _ in simple_statements(fn.body)]
        last_alloc = {}
        slot_of = {}
        slot_pos = {}
        for i, s in enumerate(seq):
            if isinstance(s, IR.Assignment) and isinstance(s.target, IR.Variable) and _is_alloc(s.value):
                last_alloc[s.target.name] = i
            if isinstance(s, IR.Assignment) and not isinstance(s.target, IR.Variable):
                if root_var(s.target) == info.out and roles.kind(info.out) == "tensor":
                    t = s.target
                    slot = None
                    if isinstance(t, IR.AttributeAccess) and t.attribute == "vals" and isinstance(t.target, IR.Variable):
                        slot = ("vals",)
                    elif (
                        isinstance(t, IR.ArrayIndex)
                        and isinstance(t.target, IR.ArrayIndex)
                        and isinstance(t.target.target, IR.AttributeAccess)
                        and t.target.target.attribute == "indices"
                        and isinstance(t.index, IR.IntegerLiteral)
                        and isinstance(t.target.index, IR.IntegerLiteral)
                    ):
                        slot = ("indices", t.target.index.value, t.index.value)
                    if slot is None or not isinstance(s.value, IR.Variable):
                        k.fail("C13.slots", kind, norm_text(pps(s)), "store into the output struct that is not `slot = array variable`")
                        continue
                    if slot in slot_of:
                        k.fail("C13.slots", kind, norm_text(pps(s)), f"slot {slot} assigned twice")
                    slot_of[slot] = s.value.name
                    slot_pos[s.value.name] = i
        expected = {("vals",)}
        for l, m in enumerate(info.out_modes):
            if m == info.compressed:
                expected |= {("indices", l, 0), ("indices", l, 1)}
        n = 0
        for slot in sorted(expected | set(slot_of), key=str):
            n += 1
            if slot not in slot_of:
                k.fail("C13.slots", kind, f"slot {slot}", "slot that the ownership layer frees is never filled by the kernel")
                continue
            if slot not in expected:
                k.fail("C13.slots", kind, f"slot {slot}", "kernel fills a slot the ownership layer does not own (leak) or a dense level's slot")
                continue
            arr = slot_of[slot]
            r = roles.role.get(arr)
            want = ("vals", info.out) if slot == ("vals",) else (("pos", "crd")[slot[2]], info.out, slot[1])
            if r != want:
                k.fail("C13.slots", kind, f"slot {slot}", f"slot filled with {arr} whose role is {r}, expected {want}")
                continue
            if arr not in last_alloc:
                k.fail("C13.slots", kind, f"slot {slot}", f"{arr} handed back but never allocated by the kernel (would free caller memory)")
                continue
            if slot_pos[arr] < last_alloc[arr]:
                k.fail("C13.slots", kind, f"slot {slot}", f"slot assigned before the last realloc of {arr}: dangling pointer handed back")
                continue
        for arr in last_alloc:
            if arr not in slot_pos:
                k.fail("C13.slots", kind, f"array {arr}", "allocated array is never handed back (leak)")
        k.ok("C13.slots", n, sample=f"{kind}: slots {sorted(map(str, slot_of))}")
    # compute must not touch the struct or allocate (C04.4 covers); counted here for C13


def rule_bucket_init(k):
    """C05 initialised reads: the only output cells a kernel reads back are bucket cells, and every
    bucket is zeroed over its whole extent immediately after it is declared (same statement list, before
    any other use): `b = vals + off; k = 0; while (k < prod D) { b[k] = 0; k++ }`."""
    IR = kir.IR
    info = get_info(k)
    for kind in ("evaluate", "compute"):
        fn = k.kernels[kind]
        roles = get_roles(k, kind)
        k.instance("C05.bucket-init")
        for node in kir.all_nodes(fn.body):
            if not isinstance(node, (IR.Branch, IR.Loop)) and node is not fn.body:
                continue
            arms = [node.if_true, node.if_false] if isinstance(node, IR.Branch) else [node.body] if isinstance(node, IR.Loop) else [node]
            for arm in arms:
                lst = kir.body_list(arm)
                for i, s in enumerate(lst):
                    if isinstance(s, IR.DeclarationAssignment) and roles.kind(s.target.name.name) == "bucket":
                        b = s.target.name.name
                        ok = False
                        if i + 2 < len(lst) + 0:
                            d, loop = lst[i + 1], lst[i + 2]
                            if (
                                isinstance(d, IR.DeclarationAssignment)
                                and kir.is_int(d.value, 0)
                                and isinstance(loop, IR.Loop)
                                and isinstance(loop.condition, IR.LessThan)
                                and loop.condition.left == IR.Variable(d.target.name.name)
                            ):
                                kv = IR.Variable(d.target.name.name)
                                body = kir.body_list(loop.body)
                                ok = body == [
                                    IR.Assignment(IR.ArrayIndex(IR.Variable(b), kv), IR.IntegerLiteral(0)),
                                    IR.Assignment(kv, IR.Add(kv, IR.IntegerLiteral(1))),
                                ]
                        if ok:
                            k.ok("C05.bucket-init")
                        else:
                            k.fail(
                                "C05.bucket-init",
                                kind,
                                norm_text(pps(s)),
                                "bucket is not zeroed over its extent right after its declaration: accumulation reads uninitialised memory",
                            )
