"""Self-test of the checkers, both directions (DESIGN.md section 7).

Each mutant is a text edit (old -> new, must match exactly once) applied to a scratch copy of
/repo/src outside /repo and /verif; the named check is run with --src on the copy and must exit 1
mentioning the expected rule. Benign twins must leave the check at exit 0. The copy is removed
immediately afterwards. Mutants are fixtures of the self-test, not part of any check.

    /venv/bin/python selftest/mutants.py [-j 16] [--only C07,C12] [--keep-going]
"""

from __future__ import annotations

import argparse
import concurrent.futures as cf
import json
import os
import shutil
import subprocess
import sys
import tempfile
import time
from pathlib import Path

VERIF = Path(__file__).resolve().parent.parent
SRC = Path("/repo/src")

# (id, property/check, file under src/tensora, old, new, expected rule substring or None for benign)
M = []


def m(mid, check, file, old, new, expect):
    M.append((mid, check, file, old, new, expect))


# ---------------------------------------------------------------- C01
m("C01-inverse-ordering", "C01", "desugar/_to_identifiable.py",
  "tuple(self.indexes[i_index] for i_index in format.ordering)",
  "tuple(self.indexes[format.ordering.index(i_index)] for i_index in range(len(format.ordering)))", "C01.")
m("C01-subgraph-order", "C01", "iteration_graph/_generate_ir.py",
  "            for sparse_layers in new_graphs:\n                all_subgraphs.pop(sparse_layers, None)\n", "", "C01.lattice-order")
m("C01-hoist-unconditional", "C01", "desugar/_desugar_expression.py",
  "    intersection_indexes = left_indexes.intersection(right_indexes).intersection(\n        indexes_of_every_term(self)\n    )\n\n    output = desugar.Add(\n        desugar_expression(self.left, left_indexes - intersection_indexes, ids),\n        desugar_expression(self.right, right_indexes - intersection_indexes, ids),\n    )",
  "    intersection_indexes = left_indexes.intersection(right_indexes)\n\n    output = desugar.Add(\n        desugar_expression(self.left, left_indexes - intersection_indexes, ids),\n        desugar_expression(self.right, right_indexes - intersection_indexes, ids),\n    )", "C01.K-sum")
m("C01-add-sparse-or", "C01", "iteration_graph/identifiable_expression/_extract_context.py",
  "is_sparse=self.is_sparse and other.is_sparse", "is_sparse=self.is_sparse or other.is_sparse", "C01.K-dense")
m("C01-subtract-no-sign", "C01", "desugar/_desugar_expression.py",
  "        desugar.Multiply(\n            desugar.Integer(-1),\n            desugar_expression(self.right, right_indexes - intersection_indexes, ids),\n        ),",
  "        desugar_expression(self.right, right_indexes - intersection_indexes, ids),", "C01.K-poly")
m("C01-wrong-dimension", "C01", "desugar/_index_dimensions.py",
  "indexes[index_i] = TensorDimension(self.name, i)", "indexes[index_i] = TensorDimension(self.name, 0)", "C01.K-addr")
m("C01-ravel-order", "C01", "iteration_graph/outputs/_bucket.py",
  "for dim_i, index_i in zip(reversed(dimensions), reversed(indexes), strict=True):",
  "for dim_i, index_i in zip(dimensions, indexes, strict=True):", "C01.K-addr")
m("C01-to-ir-add-as-multiply", "C01", "iteration_graph/identifiable_expression/_to_ir.py",
  "return ir.Add(to_ir(self.left), to_ir(self.right))", "return ir.Multiply(to_ir(self.left), to_ir(self.right))", "C01.K-poly")
m("C01-output-layer-wrong", "C01", "desugar/_to_iteration_graphs.py",
  "tuple(assignment.target.indexes[i] for i in output_format.ordering),\n                output_format.modes,",
  "tuple(assignment.target.indexes),\n                output_format.modes,", "C01.")
m("C01-arm-drops-operand", "C01", "iteration_graph/_generate_ir.py",
  "                block.append(to_ir_iteration_graph(subsubnode.next, next_output, kernel_type))",
  "                block.append(\n                    to_ir_iteration_graph(\n                        (subsubnodes[1] if len(subsubnodes) > 2 and subsubnode is subsubnodes[0] else subsubnode).next,\n                        next_output,\n                        kernel_type,\n                    )\n                )", "C01.K-complete")
# ---------------------------------------------------------------- C02
m("C02-no-pos0", "C02", "iteration_graph/outputs/_append.py",
  "                    source.append(pos_array.idx(0).assign(0))\n", "", "C02.pos-init")
m("C02-pos-index", "C02", "iteration_graph/_write_sparse_ir.py",
  "source.append(pos.idx(previous_pointer.plus(1)).assign(pointer))", "source.append(pos.idx(previous_pointer).assign(pointer))", "C02.K-cover")
m("C02-pos-final-size", "C02", "iteration_graph/outputs/_append.py",
  "ArrayReallocate(pos_array, types.integer, previous_size.plus(1))", "ArrayReallocate(pos_array, types.integer, previous_size)", "C02.final-sizes")
m("C02-crd-stores-cursor", "C02", "iteration_graph/_write_sparse_ir.py",
  "source.append(crd.idx(pointer).assign(loop_variable))", "source.append(crd.idx(pointer).assign(pointer))", "C03.flag-gating")
m("C02-pos-assembly-missing", "C02", "iteration_graph/_generate_ir.py",
  "    if kernel_type.is_assemble() and self.is_sparse_output():\n        source.append(write_pos_assembly(self.output))\n",
  "    if kernel_type.is_assemble() and self.is_sparse_output() and self.output.layer == 0:\n        source.append(write_pos_assembly(self.output))\n", "C02.K-cover")
m("C02-slot-before-realloc", "C02", "iteration_graph/outputs/_append.py",
  "                    source.append(\n                        crd_array.assign(ArrayReallocate(crd_array, types.integer, final_size))\n                    )\n\n                    source.append(output_tensor.attr(\"indices\").idx(i).idx(0).assign(pos_array))\n                    source.append(output_tensor.attr(\"indices\").idx(i).idx(1).assign(crd_array))\n",
  "                    source.append(output_tensor.attr(\"indices\").idx(i).idx(0).assign(pos_array))\n                    source.append(output_tensor.attr(\"indices\").idx(i).idx(1).assign(crd_array))\n                    source.append(\n                        crd_array.assign(ArrayReallocate(crd_array, types.integer, final_size))\n                    )\n\n", "C13.slots")
# ---------------------------------------------------------------- C03
m("C03-no-zero-guard", "C03", "iteration_graph/_generate_ir.py",
  "    if self.expression != Integer(0):\n        for flag in output.written_flags():", "    if True:\n        for flag in output.written_flags():", "C03.flag-iff-supported")
m("C03-flag-reset-true", "C03", "iteration_graph/_generate_ir.py",
  "block.append(written_flag.declare(types.boolean).assign(False))", "block.append(written_flag.declare(types.boolean).assign(True))", "C03.flag-reset")
m("C03-exhaust-multiply", "C03", "iteration_graph/identifiable_expression/_exhaust_tensor.py",
  "    elif left_exhausted == Integer(0) or right_exhausted == Integer(0):\n        return Integer(0)\n", "", "C03.flag-iff-supported")
m("C03-partial-flags", "C03", "iteration_graph/outputs/_base.py",
  "            if mode == Mode.compressed\n        ]", "            if mode == Mode.compressed and layer == 0\n        ]", "C03.")
# ---------------------------------------------------------------- C04
m("C04-flags-only-compute", "C04", "iteration_graph/_generate_ir.py",
  "    if self.expression != Integer(0):\n        for flag in output.written_flags():",
  "    if self.expression != Integer(0) and kernel_type.is_compute():\n        for flag in output.written_flags():", "C04.structural-slice")
m("C04-compute-reallocs", "C04", "iteration_graph/_generate_ir.py",
  "                if kernel_type.is_assemble() and self.is_sparse_output():\n                    block.append(write_pos_allocation(self.output))",
  "                if self.is_sparse_output():\n                    block.append(write_pos_allocation(self.output))", "C04.")
m("C04-two-graphs", "C04", "generate/_tensora.py",
  "    functions = [generate_ir(definition, graph, kernel_type) for kernel_type in kernel_types]",
  "    functions = [\n        generate_ir(definition, best_algorithm(desugar, formats).unwrap(), kernel_type)\n        for kernel_type in kernel_types\n    ]", "C04.one-graph")
# ---------------------------------------------------------------- C05
m("C05-guard-gt", "C05", "iteration_graph/_write_sparse_ir.py",
  "    with source.branch(GreaterThanOrEqual(pointer, capacity)):", "    with source.branch(GreaterThanOrEqual(pointer, capacity.plus(1))):", "C05.writes")
m("C05-no-doubling", "C05", "iteration_graph/_write_sparse_ir.py",
  "        source.append(capacity.assign(capacity.times(2)))\n        source.append(crd.assign(ArrayReallocate(crd, types.integer, capacity)))",
  "        source.append(capacity.assign(capacity.plus(1024)))\n        source.append(crd.assign(ArrayReallocate(crd, types.integer, capacity)))", "C05.writes")
m("C05-zero-capacity", "C05", "iteration_graph/outputs/_append.py",
  "default_array_size = Multiply(IntegerLiteral(1024), IntegerLiteral(1024))", "default_array_size = Multiply(IntegerLiteral(1024), IntegerLiteral(0))", "C05.capacity-init")
m("C05-unconditional-step", "C05", "iteration_graph/_generate_ir.py",
  "                    leaf.layer_pointer().increment(\n                        BooleanToInteger(Equal(leaf.value_from_crd(), loop_variable))\n                    )",
  "                    leaf.layer_pointer().increment()", "C0")
m("C05-end-from-wrong-pos", "C05", "iteration_graph/_write_sparse_ir.py",
  "source.append(end_index.declare(types.integer).assign(pos_array.idx(start_index.plus(1))))",
  "source.append(end_index.declare(types.integer).assign(pos_array.idx(start_index.plus(2))))", "C05.reads")
m("C05-vals-guard-bonus", "C05", "iteration_graph/_write_sparse_ir.py",
  "        minimum_capacity = (\n            output.layer_pointer().plus(1).times(Multiply.join(dense_dimensions)).plus(bonus)\n        )",
  "        minimum_capacity = (\n            output.layer_pointer().times(Multiply.join(dense_dimensions)).plus(bonus)\n        )", "C05.writes")
# ---------------------------------------------------------------- C06
m("C06-icmp-le", "C06", "codegen/_ir_to_llvm.py",
  "def ir_to_llvm_less_than(\n    self: LessThan, builder: llvm.IRBuilder, locals: dict[str, llvm.Value]\n) -> llvm.Value:\n    return builder.icmp_signed(\n        \"<\",",
  "def ir_to_llvm_less_than(\n    self: LessThan, builder: llvm.IRBuilder, locals: dict[str, llvm.Value]\n) -> llvm.Value:\n    return builder.icmp_signed(\n        \"<=\",", "C06.operator-table")
m("C06-min-select-swapped", "C06", "codegen/_ir_to_llvm.py",
  "    condition = builder.icmp_signed(\"<\", left, right)\n    return builder.select(condition, left, right)",
  "    condition = builder.icmp_signed(\"<\", left, right)\n    return builder.select(condition, right, left)", "C06.operator-table")
m("C06-sext-bool", "C06", "codegen/_ir_to_llvm.py",
  "    return builder.zext(expression, llvm_integer_type)", "    return builder.sext(expression, llvm_integer_type)", "C06.operator-table")
m("C06-multiply-left-wrap", "C06", "codegen/_ir_to_c.py",
  "    return f\"{parens(self.left, (Add, Subtract))} * {parens(self.right, (Add, Subtract))}\"",
  "    return f\"{ir_to_c_expression(self.left)} * {parens(self.right, (Add, Subtract))}\"", "C06.precedence")
m("C06-decrement-sugar", "C06", "codegen/_ir_to_c.py",
  "    if isinstance(self.value, Add) and self.value.left == self.target:\n        if self.value.right == IntegerLiteral(1):\n            return [f\"{target}++;\"]",
  "    if isinstance(self.value, Add) and self.value.left == self.target:\n        if self.value.right == IntegerLiteral(1):\n            return [f\"{target}--;\"]", "C06.precedence")
m("C06-llvm-struct-field", "C06", "codegen/_type_to_llvm.py",
  "            llvm_mode_type,  # mode_types\n", "            llvm.PointerType(llvm_mode_type),  # mode_types\n            llvm_integer_type,  # flags\n", "C06.struct-layout")
m("C06-macro-rename", "C06", "codegen/_ir_to_c.py",
  "    return f\"TACO_MIN({ir_to_c_expression(self.left)}, {ir_to_c_expression(self.right)})\"",
  "    return f\"TACO_MINIMUM({ir_to_c_expression(self.left)}, {ir_to_c_expression(self.right)})\"", "C06.")
m("C06-hoist-skips-else", "C06", "codegen/_hoist_declarations.py",
  "    result.update(hoist_declarations_statement(self.if_false))\n", "", "C06.hoisting")
m("C06-alloc-width", "C06", "codegen/_ir_to_llvm.py",
  "    memory_size = builder.mul(element_size, builder.sext(n_elements, llvm_size_type))\n    memory_pointer = builder.call(locals[\"malloc\"], [memory_size])",
  "    memory_size = builder.sext(builder.mul(builder.trunc(element_size, llvm_integer_type), n_elements), llvm_size_type)\n    memory_pointer = builder.call(locals[\"malloc\"], [memory_size])", "C06.alloc-width")
m("C06-arity", "C06", "codegen/_ir_to_llvm.py",
  "    _ = ir_to_llvm_expression(self, builder, locals)", "    _ = ir_to_llvm_expression(self)", "C06.call-arity")
m("C06-sitofp-wrong-side", "C06", "codegen/_ir_to_llvm.py",
  "        case (llvm.IntType(), llvm.DoubleType()):\n            left = builder.sitofp(left, llvm_float_type)\n            return builder.fsub(left, right)",
  "        case (llvm.IntType(), llvm.DoubleType()):\n            left = builder.uitofp(left, llvm_float_type)\n            return builder.fsub(left, right)", "C06.operator-table")
# ---------------------------------------------------------------- C07
m("C07-subtract-left-zero", "C07", "ir/_peephole.py",
  "    if right == IntegerLiteral(0) or right == FloatLiteral(0.0):\n        return left\n    else:\n        return Subtract(left, right)",
  "    if right == IntegerLiteral(0) or right == FloatLiteral(0.0):\n        return left\n    elif left == IntegerLiteral(0):\n        return right\n    else:\n        return Subtract(left, right)", "C07.rule-instances")
m("C07-multiply-one-wrong-side", "C07", "ir/_peephole.py",
  "    elif left == IntegerLiteral(1) or left == FloatLiteral(1.0):\n        return right", "    elif left == IntegerLiteral(1) or left == FloatLiteral(1.0):\n        return left", "C07.rule-instances")
m("C07-and-false-true", "C07", "ir/_peephole.py",
  "    if left == BooleanLiteral(False) or right == BooleanLiteral(False):\n        return BooleanLiteral(False)",
  "    if left == BooleanLiteral(False) or right == BooleanLiteral(False):\n        return BooleanLiteral(True)", "C07.rule-instances")
m("C07-lessthan-reflexive-true", "C07", "ir/_peephole.py",
  ("@peephole_expression.register(LessThanOrEqual)\ndef peephole_equal", "@peephole_expression.register(GreaterThan)\n@peephole_expression.register(LessThan)\ndef peephole_not_equal"),
  ("@peephole_expression.register(LessThanOrEqual)\n@peephole_expression.register(LessThan)\ndef peephole_equal", "@peephole_expression.register(GreaterThan)\ndef peephole_not_equal"), "C07.")
m("C07-loop-true", "C07", "ir/_peephole.py",
  "    if condition == BooleanLiteral(False):\n        return Block([])\n    elif isinstance(self.body, Block)", "    if condition == BooleanLiteral(True):\n        return Block([])\n    elif isinstance(self.body, Block)", "C07.rule-instances")
m("C07-branch-drops-else", "C07", "ir/_peephole.py",
  "        return Branch(condition, if_true, if_false)", "        return Branch(condition, if_true, if_true)", "C07.rule-instances")
m("C07-swapped-subtract", "C07", "ir/_peephole.py",
  "        return Subtract(left, right)", "        return Subtract(right, left)", "C07.rule-instances")
m("C07-or-short-circuit", "C07", "ir/_peephole.py",
  "    elif left == BooleanLiteral(False):\n        return right\n    elif right == BooleanLiteral(False):\n        return left\n    else:\n        return Or(left, right)",
  "    elif left == BooleanLiteral(False):\n        return right\n    elif right == BooleanLiteral(False):\n        return right\n    else:\n        return Or(left, right)", "C07.rule-instances")
m("C07-benign-x-minus-x", "C07", "ir/_peephole.py",
  "    if right == IntegerLiteral(0) or right == FloatLiteral(0.0):\n        return left\n    else:\n        return Subtract(left, right)",
  "    if right == IntegerLiteral(0) or right == FloatLiteral(0.0):\n        return left\n    elif left == right:\n        return IntegerLiteral(0)\n    else:\n        return Subtract(left, right)", None)
# ---------------------------------------------------------------- C08
m("C08-diagonal-not-caught", "C08", "desugar/_best_algorithm.py",
  "    except DiagonalAccessError as e:\n        return Failure(e)", "    except KeyError as e:\n        return Failure(e)", "C08.exception-escape")
m("C08-new-mode-member", "C08", "format/_format.py",
  "    compressed = (1, \"s\")\n", "    compressed = (1, \"s\")\n    hashed = (2, \"h\")\n", "C08.")
m("C08-cli-failure-arm", "C08", "cli.py",
  "    match make_problem(parsed_assignment, parsed_formats):\n        case Failure(error):\n            typer.echo(str(error), err=True)\n            raise typer.Exit(1)\n",
  "    match make_problem(parsed_assignment, parsed_formats):\n", "C08.")
m("C08-cli-exit-zero", "C08", "cli.py",
  "        case Failure(error):\n            typer.echo(f\"Failed to parse assignment:\\n{error}\", err=True)\n            raise typer.Exit(1)",
  "        case Failure(error):\n            typer.echo(f\"Failed to parse assignment:\\n{error}\", err=True)\n            raise typer.Exit(0)", "C08.cli-discipline")
m("C08-new-raise", "C08", "iteration_graph/_write_sparse_ir.py",
  "    layer_being_allocated = output.layer + len(dense_dimensions) + 1\n",
  "    layer_being_allocated = output.layer + len(dense_dimensions) + 1\n    if len(dense_dimensions) > 2:\n        raise ValueError(\"too many dense dimensions\")\n", "C08.exception-escape")
# ---------------------------------------------------------------- C09
m("C09-no-permutation", "C09", "tensor.py",
  "        level_dimensions = tuple(dimensions[i] for i in format.ordering)\n", "        level_dimensions = dimensions\n", "C09.construction-semantics")
m("C09-taco-vals-dimension", "C09", "tensor.py",
  "            if modes[i_dimension] == Mode.dense:\n                nnz *= dimensions[mode_ordering[i_dimension]]\n            elif modes[i_dimension] == Mode.compressed:\n                nnz = cffi_indexes[i_dimension][0][nnz]",
  "            if modes[i_dimension] == Mode.dense:\n                nnz *= dimensions[i_dimension]\n            elif modes[i_dimension] == Mode.compressed:\n                nnz = cffi_indexes[i_dimension][0][nnz]", "C09.axis-typing")
m("C09-no-sorted", "C09", "tensor.py", "            idx = sorted(node.keys())\n", "            idx = list(node.keys())\n", "C09.construction-semantics")
m("C09-overwrite-duplicates", "C09", "tensor.py", "            node[key] = node.get(key, 0.0) + payload", "            node[key] = payload", "C09.construction-semantics")
m("C09-validation-crd-range", "C09", "compile/_cffi_ownership.py",
  "            if not all(0 <= x < dimensions[mode_ordering[i_level]] for x in crd):", "            if not all(0 <= x for x in crd):", "C09.structure-semantics")
m("C09-setstate-swapped", "C09", "tensor.py",
  "            dimensions=state[\"dimensions\"],\n            mode_ordering=state[\"mode_ordering\"],", "            dimensions=state[\"mode_ordering\"],\n            mode_ordering=state[\"dimensions\"],", "C09.")
# ---------------------------------------------------------------- C10
m("C10-first-two-only", "C10", "compile/_tensor_method.py",
  "            for _, _, size in actual_sizes[1:]:", "            for _, _, size in actual_sizes[1:2]:", "C10.call-semantics")
m("C10-no-ordering-check", "C10", "compile/_tensor_method.py",
  "            if tuple(argument.mode_ordering) != tuple(format.ordering):\n                raise ValueError(\n                    f\"Argument {name} must have mode ordering \"\n                    f\"{format.ordering} not {argument.mode_ordering}\"\n                )\n", "", "C10.call-semantics")
m("C10-direct-kernel-call", "C10", "compile/_porcelain.py",
  "    function = cachable_tensor_method(problem, BackendCompiler.llvm)\n\n    return function(**inputs)",
  "    function = cachable_tensor_method(problem, BackendCompiler.llvm)\n    if not inputs:\n        return function._evaluate()\n\n    return function(**inputs)", "C10.")
m("C10-isinstance-dropped", "C10", "compile/_tensor_method.py",
  "            if not isinstance(argument, Tensor):\n                raise TypeError(f\"Argument {name} must be a Tensor not {type(argument)}\")\n\n", "", "C10.call-semantics")
m("C10-problem-order-unchecked", "C10", "problem.py",
  "            elif order != self.formats[name].order:", "            elif order > self.formats[name].order:", "C10.problem")
# ---------------------------------------------------------------- C11
m("C11-rsub-not-swapped", "C11", "tensor.py",
  "    def __rsub__(self, other) -> Tensor:\n        return evaluate_binary_operator(other, self, \"-\")", "    def __rsub__(self, other) -> Tensor:\n        return evaluate_binary_operator(self, other, \"-\")", "C11.dunder-table")
m("C11-matvec-wrong-index", "C11", "tensor.py", "\"output(i) = left(i,j) * right(j)\"", "\"output(i) = left(i,j) * right(i)\"", "C11.operator-semantics")
m("C11-mul-format-or", "C11", "tensor.py",
  "\"d\" if mode1 == Mode.dense and mode2 == Mode.dense else \"s\"", "\"d\" if mode1 == Mode.dense or mode2 == Mode.dense else \"s\"", "C11.operator-semantics")
m("C11-matmat-guard", "C11", "tensor.py",
  "        elif left.order == 2 and right.order == 2:\n            if left.dimensions[1] != right.dimensions[0]:", "        elif left.order == 2 and right.order == 2:\n            if left.dimensions[0] != right.dimensions[0]:", "C11.operator-semantics")
m("C11-scalar-format", "C11", "tensor.py",
  "    elif isinstance(left, Real) and isinstance(right, Tensor):\n        if operator == \"*\":\n            # Output has density of tensor\n            output_format = right.format.deparse()",
  "    elif isinstance(left, Real) and isinstance(right, Tensor):\n        if operator == \"*\":\n            # Output has density of tensor\n            output_format = \"d\" * right.order", "C11.operator-semantics")
# ---------------------------------------------------------------- C12
m("C12-right-fold", "C12", "expression/_parser.py", "                value = Add(value, term)", "                value = Add(term, value)", "C12.grammar")
m("C12-add-deparse-wrap", "C12", "expression/ast.py",
  "        if isinstance(self.right, (Add, Subtract)):\n            # Preserve AST even though addition is associative.", "        if isinstance(self.right, Add):\n            # Preserve AST even though addition is associative.", "C12.roundtrip-semantics")
m("C12-swapped-constructors", "C12", "expression/_parser.py",
  "            case \"+\":\n                value = Add(value, term)\n            case \"-\":\n                value = Subtract(value, term)",
  "            case \"+\":\n                value = Subtract(value, term)\n            case \"-\":\n                value = Add(value, term)", "C12.grammar")
m("C12-catch-two", "C12", "expression/_parser.py",
  "    except (MutatingAssignmentError, InconsistentDimensionsError, NameConflictError) as e:", "    except (MutatingAssignmentError, InconsistentDimensionsError) as e:", "C12.parser-escape")
m("C12-multiply-variables", "C12", "expression/ast.py",
  "    def deparse(self):\n        left_string = self.left.deparse()\n        if isinstance(self.left, (Add, Subtract)):",
  "    def _unused(self):\n        return None\n\n    def deparse(self):\n        left_string = self.left.deparse()\n        if isinstance(self.left, (Add, Subtract)):", None)
m("C12-multiply-variables-drops-right", "C12", "expression/ast.py",
  "@dataclass(frozen=True, slots=True)\nclass Multiply(Expression):\n    left: Expression\n    right: Expression\n\n    def variables(self) -> dict[str, list[Tensor]]:\n        variables_mapping = self.left.variables().copy()\n        for name, variables in self.right.variables().items():",
  "@dataclass(frozen=True, slots=True)\nclass Multiply(Expression):\n    left: Expression\n    right: Expression\n\n    def variables(self) -> dict[str, list[Tensor]]:\n        variables_mapping = self.left.variables().copy()\n        for name, variables in self.left.variables().items():", "C12.rejection-semantics")
m("C12-term-level", "C12", "expression/_parser.py",
  "    term = rep1sep(factor, \"*\") > (lambda x: reduce(Multiply, x))\n    expression = term & rep(lit(\"+\", \"-\") & term) > splat(make_expression)",
  "    term = rep1sep(factor, \"+\") > (lambda x: reduce(Add, x))\n    expression = term & rep(lit(\"*\", \"-\") & term) > splat(make_expression)", "C12.grammar")
m("C12-format-digit", "C12", "format/_format.py",
  "                mode.character + str(ordering)", "                str(ordering) + mode.character", "C12.roundtrip-semantics")
# ---------------------------------------------------------------- C13
m("C13-no-take-ownership", "C13", "compile/_tensor_method.py", "        take_ownership_of_arrays(cffi_output)\n\n", "", "C13.hand-over")
m("C13-take-after-raise", "C13", "compile/_tensor_method.py",
  "        take_ownership_of_arrays(cffi_output)\n\n        if return_value != 0:\n            raise RuntimeError(f\"Kernel evaluation failed with error code {return_value}\")\n",
  "        if return_value != 0:\n            raise RuntimeError(f\"Kernel evaluation failed with error code {return_value}\")\n\n        take_ownership_of_arrays(cffi_output)\n", "C13.hand-over")
m("C13-only-pos", "C13", "compile/_cffi_ownership.py",
  "            memory_holder[\"**indices\"][i_dimension][1] = tensor_cdefs.gc(\n                cffi_levels[i_dimension][1], tensor_lib.free\n            )\n", "", "C13.ownership-semantics")
m("C13-second-call", "C13", "compile/_tensor_method.py",
  "        take_ownership_of_arrays(cffi_output)\n\n        if return_value != 0:", "        take_ownership_of_arrays(cffi_output)\n        take_ownership_of_arrays(cffi_output)\n\n        if return_value != 0:", "C13.hand-over")
m("C13-local-holder", "C13", "compile/_cffi_ownership.py",
  "    memory_holder = global_weakkeydict[cffi_tensor]\n\n    order = cffi_tensor.order\n\n    modes", "    memory_holder = {\"**indices\": [[None, None] for _ in range(cffi_tensor.order)]}\n\n    order = cffi_tensor.order\n\n    modes", "C13.ownership-semantics")
m("C13-free-input", "C13", "compile/_tensor_method.py",
  "        take_ownership_of_arrays(cffi_output)\n\n        if return_value != 0:", "        take_ownership_of_arrays(cffi_output)\n        for argument in bound_arguments.values():\n            take_ownership_of_arrays(argument.cffi_tensor)\n\n        if return_value != 0:", "C13.")
# ---------------------------------------------------------------- C14
m("C14-compile-outside-lock", "C14", "compile/_compile_cffi.py",
  "        with lock:\n            # Create shared object in temporary directory\n            lib_path = ffibuilder.compile(tmpdir=temp_dir)",
  "        with lock:\n            pass\n        # Create shared object in temporary directory\n        lib_path = ffibuilder.compile(tmpdir=temp_dir)", "C14.compile-under-lock")
m("C14-module-engine", "C14", "compile/_compile_llvm.py",
  "    target_machine = target.create_target_machine()\n", "    target_machine = _shared_target_machine\n", "C14.fresh-engine")
m("C14-dict-cache", "C14", "compile/_porcelain.py",
  "@lru_cache\ndef cachable_tensor_method(problem: Problem, backend: BackendCompiler) -> TensorMethod:\n    return TensorMethod(problem, backend=backend)",
  "_cache = {}\n\n\ndef cachable_tensor_method(problem: Problem, backend: BackendCompiler) -> TensorMethod:\n    if (problem, backend) not in _cache:\n        _cache[(problem, backend)] = TensorMethod(problem, backend=backend)\n    return _cache[(problem, backend)]", "C14.shared-state")
m("C14-self-last-output", "C14", "compile/_tensor_method.py", "        output = Tensor(cffi_output)\n", "        output = Tensor(cffi_output)\n        self._last_output = output\n", "C14.re-entrancy")
# ---------------------------------------------------------------- C15
m("C15-frozenset-subgraph-keys", "C15", "iteration_graph/iteration_graph.py",
  "        return StableFrozenSet(*(leaf.tensor.id for leaf in self.context.sparse_leaves))", "        return frozenset(leaf.tensor.id for leaf in self.context.sparse_leaves)", "C15.")
m("C15-iterate-context-indexes", "C15", "iteration_graph/_generate_ir.py",
  "            for leaf in maybe_dense_output + dense_subnode_leaves:\n                needed_indexes: set[str] = set()",
  "            for later_index in self.later_indexes():\n                source.append(Variable(later_index + \"_seen\").declare(types.integer).assign(0))\n            for leaf in maybe_dense_output + dense_subnode_leaves:\n                needed_indexes: set[str] = set()", "C15.hash-order-sites")
m("C15-formats-as-dicts", "C15", "problem.py",
  "            return self.assignment == other.assignment and tuple(self.formats.items()) == tuple(\n                other.formats.items()\n            )",
  "            return self.assignment == other.assignment and self.formats == other.formats", "C15.cache-key")
m("C15-compare-false", "C15", "format/_format.py",
  ("from dataclasses import dataclass\n", "    ordering: tuple[int, ...]\n\n    def __post_init__"),
  ("from dataclasses import dataclass, field\n", "    ordering: tuple[int, ...] = field(compare=False)\n\n    def __post_init__"), "C15.cache-key")
m("C15-echo-strip", "C15", "cli.py", "        typer.echo(code)\n", "        typer.echo(code.strip())\n", "C15.cli-dataflow")
m("C15-module-counter", "C15", "desugar/_desugar_expression.py",
  "def desugar_assignment(assignment: sugar.Assignment) -> desugar.Assignment:\n    ids = count()\n", "_ids = count()\n\n\ndef desugar_assignment(assignment: sugar.Assignment) -> desugar.Assignment:\n    ids = _ids\n", "C15.counters")
m("C15-id-in-name", "C15", "iteration_graph/outputs/_bucket.py",
  "    def loop_name(self) -> Variable:\n        return Variable(f\"i_bucket_{self.output.id}{''.join(f'_{x}' for x in self.layers)}\")",
  "    def loop_name(self) -> Variable:\n        return Variable(f\"i_bucket_{id(self) % 1000}_{self.output.id}{''.join(f'_{x}' for x in self.layers)}\")", "C15.purity")
# ---------------------------------------------------------------- C16
m("C16-add-never-sparse", "C16", "iteration_graph/identifiable_expression/_extract_context.py",
  "            is_sparse=self.is_sparse and other.is_sparse,", "            is_sparse=False,", "C16.dim-not-control")
m("C16-node-never-sparse", "C16", "iteration_graph/_generate_ir.py",
  "    is_sparse = self.is_sparse_input() and (self.output is None or self.is_sparse_output())", "    is_sparse = False", "C16.dim-not-control")
m("C16-no-skip-empty-subnode", "C16", "iteration_graph/_generate_ir.py",
  "        if is_sparse and len(subnode.compressed_dimensions()) == 0:\n            # If there are no sparse leaves, then this is the last subnode and we are in one of",
  "        if False and len(subnode.compressed_dimensions()) == 0:\n            # If there are no sparse leaves, then this is the last subnode and we are in one of", "C16.dim-not-control")

# ---------------------------------------------------------------- benign twins (behaviour-preserving refactors)
m("B-from-aos-rename", "C09", "tensor.py", "ALL:level_coordinates", "coords_by_level", None)
m("B-call-rename", "C10", "compile/_tensor_method.py", "ALL:actual_sizes", "sizes", None)
m("B-call-rename-C13", "C13", "compile/_tensor_method.py", "ALL:cffi_output", "out_struct", None)
m("B-call-rename-C14", "C14", "compile/_tensor_method.py", "ALL:cffi_output", "out_struct", None)
m("B-cli-rename-C15", "C15", "cli.py", ("ALL:(code)", "typer.echo(code)", "write_text(code)"), ("(text)", "typer.echo(text)", "write_text(text)"), None)
m("B-cli-rename-C08", "C08", "cli.py", ("ALL:(code)", "typer.echo(code)", "write_text(code)"), ("(text)", "typer.echo(text)", "write_text(text)"), None)
m("B-ownership-rename", "C13", "compile/_cffi_ownership.py", "ALL:i_dimension", "i_lvl", None)
m("B-peephole-reorder", "C07", "ir/_peephole.py",
  "    if left == IntegerLiteral(0) or left == FloatLiteral(0.0):\n        return right\n    elif right == IntegerLiteral(0) or right == FloatLiteral(0.0):\n        return left\n    else:\n        return Add(left, right)",
  "    if right == IntegerLiteral(0) or right == FloatLiteral(0.0):\n        return left\n    elif left == IntegerLiteral(0) or left == FloatLiteral(0.0):\n        return right\n    else:\n        return Add(left, right)", None)
m("B-llvm-rename", "C06", "codegen/_ir_to_llvm.py", "ALL:    condition = builder.icmp_signed(\">\", left, right)\n    return builder.select(condition, left, right)", "    is_greater = builder.icmp_signed(\">\", left, right)\n    return builder.select(is_greater, left, right)", None)
m("B-generator-rename", "C05", "iteration_graph/_generate_ir.py", "ALL:while_criteria", "loop_condition", None)
m("B-assignment-rename", "C12", "expression/ast.py", "ALL:index_names", "seen_indexes", None)
m("B-problem-rename", "C10", "problem.py", "ALL:new_formats", "ordered_formats", None)
m("B-format-deparse-negated", "C12", "format/_format.py",
  "        if self.ordering == tuple(range(self.order)):\n            return \"\".join(mode.character for mode in self.modes)\n        else:\n            return \"\".join(\n                mode.character + str(ordering)\n                for mode, ordering in zip(self.modes, self.ordering, strict=True)\n            )",
  "        if self.ordering != tuple(range(self.order)):\n            return \"\".join(\n                mode.character + str(ordering)\n                for mode, ordering in zip(self.modes, self.ordering, strict=True)\n            )\n        return \"\".join(mode.character for mode in self.modes)", None)
m("B-lock-rename", "C14", "compile/_compile_cffi.py", "ALL:lock", "compile_mutex", None)
m("B-tree-rename", "C09", "tensor.py", "ALL:            idx = sorted(node.keys())\n            indexes[i_level][0].append(indexes[i_level][0][-1] + len(idx))\n            indexes[i_level][1].extend(idx)\n\n            iter_next_level = idx", "            stored = sorted(node.keys())\n            indexes[i_level][0].append(indexes[i_level][0][-1] + len(stored))\n            indexes[i_level][1].extend(stored)\n\n            iter_next_level = stored", None)
m("B-desugar-rename", "C15", "desugar/_desugar_expression.py", "ALL:intersection_indexes", "hoisted", None)
m("B-validation-rename", "C09", "compile/_cffi_ownership.py", "ALL:nnz", "n_positions", None)
m("B-operator-rename", "C11", "tensor.py", ("ALL:indexes = indexes_string(", "ALL:({indexes})"), ("index_list = indexes_string(", "({index_list})"), None)
m("B-names-helper-C01", "C01", "iteration_graph/_names.py", "def dimension_name(index_variable: str) -> Variable:\n    return Variable(f\"{index_variable}_dim\")", "def dimension_name(index_variable: str) -> Variable:\n    name = f\"{index_variable}_dim\"\n    return Variable(name)", None)
m("B-escape-helper-C08", "C08", "desugar/_best_algorithm.py", "        match next(to_iteration_graphs(assignment, formats), None):", "        graphs = to_iteration_graphs(assignment, formats)\n        match next(graphs, None):", None)


def run_one(mut, keep=False):
    mid, check, file, old, new, expect = mut
    t0 = time.time()
    d = Path(tempfile.mkdtemp(prefix="vfmut."))
    try:
        shutil.copytree(SRC, d / "src")
        p = d / "src" / "tensora" / file
        s = p.read_text()
        olds = old if isinstance(old, tuple) else (old,)
        news = new if isinstance(new, tuple) else (new,)
        for o, n_ in zip(olds, news):
            if o.startswith("ALL:"):
                o = o[4:]
                if s.count(o) < 1:
                    return mid, check, "SKIP", "anchor text not found", 0
            elif s.count(o) != 1:
                return mid, check, "SKIP", f"anchor text matches {s.count(o)} times", 0
            s = s.replace(o, n_)
        p.write_text(s)
        # must still import
        r = subprocess.run(
            ["/venv/bin/python", "-c", "import tensora, tensora.cli"],
            env={**os.environ, "PYTHONPATH": str(d / "src")},
            capture_output=True,
            text=True,
        )
        if r.returncode != 0:
            return mid, check, "SKIP", "mutant does not import: " + r.stderr.strip().splitlines()[-1][:100], 0
        r = subprocess.run(
            [str(VERIF / "check"), check, "--tier", "quick", "--src", str(d / "src")], capture_output=True, text=True, cwd=VERIF
        )
        out = r.stdout + r.stderr
        und = [l for l in out.splitlines() if "UNDISCHARGED" in l]
        if expect is None:
            ok = r.returncode == 0
            return mid, check, "OK" if ok else "FALSE-ALARM", (und[0][:160] if und else f"exit {r.returncode}"), time.time() - t0
        if r.returncode == 1 and (expect == "ANY" or any(expect in l for l in und)):
            first = next((l for l in und if expect == "ANY" or expect in l), und[0] if und else "")
            return mid, check, "DETECTED", first.strip()[:200], time.time() - t0
        if r.returncode == 1:
            return mid, check, "DETECTED-OTHER", (und[0].strip()[:200] if und else ""), time.time() - t0
        if r.returncode == 2:
            return mid, check, "ANALYSIS-ERROR", out.strip().splitlines()[-1][:200], time.time() - t0
        return mid, check, "MISSED", f"exit {r.returncode}", time.time() - t0
    finally:
        shutil.rmtree(d, ignore_errors=True)


def main():
    ap = argparse.ArgumentParser()
    ap.add_argument("-j", type=int, default=8)
    ap.add_argument("--only", default="")
    args = ap.parse_args()
    muts = M
    if args.only:
        sel = args.only.split(",")
        muts = [x for x in M if x[1] in sel or x[0] in sel]
    res = []
    with cf.ThreadPoolExecutor(args.j) as ex:
        for r in ex.map(run_one, muts):
            res.append(r)
            print(f"{r[2]:15s} {r[0]:34s} {r[1]} {r[4]:5.1f}s  {r[3]}")
            sys.stdout.flush()
    summary = {}
    for r in res:
        summary[r[2]] = summary.get(r[2], 0) + 1
    print("SUMMARY", summary)
    (VERIF / "selftest" / "last_run.json").write_text(json.dumps([list(r) for r in res], indent=1))
    bad = [r for r in res if r[2] in ("MISSED", "FALSE-ALARM", "ANALYSIS-ERROR")]
    return 1 if bad else 0


if __name__ == "__main__":
    sys.exit(main())
