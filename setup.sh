#!/bin/bash
# Nothing to build: checks are Python programs run by /venv/bin/python (the repository's own
# interpreter). This smoke test imports the analysed tree and the analyser.
set -e
cd "$(dirname "$0")"
mkdir -p out evidence
PYTHONPATH=/repo/src:. PYTHONDONTWRITEBYTECODE=1 /venv/bin/python - <<'PY'
import tensora, sys
assert tensora.__file__.startswith("/repo/src/"), tensora.__file__
import vf.family, vf.krules
print("setup ok:", len(vf.krules.REGISTRY), "K rules")
PY
