#!/bin/bash
# tools/twin_matrix.sh <out.log> [glob] : every twin under /verif/twins (default glob "*-r") against the checks that read the
# files it touches (S checks always; K-based checks when it touches generator / codegen / compile code).
out="$1"; : > "$out"; glob="${2:-*-r}"
job() {
  diff="$1"; c="$2"
  d=$(mktemp -d /tmp/scr.XXXXXX); cp -r /repo/src "$d/src"
  if ( cd "$d" && patch -p1 -s < "$diff" ) >/dev/null 2>&1; then
    o=$(cd /verif && VERIF_NO_EVIDENCE=1 ./check "$c" --tier quick --src "$d/src" 2>&1); rc=$?
    echo "== $(echo $diff | sed 's#/verif/twins/##') $c exit=$rc $(echo "$o" | grep -E 'UNDISCHARGED|ANALYSIS-ERROR' | head -2 | cut -c1-260 | tr '\n' '|')"
  else echo "== $diff $c patch-failed"; fi
  rm -rf "$d"
}
export -f job
for diff in /verif/twins/$glob/r*.diff; do
  checks="C07 C08 C09 C10 C12 C14 C15"
  case "$diff" in */F*-f/*) checks="$checks C13 C11";; esac
  if grep -q "^+++ b/src/tensora/\(iteration_graph\|desugar\|codegen\|ir\|generate\|kernel_type\|problem\)" "$diff"; then checks="$checks C01 C02 C04 C05 C06 C16 C03"; fi
  if grep -q "^+++ b/src/tensora/\(compile\|tensor.py\)" "$diff"; then case "$checks" in *C13*) ;; *) checks="$checks C13 C11";; esac; fi
  for c in $checks; do echo "$diff $c"; done
done | xargs -P 5 -L 1 bash -c 'job $0 $1' >> "$out" 2>&1
echo DONE >> "$out"
