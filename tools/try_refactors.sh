#!/bin/bash
# tools/try_refactors.sh <Cxx> [extra checks...] : run every /verif/twins/<Cxx>-r/r*.diff (behaviour-preserving
# refactorings written by a sub-agent) against check Cxx (and extra checks) on scratch copies; any non-zero exit is a
# false alarm to look at.
id="$1"; shift
for diff in /verif/twins/$id-r/r*.diff; do
  d=$(mktemp -d /tmp/scr.XXXXXX)
  cp -r /repo/src "$d/src"
  if ! ( cd "$d" && patch -p1 -s < "$diff" ); then echo "$(basename $diff): patch does not apply"; rm -rf "$d"; continue; fi
  for c in $id "$@"; do
    out=$(cd /verif && VERIF_NO_EVIDENCE=1 ./check "$c" --tier quick --src "$d/src" 2>&1); rc=$?
    echo "== $id/$(basename $diff) $c exit=$rc"
    echo "$out" | grep -E "UNDISCHARGED|ANALYSIS-ERROR" | cut -c1-${MAXW:-330} | head -${MAXL:-4}
  done
  rm -rf "$d"
done
