#!/bin/bash
# Re-run every registered quick command on /repo and report exit codes (rewrites evidence/*.json).
cd /verif
rc_all=0
for c in C01 C02 C03 C04 C05 C06 C07 C08 C09 C10 C11 C12 C13 C14 C15 C16; do
  out=$(./check $c --tier quick 2>&1); rc=$?
  echo "$c exit=$rc $(echo "$out" | grep -E '^\[C' | cut -c1-110)"
  [ $rc -ne 0 ] && { rc_all=1; echo "$out" | grep -E "UNDIS|VIOL|ANALYSIS" | head -5; }
done
python3-vt - <<'PY'
import json,jsonschema,glob
es=json.load(open('/root/.vp/EVIDENCE.schema.json'))
for f in sorted(glob.glob('/verif/evidence/C*.json')):
    e=json.load(open(f)); jsonschema.validate(e, es)
    assert e['tier']=='quick' and e['violations']==0, f
print("evidence valid:", len(glob.glob('/verif/evidence/C*.json')))
PY
exit $rc_all
