#!/bin/bash
# tools/all_seeds_f.sh <out.log> : every round-f mutant (/verif/seeded-f/Cxx/m*.diff, ordinary one-line mistakes) against
# the check of its property on a scratch copy.  exit=0 is a MISS, exit=2 an undecided run.
out="$1"; : > "$out"
job() {
  diff="$1"; c=$(basename $(dirname "$diff"))
  d=$(mktemp -d /tmp/scr.XXXXXX); cp -r /repo/src "$d/src"
  if ( cd "$d" && patch -p1 -s < "$diff" ) >/dev/null 2>&1; then
    o=$(cd /verif && VERIF_NO_EVIDENCE=1 ./check "$c" --tier quick --src "$d/src" 2>&1); rc=$?
    echo "== $c/$(basename $diff) exit=$rc $(echo "$o" | grep -E 'UNDISCHARGED|UNDECIDED|ANALYSIS-ERROR' | head -1 | cut -c1-230)"
  else echo "== $diff patch-failed"; fi
  rm -rf "$d"
}
export -f job
ls /verif/seeded-f/*/m*.diff | xargs -P 4 -L 1 bash -c 'job $0' >> "$out" 2>&1
echo DONE >> "$out"
