S_NOTE_UNDECIDED = {}
CHECKS = {
    "C06": dict(
        text="Sibling agreement of the C and LLVM printers decided clause by clause from their source: dispatch exhaustiveness, "
        "call arity, operator/predicate/conversion tables, C precedence vs parenthesisation, struct layout vs GEP indexes, "
        "allocation width, identifiers provided, hoisting totality; plus IR type inference of every emitted kernel of the family "
        "against the operand-type cases the LLVM printer implements.",
        technique="custom AST checkers over the two printers (table extraction + semantic tables) and static type inference of emitted kernel IR",
        design_ref="DESIGN.md section 3 C06",
        engine="S+K",
        undecided="bit-identical results of gcc vs LLVM JIT; that the C compiles / the LLVM module verifies (would require running tool chains)",
    ),
    "C07": dict(
        text="Proof by structural induction whose local lemmas are extracted from the optimiser's source: every registered peephole "
        "implementation is abstractly evaluated into (class, path condition, result) instances, each checked to be a homomorphic "
        "rebuild or a valid identity by polynomial normal forms, truth tables, order axioms and a small-step table.",
        technique="abstract evaluation of the optimiser's AST into rewrite-rule instances + normal-form validity checking",
        design_ref="DESIGN.md section 3 C07",
        engine="S",
        undecided="interaction of type-changing rewrites with later integer overflow (outside the property's premise)",
    ),
    "C08": dict(
        text="Exception-escape analysis over the resolved call graph with per-site discharge rules (dispatch/match exhaustiveness, "
        "abstract overrides, frozen invariants, kernel typing), CLI result discipline, family-level crash datum and reserved "
        "identifier check on emitted kernels.",
        technique="call-graph exception-escape analysis + exhaustiveness checks (ast/inspect) + static checks on emitted kernel IR",
        design_ref="DESIGN.md section 3 C08",
        engine="S+K",
        undecided="that generation never hangs; acceptance by the real gcc / LLVM verifier; implicit exceptions beyond the family",
    ),
}
PENDING = {}
