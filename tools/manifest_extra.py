S_NOTE_UNDECIDED = {}
CHECKS = {
    "C06": dict(
        text="Sibling agreement of the C and LLVM printers decided clause by clause from their source: dispatch exhaustiveness, "
        "call arity, operator/predicate/conversion tables, C precedence vs parenthesisation, struct layout vs GEP indexes, "
        "allocation width, identifiers provided, hoisting totality; plus IR type inference of every emitted kernel of the family "
        "against the operand-type cases the LLVM printer implements.",
        technique="custom AST checkers over the two printers (table extraction + semantic tables), abstract evaluation of the C expression printer with the printed text read back by a reference C precedence grammar, static type inference / liveness of emitted kernel IR, LLVM parser+verifier on the printed modules (nothing compiled or run)",
        design_ref="DESIGN.md section 3 C06",
        engine="S+K",
        undecided="bit-identical results of gcc vs LLVM JIT; that the C compiles / the LLVM module verifies (would require running tool chains)",
    ),
    "C07": dict(
        text="Proof by structural induction whose local lemmas are extracted from the optimiser's source: every registered peephole "
        "implementation is abstractly evaluated into (class, path condition, result) instances, each checked to be a homomorphic "
        "rebuild or a valid identity by polynomial normal forms, truth tables, order axioms and a small-step table.",
        technique="abstract evaluation of the optimiser's AST into rewrite-rule instances + normal-form validity checking",
        design_ref="DESIGN.md section 3 C07",
        engine="S",
        undecided="interaction of type-changing rewrites with later integer overflow (outside the property's premise)",
    ),
    "C08": dict(
        text="Exception-escape analysis over the resolved call graph with per-site discharge rules (dispatch/match exhaustiveness, "
        "abstract overrides, frozen invariants, kernel typing), CLI result discipline, family-level crash datum and reserved "
        "identifier check on emitted kernels.",
        technique="call-graph exception-escape analysis + exhaustiveness checks (ast/inspect) + static checks on emitted kernel IR",
        design_ref="DESIGN.md section 3 C08",
        engine="S+K",
        undecided="that generation never hangs; acceptance by the real gcc / LLVM verifier; implicit exceptions beyond the family",
    ),
}
CHECKS.update({
    "C01": dict(
        text="Structural necessary conditions of the numerical property, decided on every emitted evaluate/compute kernel of the "
        "family for all inputs (operand/store addressing by provenance typing, term/loop agreement, dense cover, monomial agreement "
        "with exact rational coefficients, lattice order) plus axis-space typing of every order conversion and identifier-template "
        "unification in the Python source. Numerical equality itself is not decided.",
        technique="static analysis of emitted kernel IR (provenance typing, term expansion, polynomial comparison) + a D/L axis-space type system and template unification over the Python AST",
        design_ref="DESIGN.md section 3 C01",
        engine="K+S",
        undecided="numerical equality with sum-of-products for all values; invariance under floating-point re-association; anything beyond the enumerated family",
    ),
    "C09": dict(
        text="Readers (taco_indices, taco_vals, items) and the validator interpreted over a symbolic stored structure for every "
        "format up to order 3 (position recurrences, slice bounds, visited ranges, reported coordinate as polynomial normal forms; "
        "the validator's accepting path must assume every clause of the canonical form); Tensor.from_aos interpreted over symbolic "
        "coordinates, every order type of up to 3 entries checked against the canonical structure; constructors / to_format / to_dok "
        "/ pickling pass data through; axis-space typing (dimension vs level order) of all order conversions.",
        technique="abstract interpretation over symbolic integers/arrays (polynomial normal forms, path assumptions, one witness set per order type) + custom D/L/Perm type system over the Python AST",
        design_ref="DESIGN.md section 3 C09",
        engine="S",
        undecided="floating-point rounding of summed duplicates / pickled floats; more than 3 entries, orders beyond 3 (readers) / 2 (construction)",
    ),
    "C10": dict(
        text="Who-may-enter-kernel (single call site of the compiled pointer), must-pass-through by statement dominance "
        "(signature.bind, per-argument checks, per-index dimension cross-check with iteration-coverage domain), Problem/make_problem rejections.",
        technique="abstract evaluation of TensorMethod.__init__ and __call__ (the call is evaluated on the object __init__ builds), the porcelain and make_problem over symbolic tensor metadata (equality assumptions, event of kernel entry) + who-may-call + statement dominance",
        design_ref="DESIGN.md section 3 C10",
        engine="S",
        undecided="that cffi itself rejects non-cdata arguments",
    ),
    "C11": dict(
        text="Operator layer: dunder table, abstract evaluation of the operator functions over all operand orders/modes/orderings with "
        "symbolic dimensions (synthesised assignment must be the element-wise / einsum form, ValueError exactly on differing "
        "dimensions, documented output format), axis typing of the @ format rule; plus engine K (addressing, monomials, coverage) "
        "on the kernels the operators request.",
        technique="abstract evaluation of the operator functions + axis-space typing + static analysis of the emitted operator kernels (IR)",
        design_ref="DESIGN.md section 3 C11",
        engine="S",
        undecided="rounding / accumulation order",
    ),
    "C12": dict(
        text="The parsita grammar classes are interpreted from their source (combinator tree + abstractly evaluated semantic actions) and "
        "compared with the reference reading (precedence, left association, literal kinds) on a corpus holding every printer output; "
        "deparse is evaluated abstractly on every small tree/format and re-read; literal token converters must be total on the token "
        "language (regex ASTs); exception escape of parser callbacks; rejection semantics of Assignment.__post_init__ by abstract "
        "evaluation over all small assignment structures.",
        technique="grammar interpretation from the AST + abstract evaluation of printers/validators + regex-AST inspection + exception-escape analysis",
        design_ref="DESIGN.md section 3 C12",
        engine="S",
        undecided="nothing beyond the recorded findings F9-F11",
    ),
    "C13": dict(
        text="Ownership structure that makes every del/gc/pickle history safe: the ownership layer and TensorMethod.__call__ are "
        "evaluated abstractly in a model of cffi (object graph: exactly the kernel's arrays get one free() wrapper each, everything the "
        "structure points to is held by the holder registered under it; exactly-once hand-over on every path out of the kernel call), "
        "slots kernels fill with malloc'ed memory (K rule on every kernel), forbidden-construct rules (eager release, finalize, __del__), "
        "borrowed pointers, who-may-free.",
        technique="abstract evaluation of the ownership layer over a cffi object-graph model + typestate on an event log + who-may-call + slot agreement on emitted kernel IR",
        design_ref="DESIGN.md section 3 C13",
        engine="S+K",
        undecided="all del/gc/pickle interleavings and CPython/cffi finaliser ordering (history quantifier)",
    ),
    "C14": dict(
        text="Necessary-condition check of the lock/ownership discipline: FFI.compile under the module-level lock, shared-state "
        "inventory, fresh engine per compiled module, re-entrancy of TensorMethod.__call__.",
        technique="lock-scope, shared-state inventory and def-use checks over the Python AST",
        design_ref="DESIGN.md section 3 C14",
        engine="S",
        undecided="all thread interleavings; thread-safety of cffi/llvmlite/CPython internals (schedule quantifier)",
    ),
    "C15": dict(
        text="Enumeration of every hash-order-observing construct on the generation path against a confirmed-benign table with "
        "machine-checked side conditions, stable-set implementation, purity of the generation path, cache-key completeness, CLI dataflow.",
        technique="typed dataflow enumeration of order-observing sites (taint to text sinks in the evaluate layer) + purity/effect analysis + abstract evaluation of the stable-set classes, Problem equality/hash and make_problem + cache-key field analysis (ast/inspect)",
        design_ref="DESIGN.md section 3 C15",
        engine="S",
        undecided="byte-equality across processes of llvmlite's own printing (outside the repository)",
    ),
})
PENDING = {}
