#!/bin/bash
# tools/confirm_seed.sh <worktree> <seed-id> : confirm a sub-agent's seeded change independently and
# store it under /verif/seeded/<seed-id>/ (patch.diff, demo.py, meta.json + confirmation.json).
wt="$1"; id="$2"
dest=/verif/seeded/$id
cd "$wt" || exit 2
[ -f _seed/patch.diff ] && [ -f _seed/demo.py ] || { echo "missing deliverables"; exit 2; }
export PYTHONPATH="$wt/src"
# 1. demo with the change applied (worktree state) must fail
git diff --quiet -- src && { echo "worktree has no change applied; applying patch"; git apply _seed/patch.diff || exit 2; }
timeout 900 /venv/bin/python _seed/demo.py > /tmp/seed_$id.mod.log 2>&1; rc_mod=$?
# 2. demo on the unmodified tree must pass
# (no `git stash`: the stash is shared by all worktrees of the repository)
git diff -- src > /tmp/seed_$id.patch
git apply -R /tmp/seed_$id.patch || exit 2
timeout 900 /venv/bin/python _seed/demo.py > /tmp/seed_$id.orig.log 2>&1; rc_orig=$?
git apply /tmp/seed_$id.patch || exit 2
# 3. test suite with the change
( /venv/bin/python -m pytest tests/test_combinatorically.py -q -p no:cacheprovider --timeout=900 2>&1 | tail -1 > /tmp/seed_$id.t1 ) &
( /venv/bin/python -m pytest tests_cffi -q -p no:cacheprovider --timeout=900 2>&1 | tail -1 > /tmp/seed_$id.t2 ) &
( /venv/bin/python -m pytest tests fuzz_tests/test_parsing.py --ignore=tests/test_combinatorically.py -q -p no:cacheprovider --timeout=900 2>&1 | tail -1 > /tmp/seed_$id.t3 ) &
wait
tests="$(cat /tmp/seed_$id.t1 /tmp/seed_$id.t2 /tmp/seed_$id.t3 | tr '\n' ';')"
echo "seed $id: demo_modified_rc=$rc_mod demo_original_rc=$rc_orig tests: $tests"
ok=1
[ $rc_mod -ne 0 ] || ok=0
[ $rc_orig -eq 0 ] || ok=0
echo "$tests" | grep -q "failed\|error" && ok=0
echo "$tests" | grep -q "2426 passed" || ok=0
echo "$tests" | grep -q "1514 passed" || ok=0
echo "$tests" | grep -q "1180 passed" || ok=0
if [ $ok -eq 1 ]; then
  mkdir -p "$dest"
  git diff -- src > "$dest/patch.diff"
  cp _seed/demo.py "$dest/demo.py"
  cp _seed/meta.json "$dest/meta.json" 2>/dev/null
  python3 - "$dest" "$rc_mod" "$rc_orig" "$tests" "$id" <<'PY'
import json,sys
dest,rc_mod,rc_orig,tests,sid=sys.argv[1:6]
json.dump({"seed":sid,"confirmed_by":"tools/confirm_seed.sh (independent re-run in the sub-agent's scratch worktree)",
 "demo_rc_with_change":int(rc_mod),"demo_rc_without_change":int(rc_orig),"stable_suite_with_change":tests,
 "demo_tail_with_change":open(f"/tmp/seed_{sid}.mod.log").read()[-600:],"demo_tail_without_change":open(f"/tmp/seed_{sid}.orig.log").read()[-300:]},
 open(dest+"/confirmation.json","w"),indent=1)
PY
  echo "CONFIRMED -> $dest"
else
  echo "NOT CONFIRMED"
fi
rm -f /tmp/seed_$id.*
