#!/bin/bash
# tools/all_seeds.sh <out.log> : every stored seed (/verif/seeded/<id>/patch.diff) against the check of its property,
# on a scratch copy.  A seed whose check exits 0 is a MISS.
out="$1"; : > "$out"
job() {
  id="$1"; c="${id%%-*}"
  d=$(mktemp -d /tmp/scr.XXXXXX); cp -r /repo/src "$d/src"
  if ( cd "$d" && patch -p1 -s < /verif/seeded/$id/patch.diff ) >/dev/null 2>&1; then
    o=$(cd /verif && VERIF_NO_EVIDENCE=1 ./check "$c" --tier quick --src "$d/src" 2>&1); rc=$?
    echo "== $id $c exit=$rc $(echo "$o" | grep -E 'UNDISCHARGED|ANALYSIS-ERROR' | head -1 | cut -c1-230)"
  else echo "== $id patch-failed"; fi
  rm -rf "$d"
}
export -f job
ls /verif/seeded | xargs -P 4 -L 1 bash -c 'job $0' >> "$out" 2>&1
echo DONE >> "$out"
