#!/bin/bash
# tools/try_patch_copy.sh <patch.diff> Cxx [Cyy ...] : apply a patch to a scratch COPY of /repo/src, run checks
# with --src on the copy, remove the copy. Does not touch /repo.
patch="$1"; shift
d=$(mktemp -d /tmp/scr.XXXXXX)
cp -r /repo/src "$d/src"
( cd "$d" && patch -p1 -s < "$patch" ) || { echo "patch does not apply"; rm -rf "$d"; exit 2; }
cd /verif
for c in "$@"; do
  out=$(./check "$c" --tier quick --src "$d/src" 2>&1); rc=$?
  echo "== $c exit=$rc"
  echo "$out" | grep -E "UNDISCHARGED|UNDECIDED|VIOLATION|ANALYSIS-ERROR|\.\.\. " | cut -c1-420 | head -${MAXL:-6}
done
rm -rf "$d"
