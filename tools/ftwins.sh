#!/bin/bash
# tools/ftwins.sh <out.log> [done.log] : the feature twins (/verif/twins/F*-f: legitimate maintenance work that
# keeps every property) against the S checks, then - for twins touching generator / printer code - C06 C01 C05.
# Jobs listed as exit=0 in done.log are skipped.  Any non-zero exit is a false alarm (1) or an undecided run (2).
out="$1"; : > "$out"; donelog="${2:-/dev/null}"
job() {
  diff="$1"; c="$2"
  d=$(mktemp -d /tmp/scr.XXXXXX); cp -r /repo/src "$d/src"
  if ( cd "$d" && patch -p1 -s < "$diff" ) >/dev/null 2>&1; then
    o=$(cd /verif && VERIF_NO_EVIDENCE=1 ./check "$c" --tier quick --src "$d/src" 2>&1); rc=$?
    echo "== $(echo $diff | sed 's#/verif/twins/##') $c exit=$rc $(echo "$o" | grep -E 'UNDISCHARGED|UNDECIDED|ANALYSIS-ERROR' | head -2 | cut -c1-300 | tr '\n' '|')"
  else echo "== $diff $c patch-failed"; fi
  rm -rf "$d"
}
export -f job
{
for diff in /verif/twins/F*-f/r*.diff; do
  for c in C07 C08 C09 C10 C12 C14 C15 C13 C11; do echo "$diff $c"; done
done
for diff in /verif/twins/F*-f/r*.diff; do
  if grep -q "^+++ b/src/tensora/\(iteration_graph\|desugar\|codegen\|ir\|generate\|kernel_type\|problem\)" "$diff"; then
    for c in C06 C01 C05; do echo "$diff $c"; done
  fi
done
} | while read d c; do
  k="$(echo $d | sed 's#/verif/twins/##') $c exit=0"
  if grep -q "^== $k" "$donelog" 2>/dev/null; then :; else echo "$d $c"; fi
done | xargs -P 4 -L 1 bash -c 'job $0 $1' >> "$out" 2>&1
echo DONE >> "$out"
