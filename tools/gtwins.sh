#!/bin/bash
# tools/gtwins.sh <out.log> <set...> : generator refactorings that CHANGE the emitted kernels but not what they compute
# (/verif/twins/<set>/r*.diff) against every K-based check and the S checks that read generator code.
out="$1"; shift; : > "$out"
job() {
  diff="$1"; c="$2"
  d=$(mktemp -d /tmp/scr.XXXXXX); cp -r /repo/src "$d/src"
  if ( cd "$d" && patch -p1 -s < "$diff" ) >/dev/null 2>&1; then
    o=$(cd /verif && VERIF_NO_EVIDENCE=1 ./check "$c" --tier quick --src "$d/src" 2>&1); rc=$?
    echo "== $(echo $diff | sed 's#/verif/twins/##') $c exit=$rc $(echo "$o" | grep -E 'UNDISCHARGED|ANALYSIS-ERROR' | head -2 | cut -c1-300 | tr '\n' '|')"
  else echo "== $diff $c patch-failed"; fi
  rm -rf "$d"
}
export -f job
for s in "$@"; do for diff in /verif/twins/$s/r*.diff; do for c in C01 C02 C03 C04 C05 C06 C07 C08 C11 C13 C15 C16; do echo "$diff $c"; done; done; done | xargs -P 4 -L 1 bash -c 'job $0 $1' >> "$out" 2>&1
echo DONE >> "$out"
