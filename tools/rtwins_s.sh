#!/bin/bash
# tools/rtwins_s.sh <out.log> [glob] : every refactoring twin (/verif/twins/C*-r, behaviour byte-identical) against every
# check whose deciding rules read Python source (S checks).  Any non-zero exit is a false alarm / undecided run.
out="$1"; : > "$out"
job() {
  diff="$1"; c="$2"
  d=$(mktemp -d /tmp/scr.XXXXXX); cp -r /repo/src "$d/src"
  if ( cd "$d" && patch -p1 -s < "$diff" ) >/dev/null 2>&1; then
    o=$(cd /verif && VERIF_SKIP_K=1 VERIF_NO_EVIDENCE=1 ./check "$c" --tier quick --src "$d/src" 2>&1); rc=$?
    echo "== $(echo $diff | sed 's#/verif/twins/##') $c exit=$rc $(echo "$o" | grep -E 'UNDISCHARGED|UNDECIDED|ANALYSIS-ERROR' | head -2 | cut -c1-300 | tr '\n' '|')"
  else echo "== $diff $c patch-failed"; fi
  rm -rf "$d"
}
export -f job
for diff in /verif/twins/${2:-C*-r}/r*.diff; do
  for c in C07 C08 C09 C10 C12 C14 C15 C13 C11 C06 C01; do echo "$diff $c"; done
done | xargs -P 3 -L 1 bash -c 'job $0 $1' >> "$out" 2>&1
echo DONE >> "$out"
