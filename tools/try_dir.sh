#!/bin/bash
# tools/try_dir.sh <dir> Cxx [pattern] : every <dir>/<pattern>.diff (default m*.diff) against check Cxx on a scratch copy
dir="$1"; c="$2"; pat="${3:-m*.diff}"
for diff in "$dir"/$pat; do
  d=$(mktemp -d /tmp/scr.XXXXXX); cp -r /repo/src "$d/src"
  if ( cd "$d" && patch -p1 -s < "$diff" ) >/dev/null 2>&1; then
    o=$(cd /verif && VERIF_NO_EVIDENCE=1 ./check "$c" --tier quick --src "$d/src" 2>&1); rc=$?
    echo "== $(basename $diff) $c exit=$rc $(echo "$o" | grep -E 'UNDISCHARGED|UNDECIDED|ANALYSIS-ERROR' | head -${MAXL:-1} | cut -c1-330 | tr '\n' '|')"
  else echo "== $diff patch-failed"; fi
  rm -rf "$d"
done
