#!/bin/bash
# tools/try_patch.sh <patch.diff> Cxx [Cyy ...] : apply a patch to /repo, run the checks, revert.
patch="$1"; shift
cd /repo || exit 2
if ! git diff --quiet; then echo "/repo has uncommitted changes"; exit 2; fi
git apply "$patch" || { echo "patch does not apply"; exit 2; }
cd /verif
for c in "$@"; do
  out=$(VERIF_NO_EVIDENCE=1 ./check "$c" --tier quick 2>&1); rc=$?
  echo "== $c exit=$rc"
  echo "$out" | grep -E "UNDISCHARGED|VIOLATION|ANALYSIS-ERROR" | cut -c1-300 | head -8
done
git -C /repo checkout -- . 
git -C /repo status --short | head -3
